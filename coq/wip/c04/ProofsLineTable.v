(* C04 - proofs about the look-ups of ModelLineTable.v *)
From BS Require Import Model.Base.
From W Require Import ModelLineTable.
From Coq Require Import Lia.

Local Open Scope N_scope.

Lemma half_facts : forall n, (2 <= n)%nat -> (1 <= n / 2 /\ n / 2 <= n - n / 2 /\ n / 2 < n)%nat.
Proof.
  intros n H. pose proof (Nat.div_mod n 2). pose proof (Nat.mod_upper_bound n 2).
  remember (n / 2)%nat as q. remember (n mod 2)%nat as m. lia.
Qed.

(* ------------------------------------------------------------------------------------------ *)
(* sortedness                                                                                 *)
(* ------------------------------------------------------------------------------------------ *)

Definition sorted_keys (l : list N) : Prop :=
  forall i j a b, (i <= j)%nat -> nth_error l i = Some a -> nth_error l j = Some b -> a <= b.

Fixpoint sorted_keysb (l : list N) : bool :=
  match l with
  | a :: ((b :: _) as t) => (a <=? b) && sorted_keysb t
  | _ => true
  end.

Lemma sorted_keysb_head : forall l a, sorted_keysb (a :: l) = true ->
  forall j b, nth_error l j = Some b -> a <= b.
Proof.
  induction l as [|x l IH]; intros a H j b Hj.
  - destruct j; discriminate.
  - cbn [sorted_keysb] in H. apply andb_true_iff in H. destruct H as [H1 H2].
    apply N.leb_le in H1. destruct j as [|j]; cbn [nth_error] in Hj.
    + inversion Hj; subst. exact H1.
    + specialize (IH x H2 j b Hj). lia.
Qed.

Lemma sorted_keysb_tail : forall l a, sorted_keysb (a :: l) = true -> sorted_keysb l = true.
Proof.
  intros [|x l] a H; [reflexivity|]. cbn [sorted_keysb] in H. apply andb_true_iff in H. tauto.
Qed.

Lemma sorted_keysb_ok : forall l, sorted_keysb l = true -> sorted_keys l.
Proof.
  induction l as [|x l IH]; intros H i j a b Hij Hi Hj.
  - destruct i; discriminate.
  - destruct i as [|i]; destruct j as [|j]; cbn [nth_error] in *.
    + inversion Hi; inversion Hj; subst. lia.
    + inversion Hi; subst. eapply sorted_keysb_head; eauto.
    + lia.
    + eapply (IH (sorted_keysb_tail _ _ H) i j); eauto. lia.
Qed.

(* ------------------------------------------------------------------------------------------ *)
(* binary_search_by_key                                                                       *)
(* ------------------------------------------------------------------------------------------ *)

(* what the final [base] of the halving loop is on a sorted slice: every key after it is greater
   than pc and, unless it is 0, its own key is <= pc: it is the LAST index whose key is <= pc *)
Definition base_post (keys : list N) (pc : N) (b : nat) : Prop :=
  (b < length keys)%nat /\
  (b = 0%nat \/ exists k, nth_error keys b = Some k /\ k <= pc) /\
  (forall j k, (b < j)%nat -> nth_error keys j = Some k -> pc < k).

Lemma bs_loop_ok : forall keys pc, sorted_keys keys ->
  forall fuel base size,
    (1 <= size)%nat -> (base + size <= length keys)%nat -> (size <= S fuel)%nat ->
    (base = 0%nat \/ exists k, nth_error keys base = Some k /\ k <= pc) ->
    (forall j k, (base + size <= j)%nat -> nth_error keys j = Some k -> pc < k) ->
    exists b, bs_loop fuel keys pc base size = Ok b /\ base_post keys pc b.
Proof.
  intros keys pc Hs. induction fuel as [|fuel IH]; intros base size H1 Hlen Hf Hlo Hhi.
  - assert (size = 1%nat) by lia. subst size. cbn [bs_loop Nat.leb]. exists base. split; [reflexivity|].
    repeat split; try lia; auto. intros j k Hj. apply Hhi. lia.
  - cbn [bs_loop]. destruct (Nat.leb_spec size 1) as [Hle|Hgt].
    + assert (size = 1%nat) by lia. subst size. exists base. split; [reflexivity|].
      repeat split; try lia; auto. intros j k Hj. apply Hhi. lia.
    + destruct (half_facts size) as [Hh1 [Hh2 Hh3]]; [lia|].
      remember (size / 2)%nat as half.
      destruct (nth_error keys (base + half)) as [k|] eqn:Hk.
      2:{ apply nth_error_None in Hk. lia. }
      destruct (N.ltb_spec pc k) as [Hlt|Hge].
      * apply IH; try lia; auto.
        intros j kj Hj Hkj. assert (k <= kj). { eapply (Hs (base + half)%nat j); eauto. lia. } lia.
      * apply IH; try lia.
        -- right. exists k. split; [assumption|lia].
        -- intros j kj Hj Hkj. apply (Hhi j kj); [lia|assumption].
Qed.

(* postcondition of binary_search_by_key on a sorted slice *)
Definition bs_post (keys : list N) (pc : N) (r : bsr) : Prop :=
  match r with
  | Found i => nth_error keys i = Some pc /\
               (forall j k, (i < j)%nat -> nth_error keys j = Some k -> pc < k)
  | NotFound p => (p <= length keys)%nat /\
                  (forall j k, (j < p)%nat -> nth_error keys j = Some k -> k < pc) /\
                  (forall j k, (p <= j)%nat -> nth_error keys j = Some k -> pc < k)
  end.

Lemma bsearch_nonempty : forall keys pc, keys <> [] ->
  bsearch keys pc =
  (base <- bs_loop (length keys) keys pc 0%nat (length keys) ;;
   match nth_error keys base with
   | None => Panic 1
   | Some k => if k =? pc then Ok (Found base)
               else let inc := if k <? pc then 1%nat else 0%nat in Ok (NotFound (base + inc)%nat)
   end).
Proof. intros [|k keys] pc H; [congruence|reflexivity]. Qed.

(* binary_search_by_key never panics, never runs out of fuel, and on equal keys returns the LAST *)
Theorem bsearch_ok : forall keys pc, sorted_keys keys ->
  exists r, bsearch keys pc = Ok r /\ bs_post keys pc r.
Proof.
  intros keys pc Hs. destruct keys as [|k0 keys'] eqn:Ek.
  - exists (NotFound 0). split; [reflexivity|]. cbn [bs_post length]. split; [lia|]. split.
    + intros j k Hj. exfalso. lia.
    + intros j k _ Hj. destruct j; discriminate.
  - rewrite <- Ek in *. rewrite bsearch_nonempty by (rewrite Ek; discriminate).
    destruct (bs_loop_ok keys pc Hs (length keys) 0%nat (length keys)) as [b [Hb [Hb1 [Hb2 Hb3]]]];
      try lia; auto.
    { subst keys. cbn [length]. lia. }
    { intros j k Hj Hk. assert (nth_error keys j = None) by (apply nth_error_None; lia). congruence. }
    rewrite Hb. cbn [bind].
    destruct (nth_error keys b) as [k|] eqn:Hk.
    2:{ apply nth_error_None in Hk. lia. }
    destruct (N.eqb_spec k pc) as [Heq|Hne].
    + subst k. exists (Found b). split; [reflexivity|]. split; assumption.
    + destruct (N.ltb_spec k pc) as [Hlt|Hge].
      * exists (NotFound (b + 1)). split; [reflexivity|]. cbn [bs_post]. repeat split; try lia.
        -- intros j kj Hj Hkj. assert (kj <= k). { eapply (Hs j b); eauto. lia. } lia.
        -- intros j kj Hj Hkj. apply (Hb3 j kj); [lia|assumption].
      * assert (b = 0%nat).
        { destruct Hb2 as [|[k' [Hk' Hle]]]; [assumption|]. inversion Hk'; subst. lia. }
        subst b. exists (NotFound (0 + 0)). split; [reflexivity|]. cbn [bs_post Nat.add]. repeat split; try lia.
        intros j kj _ Hkj. assert (k <= kj). { eapply (Hs 0%nat j); eauto. lia. } lia.
Qed.

(* without sortedness the search still terminates inside the slice *)
Lemma bs_loop_total : forall keys pc fuel base size,
  (1 <= size)%nat -> (base + size <= length keys)%nat -> (size <= S fuel)%nat ->
  exists b, bs_loop fuel keys pc base size = Ok b /\ (b < length keys)%nat.
Proof.
  intros keys pc. induction fuel as [|fuel IH]; intros base size H1 Hlen Hf.
  - assert (size = 1%nat) by lia. subst size. cbn [bs_loop Nat.leb]. exists base. split; [reflexivity|lia].
  - cbn [bs_loop]. destruct (Nat.leb_spec size 1) as [Hle|Hgt].
    + exists base. split; [reflexivity|lia].
    + destruct (half_facts size) as [Hh1 [Hh2 Hh3]]; [lia|].
      remember (size / 2)%nat as half.
      destruct (nth_error keys (base + half)) as [k|] eqn:Hk.
      2:{ apply nth_error_None in Hk. lia. }
      destruct (pc <? k); apply IH; lia.
Qed.

Theorem bsearch_total : forall keys pc,
  exists r, bsearch keys pc = Ok r /\
            match r with Found i => (i < length keys)%nat | NotFound p => (p <= length keys)%nat end.
Proof.
  intros keys pc. destruct keys as [|k0 keys'] eqn:Ek.
  - exists (NotFound 0). split; [reflexivity|]. cbn. lia.
  - rewrite <- Ek in *. rewrite bsearch_nonempty by (rewrite Ek; discriminate).
    destruct (bs_loop_total keys pc (length keys) 0%nat (length keys)) as [b [Hb Hb1]]; try lia.
    { subst keys. cbn [length]. lia. }
    rewrite Hb. cbn [bind]. destruct (nth_error keys b) as [k|] eqn:Hk.
    2:{ apply nth_error_None in Hk. lia. }
    destruct (k =? pc).
    + exists (Found b). split; [reflexivity|assumption].
    + eexists. split; [reflexivity|]. cbn. destruct (k <? pc); lia.
Qed.

(* ------------------------------------------------------------------------------------------ *)
(* pc -> row                                                                                  *)
(* ------------------------------------------------------------------------------------------ *)

Definition sorted_rows (rows : list row) : Prop := sorted_keys (map r_addr rows).
Definition sorted_rowsb (rows : list row) : bool := sorted_keysb (map r_addr rows).
Definition files_ok (u : unit) : Prop := forall r, In r (u_rows u) -> r_file r < u_nfiles u.
Definition files_okb (u : unit) : bool := forallb (fun r => r_file r <? u_nfiles u) (u_rows u).

Lemma sorted_rowsb_ok : forall rows, sorted_rowsb rows = true -> sorted_rows rows.
Proof. intros rows H. apply sorted_keysb_ok. exact H. Qed.

Lemma files_okb_ok : forall u, files_okb u = true -> files_ok u.
Proof.
  intros u H r Hr. unfold files_okb in H. rewrite forallb_forall in H. apply N.ltb_lt. apply H. exact Hr.
Qed.

Lemma nth_map : forall {A B} (f : A -> B) l i,
  nth_error (map f l) i = option_map f (nth_error l i).
Proof. induction l as [|x l IH]; intros [|i]; cbn; auto. Qed.

Lemma nth_map_some : forall {A B} (f : A -> B) l i b,
  nth_error (map f l) i = Some b -> exists a, nth_error l i = Some a /\ f a = b.
Proof.
  intros A B f l i b H. rewrite nth_map in H. destruct (nth_error l i) as [a|]; cbn in H; [|discriminate].
  inversion H. eauto.
Qed.

Lemma sorted_rows_le : forall rows i j a b, sorted_rows rows -> (i <= j)%nat ->
  nth_error rows i = Some a -> nth_error rows j = Some b -> r_addr a <= r_addr b.
Proof.
  intros rows i j a b Hs Hij Ha Hb. eapply (Hs i j); eauto; rewrite nth_map.
  - rewrite Ha. reflexivity.
  - rewrite Hb. reflexivity.
Qed.

(* the index find_place_by_pc / find_eb use: the LAST row whose address is <= pc, or 0 *)
Lemma pc_pos_ok : forall rows pc, sorted_rows rows ->
  exists i, pc_pos rows pc = Ok i /\
    (forall j r, (i < j)%nat -> nth_error rows j = Some r -> pc < r_addr r) /\
    (i = 0%nat \/ exists r, nth_error rows i = Some r /\ r_addr r <= pc).
Proof.
  intros rows pc Hs. unfold pc_pos. destruct (bsearch_ok _ pc Hs) as [r [Hr Hp]]. rewrite Hr. cbn [bind].
  destruct r as [i|p]; cbn [bs_post] in Hp.
  - destruct Hp as [Hi Hafter]. exists i. split; [reflexivity|]. split.
    + intros j r Hj Hjr. apply (Hafter j (r_addr r)); [assumption|]. rewrite nth_map, Hjr. reflexivity.
    + right. apply nth_map_some in Hi. destruct Hi as [a [Ha Hpc]]. exists a. split; [assumption|lia].
  - destruct Hp as [Hlen [Hlt Hgt]]. exists (p - 1)%nat. split; [reflexivity|]. split.
    + intros j r Hj Hjr. apply (Hgt j (r_addr r)); [lia|]. rewrite nth_map, Hjr. reflexivity.
    + destruct p as [|p]; [left; reflexivity|]. right.
      replace (S p - 1)%nat with p by lia.
      destruct (nth_error (map r_addr rows) p) as [k|] eqn:Hk.
      2:{ apply nth_error_None in Hk. lia. }
      assert (k < pc) by (apply (Hlt p k); [lia|assumption]).
      apply nth_map_some in Hk. destruct Hk as [a [Ha Hk]]. exists a. split; [assumption|lia].
Qed.

Lemma find_place_by_idx_some : forall u i r, files_ok u -> nth_error (u_rows u) i = Some r ->
  find_place_by_idx u i = Ok (Some (i, r)).
Proof.
  intros u i r Hf Hr. unfold find_place_by_idx, mk_place. rewrite Hr.
  assert (r_file r < u_nfiles u) by (apply Hf; eapply nth_error_In; eauto).
  destruct (N.ltb_spec (r_file r) (u_nfiles u)); [reflexivity|lia].
Qed.

Lemma find_place_by_idx_none : forall u i, nth_error (u_rows u) i = None -> find_place_by_idx u i = Ok None.
Proof. intros u i H. unfold find_place_by_idx. rewrite H. reflexivity. Qed.

(* EXACT characterisation of BsUnit::find_place_by_pc on a sorted vector: never None unless the
   table is empty; the last row with address <= pc if there is one, else row 0. *)
Theorem find_place_by_pc_exact : forall u pc, sorted_rows (u_rows u) -> files_ok u ->
  (u_rows u = [] /\ find_place_by_pc u pc = Ok None) \/
  exists i r, find_place_by_pc u pc = Ok (Some (i, r)) /\ nth_error (u_rows u) i = Some r /\
    (forall j x, (i < j)%nat -> nth_error (u_rows u) j = Some x -> pc < r_addr x) /\
    (r_addr r <= pc \/ (i = 0%nat /\ forall x, In x (u_rows u) -> pc < r_addr x)).
Proof.
  intros u pc Hs Hf. destruct (pc_pos_ok _ pc Hs) as [i [Hi [Hafter Hat]]].
  unfold find_place_by_pc. rewrite Hi. cbn [bind].
  destruct (nth_error (u_rows u) i) as [r|] eqn:Hr.
  - right. exists i, r. split; [apply find_place_by_idx_some; assumption|]. split; [assumption|].
    split; [assumption|].
    destruct Hat as [H0|[r' [Hr' Hle]]].
    + subst i. destruct (N.leb_spec (r_addr r) pc) as [Hle|Hgt]; [left; assumption|]. right.
      split; [reflexivity|]. intros x Hx. apply In_nth_error in Hx. destruct Hx as [j Hj].
      destruct j as [|j]; [congruence|]. apply (Hafter (S j) x); [lia|assumption].
    + left. congruence.
  - left. destruct Hat as [H0|[r' [Hr' _]]]; [|congruence]. subst i.
    destruct (u_rows u) eqn:E; [|discriminate]. split; [reflexivity|].
    apply find_place_by_idx_none. rewrite E. reflexivity.
Qed.

(* The sorted vector [rows] against the table in program order [prog]: every row r of [prog] that
   covers a non-empty interval [r.addr, r'.addr) (r' = next row of its sequence) occurs in [rows]
   at an index after which only rows at or beyond r'.addr follow.  This fails exactly when the
   sort put another row with r's address (typically the end_sequence row of the previous
   function) after r, or when sequences overlap. *)
Definition tie_ok (prog rows : list row) : Prop :=
  forall r r', In (r, r') (seq_pairs prog) -> r_addr r < r_addr r' ->
    exists i, nth_error rows i = Some r /\
      forall j y, (i < j)%nat -> nth_error rows j = Some y -> r_addr r' <= r_addr y.

Fixpoint tie_at (r r' : row) (rows : list row) : bool :=
  match rows with
  | [] => false
  | x :: t => (row_eqb x r && forallb (fun y => r_addr r' <=? r_addr y) t) || tie_at r r' t
  end.
Definition tie_okb (prog rows : list row) : bool :=
  forallb (fun p => negb (r_addr (fst p) <? r_addr (snd p)) || tie_at (fst p) (snd p) rows) (seq_pairs prog).

Lemma row_eqb_eq : forall a b, row_eqb a b = true -> a = b.
Proof.
  intros [a1 a2 a3 a4 a5 a6 a7 a8] [b1 b2 b3 b4 b5 b6 b7 b8] H. unfold row_eqb in H. cbn in H.
  repeat (apply andb_true_iff in H; destruct H as [H ?]).
  repeat match goal with
         | E : (_ =? _) = true |- _ => apply N.eqb_eq in E
         | E : Bool.eqb _ _ = true |- _ => apply Bool.eqb_prop in E
         end.
  subst. reflexivity.
Qed.

Lemma row_eqb_refl : forall a, row_eqb a a = true.
Proof.
  intros [a1 a2 a3 a4 a5 a6 a7 a8]. unfold row_eqb. cbn.
  rewrite !N.eqb_refl, !Bool.eqb_reflx. reflexivity.
Qed.

Lemma tie_at_ok : forall r r' rows, tie_at r r' rows = true ->
  exists i, nth_error rows i = Some r /\
    forall j y, (i < j)%nat -> nth_error rows j = Some y -> r_addr r' <= r_addr y.
Proof.
  intros r r'. induction rows as [|x t IH]; intros H; [discriminate|].
  cbn [tie_at] in H. apply orb_true_iff in H. destruct H as [H|H].
  - apply andb_true_iff in H. destruct H as [He Hall]. apply row_eqb_eq in He. subst x.
    exists 0%nat. split; [reflexivity|]. intros j y Hj Hy. destruct j as [|j]; [lia|].
    cbn [nth_error] in Hy. rewrite forallb_forall in Hall. apply N.leb_le. apply Hall.
    eapply nth_error_In; eauto.
  - destruct (IH H) as [i [Hi Hafter]]. exists (S i). split; [exact Hi|].
    intros j y Hj Hy. destruct j as [|j]; [lia|]. apply (Hafter j y); [lia|exact Hy].
Qed.

Lemma tie_okb_ok : forall prog rows, tie_okb prog rows = true -> tie_ok prog rows.
Proof.
  intros prog rows H r r' Hin Hlt. unfold tie_okb in H. rewrite forallb_forall in H.
  specialize (H _ Hin). cbn [fst snd] in H. apply orb_true_iff in H. destruct H as [H|H].
  - apply negb_true_iff in H. apply N.ltb_ge in H. lia.
  - apply tie_at_ok. exact H.
Qed.

(* FULL STATEMENT (false, see find_place_by_pc_refuted):
     forall prog rows (rows a sorted permutation of prog), place_of prog pc r ->
       find_place_by_pc u pc = Ok (Some (i, r)).
   PROVED under the tie condition: whenever the DWARF line table says row r covers pc, the
   debugger answers with r. *)
Theorem find_place_by_pc_partial : forall u prog pc r,
  sorted_rows (u_rows u) -> files_ok u -> tie_ok prog (u_rows u) ->
  place_of prog pc r ->
  exists i, find_place_by_pc u pc = Ok (Some (i, r)) /\ nth_error (u_rows u) i = Some r.
Proof.
  intros u prog pc r Hs Hf Ht [r' [Hin [Hlo Hhi]]]. cbn [fst snd] in Hlo, Hhi.
  destruct (Ht r r' Hin) as [i [Hi Hafter]]; [lia|].
  destruct (find_place_by_pc_exact u pc Hs Hf) as [[He _]|[m [x [Hm [Hx [Hgt Hle]]]]]].
  - rewrite He in Hi. destruct i; discriminate.
  - assert (m = i).
    { destruct (Nat.lt_trichotomy m i) as [Hlt|[Heq|Hgt']]; [|assumption|].
      - specialize (Hgt i r Hlt Hi). lia.
      - specialize (Hafter m x Hgt' Hx).
        destruct Hle as [Hle|[Hm0 _]]; [lia|]. lia. }
    subst m. exists i. rewrite Hm. split; [congruence|assumption].
Qed.

(* under the same condition the row the table designates is unique, so the answer is THE row *)
Theorem place_of_unique_partial : forall prog rows pc r1 r2,
  sorted_rows rows -> tie_ok prog rows -> place_of prog pc r1 -> place_of prog pc r2 -> r1 = r2.
Proof.
  intros prog rows pc r1 r2 Hs Ht H1 H2.
  set (u := U [] (N.succ (fold_right (fun r m => N.max (r_file r) m) 0 rows)) rows [] []).
  assert (Hf : files_ok u).
  { intros r Hr. cbn [u u_rows u_nfiles] in *. clear - Hr. induction rows as [|x t IH]; [destruct Hr|].
    cbn [fold_right]. destruct Hr as [->|Hr]; [lia|]. specialize (IH Hr). lia. }
  destruct (find_place_by_pc_partial u prog pc r1 Hs Hf Ht H1) as [i [Hi _]].
  destruct (find_place_by_pc_partial u prog pc r2 Hs Hf Ht H2) as [j [Hj _]].
  rewrite Hi in Hj. inversion Hj. reflexivity.
Qed.

(* stable insertion sort by address: what any STABLE sort of the program-order rows yields *)
Fixpoint ins_row (x : row) (l : list row) : list row :=
  match l with
  | [] => [x]
  | y :: t => if r_addr x <? r_addr y then x :: l else y :: ins_row x t
  end.
Definition stable_sort (l : list row) : list row := fold_left (fun acc x => ins_row x acc) l [].

(* a table with two sequences, the one at the higher addresses first, a gap between them *)
Definition ex_prog : list row :=
  [R 64 1 7 0 true false false false; R 68 1 8 5 true true false false; R 80 1 8 5 true false false true;
   R 16 1 3 0 true false false false; R 20 1 4 9 true true false false; R 20 1 4 12 false false false false;
   R 32 1 4 9 true false false true].
Example tie_okb_example :
  sorted_rowsb (stable_sort ex_prog) = true /\ tie_okb ex_prog (stable_sort ex_prog) = true.
Proof. vm_compute. split; reflexivity. Qed.

(* REFUTATION of the full statement.  Function B = [0x20,0x30) is emitted before function
   A = [0x10,0x20) in the line program (program order), A ends exactly where B starts.  ANY stable
   sort by address (and Rust's sort_unstable on this 5-element vector) puts A's end_sequence row
   after B's first row; binary_search_by_key returns the LAST of the equal keys; so pc = 0x20, the
   first instruction of B (line 7), is answered with A's end_sequence row (line 4). *)
Definition wit_prog : list row :=
  [R 32 1 7 0 true false false false; R 36 1 8 5 true true false false; R 48 1 8 5 true false false true;
   R 16 1 3 0 true false false false; R 32 1 4 0 true false false true].
Definition wit_rows : list row := stable_sort wit_prog.
Definition wit_unit : unit :=
  U [(16, 48)] 2 wit_rows [(16, 32, 100); (32, 48, 200)]
    [F 100 (Some [97]) [(16, 32)]; F 200 (Some [98]) [(32, 48)]].

Theorem find_place_by_pc_refuted :
  exists prog u pc r,
    u_rows u = stable_sort prog /\ sorted_rowsb (u_rows u) = true /\ files_okb u = true /\
    place_ofb prog pc r = true /\
    exists i x, find_place_by_pc u pc = Ok (Some (i, x)) /\ r_es x = true /\ r_line x <> r_line r.
Proof.
  exists wit_prog, wit_unit, 32, (R 32 1 7 0 true false false false).
  repeat split; try (vm_compute; reflexivity).
  exists 2%nat, (R 32 1 4 0 true false false true). repeat split; try (vm_compute; reflexivity).
  vm_compute. discriminate.
Qed.

(* "no row covers pc => None" is false too: below the first row the answer is row 0, beyond the
   end of a sequence it is the end_sequence row (the callers rely on find_unit_by_pc instead) *)
Theorem find_place_by_pc_none_refuted :
  exists u pc1 pc2, sorted_rowsb (u_rows u) = true /\ tie_okb (u_rows u) (u_rows u) = true /\
    no_placeb (u_rows u) pc1 = true /\ no_placeb (u_rows u) pc2 = true /\
    find_place_by_pc u pc1 = Ok (Some (0%nat, R 16 1 3 0 true false false false)) /\
    find_place_by_pc u pc2 = Ok (Some (1%nat, R 32 1 4 0 true false false true)).
Proof.
  exists (U [] 2 [R 16 1 3 0 true false false false; R 32 1 4 0 true false false true] [] []), 5, 40.
  vm_compute. repeat split; reflexivity.
Qed.

Lemma place_ofb_ok : forall prog pc r, place_ofb prog pc r = true -> place_of prog pc r.
Proof.
  intros prog pc r H. unfold place_ofb in H. apply existsb_exists in H. destruct H as [[a b] [Hin H]].
  apply andb_true_iff in H. destruct H as [He Hc]. cbn [fst] in He. apply row_eqb_eq in He. subst a.
  exists b. split; [assumption|]. unfold coversb in Hc. apply andb_true_iff in Hc. destruct Hc as [H1 H2].
  apply N.leb_le in H1. apply N.ltb_lt in H2. split; assumption.
Qed.

(* ------------------------------------------------------------------------------------------ *)
(* find_exact_place_by_pc                                                                     *)
(* ------------------------------------------------------------------------------------------ *)

(* the backward walk from a row at address pc: it ends at the first index f of the run of rows at
   address pc that contains p; if that run starts at index 0 the `p -= 1` underflows *)
Lemma exact_back_ok : forall ovf u pc, files_ok u ->
  forall p rp, nth_error (u_rows u) p = Some rp -> r_addr rp = pc ->
  exists f rf, (f <= p)%nat /\ nth_error (u_rows u) f = Some rf /\ r_addr rf = pc /\
    (forall j x, (f <= j <= p)%nat -> nth_error (u_rows u) j = Some x -> r_addr x = pc) /\
    (f = 0%nat \/ exists x, nth_error (u_rows u) (f - 1) = Some x /\ r_addr x <> pc) /\
    exact_back ovf u pc p (Some (p, rp)) =
      (if (Nat.eqb f 0 && ovf)%bool then Panic 3 else Ok (Some (f, rf))).
Proof.
  intros ovf u pc Hf. induction p as [|p IH]; intros rp Hp Hpc.
  - exists 0%nat, rp. split; [lia|]. split; [assumption|]. split; [assumption|]. split.
    + intros j x Hj Hx. assert (j = 0%nat) by lia. subst j. congruence.
    + split; [left; reflexivity|]. cbn [exact_back Nat.eqb andb]. destruct ovf; reflexivity.
  - cbn [exact_back]. destruct (nth_error (u_rows u) p) as [q|] eqn:Hq.
    2:{ exfalso. apply nth_error_None in Hq. assert (nth_error (u_rows u) (S p) <> None) by congruence.
        apply nth_error_Some in H. lia. }
    rewrite (find_place_by_idx_some u p q Hf Hq). cbn [bind snd].
    destruct (N.eqb_spec (r_addr q) pc) as [Heq|Hne].
    + destruct (IH q eq_refl Heq) as [f [rf [Hfp [Hrf [Hrfpc [Hrun [Hbefore Hres]]]]]]].
      exists f, rf. split; [lia|]. split; [assumption|]. split; [assumption|]. split.
      * intros j x Hj Hx. destruct (Nat.eq_dec j (S p)) as [->|Hn]; [congruence|].
        apply (Hrun j x); [lia|assumption].
      * split; assumption.
    + exists (S p), rp. split; [lia|]. split; [assumption|]. split; [assumption|]. split.
      * intros j x Hj Hx. assert (j = S p) by lia. subst j. congruence.
      * split.
        -- right. exists q. replace (S p - 1)%nat with p by lia. split; assumption.
        -- reflexivity.
Qed.

(* EXACT characterisation on a sorted vector: None iff no row has address pc; otherwise the FIRST
   row with address pc - except that with overflow checks (dev/test profile) the call panics when
   that first row is row 0 of the unit *)
Theorem find_exact_place_by_pc_exact : forall ovf u pc, sorted_rows (u_rows u) -> files_ok u ->
  ((forall x, In x (u_rows u) -> r_addr x <> pc) /\ find_exact_place_by_pc ovf u pc = Ok None) \/
  exists f rf, nth_error (u_rows u) f = Some rf /\ r_addr rf = pc /\
    (forall j x, (j < f)%nat -> nth_error (u_rows u) j = Some x -> r_addr x < pc) /\
    find_exact_place_by_pc ovf u pc = (if (Nat.eqb f 0 && ovf)%bool then Panic 3 else Ok (Some (f, rf))).
Proof.
  intros ovf u pc Hs Hf. unfold find_exact_place_by_pc.
  destruct (bsearch_ok _ pc Hs) as [r [Hr Hp]]. rewrite Hr. cbn [bind].
  destruct r as [p|p]; cbn [bs_post] in Hp.
  - right. destruct Hp as [Hp _]. apply nth_map_some in Hp. destruct Hp as [rp [Hrp Hpc]].
    rewrite (find_place_by_idx_some u p rp Hf Hrp). cbn [bind].
    destruct (exact_back_ok ovf u pc Hf p rp Hrp Hpc) as [f [rf [Hfp [Hrf [Hrfpc [Hrun [Hbefore Hres]]]]]]].
    exists f, rf. split; [assumption|]. split; [assumption|]. split; [|assumption].
    intros j x Hj Hx. destruct Hbefore as [H0|[y [Hy Hne]]]; [lia|].
    assert (r_addr x <= r_addr y) by (eapply (sorted_rows_le (u_rows u) j (f - 1)); eauto; lia).
    assert (r_addr y <= r_addr rf) by (eapply (sorted_rows_le (u_rows u) (f - 1) f); eauto; lia).
    lia.
  - left. destruct Hp as [_ [Hlt Hgt]]. split; [|reflexivity].
    intros x Hx. apply In_nth_error in Hx. destruct Hx as [j Hj].
    assert (Hk : nth_error (map r_addr (u_rows u)) j = Some (r_addr x)) by (rewrite nth_map, Hj; reflexivity).
    destruct (Nat.lt_ge_cases j p) as [Hjp|Hjp].
    + specialize (Hlt j _ Hjp Hk). lia.
    + specialize (Hgt j _ Hjp Hk). lia.
Qed.

(* the panic: asking for the exact place of the lowest address of a unit's line table *)
Theorem find_exact_place_by_pc_row0_panics : forall u r0 t,
  sorted_rows (u_rows u) -> files_ok u -> u_rows u = r0 :: t ->
  find_exact_place_by_pc true u (r_addr r0) = Panic 3 /\
  find_exact_place_by_pc false u (r_addr r0) = Ok (Some (0%nat, r0)).
Proof.
  intros u r0 t Hs Hf E.
  assert (H0 : nth_error (u_rows u) 0 = Some r0) by (rewrite E; reflexivity).
  split.
  - destruct (find_exact_place_by_pc_exact true u (r_addr r0) Hs Hf) as [[Hno _]|[f [rf [Hrf [Hpc [Hb Hres]]]]]].
    + exfalso. apply (Hno r0); [rewrite E; left; reflexivity|reflexivity].
    + destruct f as [|f]; [rewrite Hres; reflexivity|].
      specialize (Hb 0%nat r0 ltac:(lia) H0). lia.
  - destruct (find_exact_place_by_pc_exact false u (r_addr r0) Hs Hf) as [[Hno _]|[f [rf [Hrf [Hpc [Hb Hres]]]]]].
    + exfalso. apply (Hno r0); [rewrite E; left; reflexivity|reflexivity].
    + destruct f as [|f].
      * rewrite Hres. cbn. congruence.
      * specialize (Hb 0%nat r0 ltac:(lia) H0). lia.
Qed.

Theorem find_exact_refuted :
  exists u pc, sorted_rowsb (u_rows u) = true /\ files_okb u = true /\
               existsb (fun r => r_addr r =? pc) (u_rows u) = true /\
               find_exact_place_by_pc true u pc = Panic 3.
Proof. exists wit_unit, 16. vm_compute. repeat split; reflexivity. Qed.

(* ------------------------------------------------------------------------------------------ *)
(* pc -> unit                                                                                 *)
(* ------------------------------------------------------------------------------------------ *)

Definition ranges_nonempty (u : unit) : Prop := forall r, In r (u_ranges u) -> fst r < snd r.
Definition ranges_nonemptyb (u : unit) : bool := forallb (fun r => fst r <? snd r) (u_ranges u).
Lemma ranges_nonemptyb_ok : forall u, ranges_nonemptyb u = true -> ranges_nonempty u.
Proof. intros u H r Hr. unfold ranges_nonemptyb in H. rewrite forallb_forall in H. apply N.ltb_lt. auto. Qed.

Lemma in_firstn_nth : forall {A} (l : list A) n x, In x (firstn n l) ->
  exists j, (j < n)%nat /\ nth_error l j = Some x.
Proof.
  induction l as [|y l IH]; intros [|n] x H; cbn [firstn] in H; try destruct H.
  - subst. exists 0%nat. split; [lia|reflexivity].
  - destruct (IH n x H) as [j [Hj Hx]]. exists (S j). split; [lia|exact Hx].
Qed.

Lemma nth_in_firstn : forall {A} (l : list A) n j x, (j < n)%nat -> nth_error l j = Some x -> In x (firstn n l).
Proof.
  induction l as [|y l IH]; intros n j x Hj Hx; [destruct j; discriminate|].
  destruct n as [|n]; [lia|]. destruct j as [|j]; cbn [nth_error firstn] in *.
  - inversion Hx. left. reflexivity.
  - right. eapply IH; eauto. lia.
Qed.

(* FULL STATEMENT (false for a range with begin >= end whose begin is pc, see unit_has_pc_refuted):
   the unit claims pc iff one of its ranges contains pc.  PROVED for non-empty ranges. *)
Theorem unit_has_pc_partial : forall u pc,
  sorted_keys (map fst (u_ranges u)) -> ranges_nonempty u ->
  exists b, unit_has_pc u pc = Ok b /\ (b = true <-> unit_covers u pc).
Proof.
  intros u pc Hs Hne. unfold unit_has_pc. destruct (bsearch_ok _ pc Hs) as [r [Hr Hp]]. rewrite Hr. cbn [bind].
  destruct r as [i|p]; cbn [bs_post] in Hp.
  - exists true. split; [reflexivity|]. split; [|reflexivity]. intros _.
    destruct Hp as [Hi _]. apply nth_map_some in Hi. destruct Hi as [rg [Hrg Hb]].
    exists rg. split; [eapply nth_error_In; eauto|].
    assert (fst rg < snd rg) by (apply Hne; eapply nth_error_In; eauto).
    unfold in_range. apply andb_true_iff. split; [apply N.leb_le|apply N.ltb_lt]; lia.
  - destruct Hp as [Hlen [Hlt Hgt]]. rewrite map_length in Hlen.
    destruct (Nat.ltb_spec (length (u_ranges u)) p) as [Hbad|_]; [exfalso; lia|].
    eexists. split; [reflexivity|]. split.
    + intros H. apply existsb_exists in H. destruct H as [rg [Hin Hr']].
      exists rg. split; [|assumption]. apply in_firstn_nth in Hin. destruct Hin as [j [_ Hj]].
      eapply nth_error_In; eauto.
    + intros [rg [Hin Hr']]. apply existsb_exists. exists rg. split; [|assumption].
      apply In_nth_error in Hin. destruct Hin as [j Hj].
      destruct (Nat.lt_ge_cases j p) as [Hjp|Hjp]; [eapply nth_in_firstn; eauto|].
      exfalso. assert (pc < fst rg). { apply (Hgt j (fst rg) Hjp). rewrite nth_map, Hj. reflexivity. }
      unfold in_range in Hr'. apply andb_true_iff in Hr'. destruct Hr' as [H1 _]. apply N.leb_le in H1. lia.
Qed.

Theorem unit_has_pc_refuted :
  exists u pc, sorted_keysb (map fst (u_ranges u)) = true /\
               unit_has_pc u pc = Ok true /\ unit_coversb u pc = false.
Proof. exists (U [(16, 16)] 1 [] [] []), 16. vm_compute. repeat split; reflexivity. Qed.

Lemma unit_coversb_ok : forall u pc, unit_coversb u pc = true <-> unit_covers u pc.
Proof.
  intros u pc. unfold unit_coversb, unit_covers. rewrite existsb_exists. tauto.
Qed.

(* find_unit_by_pc returns the FIRST unit (registry order) one of whose ranges contains pc *)
Definition units_ok (units : list unit) : Prop :=
  forall u, In u units -> sorted_keys (map fst (u_ranges u)) /\ ranges_nonempty u.

Lemma find_unit_from_ok : forall units pc i0, units_ok units ->
  (find_unit_from i0 units pc = Ok None /\ forall u, In u units -> ~ unit_covers u pc) \/
  exists k u, find_unit_from i0 units pc = Ok (Some ((i0 + k)%nat, u)) /\ nth_error units k = Some u /\
              unit_covers u pc /\ forall j v, (j < k)%nat -> nth_error units j = Some v -> ~ unit_covers v pc.
Proof.
  induction units as [|u t IH]; intros pc i0 Hok.
  - left. split; [reflexivity|]. intros u [].
  - cbn [find_unit_from].
    destruct (Hok u (or_introl eq_refl)) as [Hs Hne].
    destruct (unit_has_pc_partial u pc Hs Hne) as [b [Hb Hiff]]. rewrite Hb. cbn [bind].
    destruct b.
    + right. exists 0%nat, u. rewrite Nat.add_0_r. split; [reflexivity|]. split; [reflexivity|].
      split; [apply Hiff; reflexivity|]. intros j v Hj. lia.
    + assert (Hnc : ~ unit_covers u pc) by (intros H; apply Hiff in H; discriminate).
      destruct (IH pc (S i0)) as [[Hn Hall]|[k [v [Hk [Hv [Hc Hfirst]]]]]].
      { intros w Hw. apply Hok. right. exact Hw. }
      * left. split; [assumption|]. intros w [<-|Hw]; [assumption|auto].
      * right. exists (S k), v. replace (i0 + S k)%nat with (S i0 + k)%nat by lia.
        split; [assumption|]. split; [assumption|]. split; [assumption|].
        intros j w Hj Hw. destruct j as [|j]; cbn [nth_error] in Hw.
        -- inversion Hw; subst. assumption.
        -- apply (Hfirst j w); [lia|assumption].
Qed.

Theorem find_unit_by_pc_partial : forall units pc, units_ok units ->
  (find_unit_by_pc units pc = Ok None /\ forall u, In u units -> ~ unit_covers u pc) \/
  exists k u, find_unit_by_pc units pc = Ok (Some (k, u)) /\ nth_error units k = Some u /\
              unit_covers u pc /\ forall j v, (j < k)%nat -> nth_error units j = Some v -> ~ unit_covers v pc.
Proof. intros units pc Hok. exact (find_unit_from_ok units pc 0%nat Hok). Qed.

(* ------------------------------------------------------------------------------------------ *)
(* pc -> function                                                                             *)
(* ------------------------------------------------------------------------------------------ *)

Lemma first_some_rev_some : forall {A B} (f : A -> option B) l y,
  first_some f (rev l) = Some y ->
  exists l1 x l2, l = l1 ++ x :: l2 /\ f x = Some y /\ forall z, In z l2 -> f z = None.
Proof.
  intros A B f l. induction l as [|a l IH] using rev_ind; intros y H; [discriminate|].
  rewrite rev_unit in H. cbn [first_some] in H. destruct (f a) as [b|] eqn:Ha.
  - inversion H; subst. exists l, a, []. split; [reflexivity|]. split; [assumption|]. intros z [].
  - destruct (IH y H) as [l1 [x [l2 [E [Hx Hl2]]]]]. exists l1, x, (l2 ++ [a]).
    split; [rewrite E, <- app_assoc; reflexivity|]. split; [assumption|].
    intros z Hz. apply in_app_or in Hz. destruct Hz as [Hz|[<-|[]]]; auto.
Qed.

Lemma first_some_none : forall {A B} (f : A -> option B) l,
  first_some f l = None -> forall x, In x l -> f x = None.
Proof.
  induction l as [|a l IH]; intros H x []; cbn [first_some] in H; destruct (f a) eqn:Ha; try discriminate.
  - subst. assumption.
  - auto.
Qed.

Lemma skip_eq_bounds : forall l pc i, (i <= skip_eq l pc i <= i + length l)%nat.
Proof.
  induction l as [|d l IH]; intros pc i; cbn [skip_eq length]; [lia|].
  destruct (dr_begin d =? pc); [|lia]. specialize (IH pc (S i)). lia.
Qed.

(* position up to which the backward scan looks: every die range from there on begins after pc *)
Lemma fn_find_pos_ok : forall drs pc, sorted_keys (map dr_begin drs) ->
  exists fp, fn_find_pos drs pc = Ok fp /\ (fp <= length drs)%nat /\
    forall j d, (fp <= j)%nat -> nth_error drs j = Some d -> pc < dr_begin d.
Proof.
  intros drs pc Hs. unfold fn_find_pos. destruct (bsearch_ok _ pc Hs) as [r [Hr Hp]]. rewrite Hr. cbn [bind].
  destruct r as [i|p]; cbn [bs_post] in Hp.
  - destruct Hp as [Hi Hafter]. eexists. split; [reflexivity|].
    pose proof (skip_eq_bounds (skipn (S i) drs) pc (S i)) as Hb. rewrite skipn_length in Hb.
    assert (i < length drs)%nat.
    { assert (nth_error (map dr_begin drs) i <> None) by congruence. apply nth_error_Some in H.
      rewrite map_length in H. exact H. }
    split; [lia|]. intros j d Hj Hd. apply (Hafter j (dr_begin d)); [lia|]. rewrite nth_map, Hd. reflexivity.
  - destruct Hp as [Hlen [_ Hgt]]. rewrite map_length in Hlen. exists p. split; [reflexivity|]. split; [assumption|].
    intros j d Hj Hd. apply (Hgt j (dr_begin d) Hj). rewrite nth_map, Hd. reflexivity.
Qed.

Lemma fn_find_pos_total : forall drs pc, exists fp, fn_find_pos drs pc = Ok fp /\ (fp <= length drs)%nat.
Proof.
  intros drs pc. unfold fn_find_pos. destruct (bsearch_total (map dr_begin drs) pc) as [r [Hr Hb]].
  rewrite Hr. cbn [bind]. rewrite map_length in Hb. destruct r as [i|p].
  - eexists. split; [reflexivity|].
    pose proof (skip_eq_bounds (skipn (S i) drs) pc (S i)) as H. rewrite skipn_length in H. lia.
  - exists p. split; [reflexivity|assumption].
Qed.

Definition fn_hit_ok (u : unit) (pc : N) (d : die_range) (info : fn_info) : Prop :=
  In d (u_die_ranges u) /\ dr_contains pc d /\ fn_lookup u (dr_off d) = Some info.

Lemma fn_hit_some : forall u pc d x info, fn_hit u pc d = Some (x, info) ->
  x = d /\ dr_contains pc d /\ fn_lookup u (dr_off d) = Some info.
Proof.
  intros u pc d x info H. unfold fn_hit in H. destruct (fn_lookup u (dr_off d)) as [i|]; [|discriminate].
  destruct ((dr_begin d <=? pc) && (pc <? dr_end d)) eqn:E; [|discriminate]. inversion H; subst.
  apply andb_true_iff in E. destruct E as [E1 E2]. apply N.leb_le in E1. apply N.ltb_lt in E2.
  repeat split; assumption.
Qed.

Lemma fn_hit_complete : forall u pc d info, dr_contains pc d -> fn_lookup u (dr_off d) = Some info ->
  fn_hit u pc d = Some (d, info).
Proof.
  intros u pc d info [H1 H2] Hl. unfold fn_hit. rewrite Hl.
  apply N.leb_le in H1. apply N.ltb_lt in H2. rewrite H1, H2. reflexivity.
Qed.

(* soundness needs no sortedness: any answer is a function of the unit one of whose ranges contains pc *)
Theorem find_function_in_unit_sound : forall u pc d info,
  find_function_in_unit u pc = Ok (Some (d, info)) -> fn_hit_ok u pc d info.
Proof.
  intros u pc d info H. unfold find_function_in_unit in H.
  destruct (fn_find_pos_total (u_die_ranges u) pc) as [fp [Hfp Hle]]. rewrite Hfp in H. cbn [bind] in H.
  destruct (Nat.ltb_spec (length (u_die_ranges u)) fp); [exfalso; lia|]. inversion H as [H'].
  apply first_some_rev_some in H'. destruct H' as [l1 [x [l2 [E [Hx _]]]]].
  apply fn_hit_some in Hx. destruct Hx as [-> [Hc Hl]]. split; [|split; assumption].
  assert (In x (firstn fp (u_die_ranges u))) by (rewrite E; apply in_or_app; right; left; reflexivity).
  apply in_firstn_nth in H1. destruct H1 as [j [_ Hj]]. eapply nth_error_In; eauto.
Qed.

(* FULL THEOREM for one unit (die ranges sorted by begin, which the parser guarantees): the answer
   is None iff no function of the unit has a range containing pc; otherwise it is such a function,
   and among all candidates the one whose range begins last (innermost when ranges nest; among
   equal begins the one the unstable sort placed last). *)
Theorem find_function_in_unit_correct : forall u pc, sorted_keys (map dr_begin (u_die_ranges u)) ->
  (find_function_in_unit u pc = Ok None /\ forall d info, ~ fn_hit_ok u pc d info) \/
  exists d info, find_function_in_unit u pc = Ok (Some (d, info)) /\ fn_hit_ok u pc d info /\
                 forall d' info', fn_hit_ok u pc d' info' -> dr_begin d' <= dr_begin d.
Proof.
  intros u pc Hs. unfold find_function_in_unit.
  destruct (fn_find_pos_ok (u_die_ranges u) pc Hs) as [fp [Hfp [Hle Hgt]]]. rewrite Hfp. cbn [bind].
  destruct (Nat.ltb_spec (length (u_die_ranges u)) fp); [exfalso; lia|].
  assert (Hin : forall d info, fn_hit_ok u pc d info -> In d (firstn fp (u_die_ranges u))).
  { intros d info [Hd [[Hc _] _]]. apply In_nth_error in Hd. destruct Hd as [j Hj].
    destruct (Nat.lt_ge_cases j fp) as [Hjp|Hjp]; [eapply nth_in_firstn; eauto|].
    specialize (Hgt j d Hjp Hj). lia. }
  destruct (first_some (fn_hit u pc) (rev (firstn fp (u_die_ranges u)))) as [[d info]|] eqn:E.
  - right. exists d, info. split; [reflexivity|].
    apply first_some_rev_some in E. destruct E as [l1 [x [l2 [El [Hx Hl2]]]]].
    apply fn_hit_some in Hx. destruct Hx as [-> [Hc Hl]].
    assert (Hxin : In x (u_die_ranges u)).
    { assert (In x (firstn fp (u_die_ranges u))) by (rewrite El; apply in_or_app; right; left; reflexivity).
      apply in_firstn_nth in H0. destruct H0 as [j [_ Hj]]. eapply nth_error_In; eauto. }
    split; [split; [assumption|split; assumption]|].
    intros d' info' Hh. pose proof (Hin d' info' Hh) as Hd'. rewrite El in Hd'.
    apply in_app_or in Hd'. destruct Hd' as [Hd'|[<-|Hd']]; [|lia|].
    + (* d' is before x in the sorted vector *)
      apply In_nth_error in Hd'. destruct Hd' as [j Hj].
      assert (Hjl : (j < length l1)%nat) by (apply nth_error_Some; congruence).
      assert (Hfj : nth_error (firstn fp (u_die_ranges u)) j = Some d').
      { rewrite El. rewrite nth_error_app1 by assumption. exact Hj. }
      assert (Hfx : nth_error (firstn fp (u_die_ranges u)) (length l1) = Some x).
      { rewrite El. rewrite nth_error_app2 by lia. rewrite Nat.sub_diag. reflexivity. }
      assert (Hfirstn : forall k y, nth_error (firstn fp (u_die_ranges u)) k = Some y ->
                                   nth_error (u_die_ranges u) k = Some y).
      { intros k y Hk. assert (In y (firstn fp (u_die_ranges u))) by (eapply nth_error_In; eauto).
        clear - Hk. revert fp k Hk. induction (u_die_ranges u) as [|a l IH]; intros [|fp] [|k] Hk;
          cbn [firstn nth_error] in *; try discriminate; auto. eapply IH; eauto. }
      apply Hfirstn in Hfj. apply Hfirstn in Hfx.
      eapply (Hs j (length l1)); [lia| |]; rewrite nth_map.
      * rewrite Hfj. reflexivity.
      * rewrite Hfx. reflexivity.
    + (* d' after x would have been found first *)
      destruct Hh as [_ [Hc' Hl']]. pose proof (Hl2 d' Hd') as Hnone.
      rewrite (fn_hit_complete u pc d' info' Hc' Hl') in Hnone. discriminate.
  - left. split; [reflexivity|]. intros d info Hh.
    pose proof (Hin d info Hh) as Hd. apply in_rev in Hd.
    pose proof (first_some_none _ _ E d Hd) as Hn.
    destruct Hh as [_ [Hc Hl]]. rewrite (fn_hit_complete u pc d info Hc Hl) in Hn. discriminate.
Qed.

(* in terms of the specification [function_of] *)
Corollary find_function_in_unit_iff : forall u pc,
  sorted_keys (map dr_begin (u_die_ranges u)) ->
  (forall d, In d (u_die_ranges u) -> fn_lookup u (dr_off d) <> None) ->
  exists r, find_function_in_unit u pc = Ok r /\
    (forall d info, r = Some (d, info) -> function_of (u_die_ranges u) pc (dr_off d)) /\
    (r = None <-> forall off, ~ function_of (u_die_ranges u) pc off).
Proof.
  intros u pc Hs Hall. destruct (find_function_in_unit_correct u pc Hs) as [[Hn Hno]|[d [info [Hr [Hh _]]]]].
  - exists None. split; [assumption|]. split; [discriminate|]. split; [|reflexivity].
    intros _ off [d [Hd [Ho Hc]]]. destruct (fn_lookup u (dr_off d)) as [info|] eqn:El.
    + apply (Hno d info). split; [assumption|split; assumption].
    + apply (Hall d Hd El).
  - exists (Some (d, info)). split; [assumption|]. split.
    + intros d0 i0 E. inversion E; subst. destruct Hh as [Hd [Hc _]]. exists d0. auto.
    + split; [discriminate|]. intros Hno. exfalso. destruct Hh as [Hd [Hc _]].
      apply (Hno (dr_off d)). exists d. auto.
Qed.

Lemma bind_ok_inv : forall {A B} (r : res A) (k : A -> res B) y,
  bind r k = Ok y -> exists a, r = Ok a /\ k a = Ok y.
Proof. intros A B [a|c|s|] k y H; cbn [bind] in H; try discriminate. eauto. Qed.

Ltac inv_bind H :=
  apply bind_ok_inv in H; let a := fresh "a" in let E := fresh "E" in destruct H as [a [E H]].

Lemma find_unit_from_nth : forall units pc i0 i u,
  find_unit_from i0 units pc = Ok (Some (i, u)) -> exists k, i = (i0 + k)%nat /\ nth_error units k = Some u.
Proof.
  induction units as [|v t IH]; intros pc i0 i u H; cbn [find_unit_from] in H; [discriminate|].
  inv_bind H. destruct a.
  - inversion H; subst. exists 0%nat. split; [lia|reflexivity].
  - destruct (IH pc (S i0) i u H) as [k [Hk Hn]]. exists (S k). split; [lia|exact Hn].
Qed.

(* global look-up: whatever is answered is a function of the answered unit containing pc *)
Theorem find_function_by_pc_sound : forall units pc ui d info,
  find_function_by_pc units pc = Ok (Some (ui, d, info)) ->
  exists u, nth_error units ui = Some u /\ fn_hit_ok u pc d info.
Proof.
  intros units pc ui d info H. unfold find_function_by_pc in H. inv_bind H.
  destruct a as [[vi v]|]; [|discriminate]. inv_bind H. destruct a as [[d' info']|]; [|discriminate].
  inversion H; subst. apply find_unit_from_nth in E. destruct E as [k [-> Hk]]. cbn [Nat.add].
  exists v. split; [assumption|]. apply find_function_in_unit_sound. assumption.
Qed.

(* FULL STATEMENT: "Some iff some unit has a function containing pc" - false when the first unit
   claiming pc is not the unit holding the function (overlapping / inconsistent unit ranges).
   PROVED when the function's unit is the first unit whose ranges contain pc. *)
Theorem find_function_by_pc_partial : forall units pc k u d info,
  units_ok units -> (forall v, In v units -> sorted_keys (map dr_begin (u_die_ranges v))) ->
  nth_error units k = Some u -> fn_hit_ok u pc d info -> unit_covers u pc ->
  (forall j v, (j < k)%nat -> nth_error units j = Some v -> ~ unit_covers v pc) ->
  exists d' info', find_function_by_pc units pc = Ok (Some (k, d', info')) /\ fn_hit_ok u pc d' info' /\
                   dr_begin d <= dr_begin d'.
Proof.
  intros units pc k u d info Hok Hsd Hk Hh Hc Hfirst. unfold find_function_by_pc.
  destruct (find_unit_by_pc_partial units pc Hok) as [[_ Hno]|[k' [u' [Hr [Hk' [Hc' Hfirst']]]]]].
  - exfalso. apply (Hno u); [eapply nth_error_In; eauto|assumption].
  - assert (k' = k).
    { destruct (Nat.lt_trichotomy k' k) as [Hlt|[Heq|Hgt]]; [|assumption|].
      - exfalso. apply (Hfirst k' u' Hlt Hk' Hc').
      - exfalso. apply (Hfirst' k u Hgt Hk Hc). }
    subst k'. assert (u' = u) by congruence. subst u'. rewrite Hr. cbn [bind].
    destruct (find_function_in_unit_correct u pc (Hsd u (nth_error_In _ _ Hk))) as [[_ Hno]|[d' [info' [Hf [Hh' Hmax]]]]].
    + exfalso. apply (Hno d info Hh).
    + rewrite Hf. cbn [bind]. exists d', info'. split; [reflexivity|]. split; [assumption|]. eapply Hmax; eauto.
Qed.

(* ------------------------------------------------------------------------------------------ *)
(* function -> breakpoint address (prolog_end_place)                                          *)
(* ------------------------------------------------------------------------------------------ *)

Lemma prolog_walk_ok : forall u, files_ok u -> forall fuel i r,
  nth_error (u_rows u) i = Some r -> (length (u_rows u) - i <= fuel)%nat ->
  exists j rj, prolog_walk u fuel (i, r) = Ok (j, rj) /\ (i <= j)%nat /\ nth_error (u_rows u) j = Some rj /\
    (forall k x, (i <= k < j)%nat -> nth_error (u_rows u) k = Some x -> r_pe x = false) /\
    (r_pe rj = true \/ (r_pe rj = false /\ S j = length (u_rows u))).
Proof.
  intros u Hf. induction fuel as [|fuel IH]; intros i r Hi Hfuel.
  - assert (i < length (u_rows u))%nat by (apply nth_error_Some; congruence). lia.
  - assert (Hil : (i < length (u_rows u))%nat) by (apply nth_error_Some; congruence).
    cbn [prolog_walk fst snd]. destruct (r_pe r) eqn:Hpe.
    + exists i, r. split; [reflexivity|]. split; [lia|]. split; [assumption|]. split; [intros; lia|]. left. assumption.
    + destruct (nth_error (u_rows u) (S i)) as [q|] eqn:Hq.
      * rewrite (find_place_by_idx_some u (S i) q Hf Hq). cbn [bind].
        destruct (IH (S i) q Hq) as [j [rj [Hw [Hij [Hj [Hno Hend]]]]]]; [lia|].
        exists j, rj. split; [assumption|]. split; [lia|]. split; [assumption|]. split; [|assumption].
        intros k x Hk Hx. destruct (Nat.eq_dec k i) as [->|Hn]; [congruence|]. apply (Hno k x); [lia|assumption].
      * rewrite (find_place_by_idx_none u (S i) Hq). cbn [bind].
        exists i, r. split; [reflexivity|]. split; [lia|]. split; [assumption|]. split; [intros; lia|].
        right. split; [assumption|]. apply nth_error_None in Hq. lia.
Qed.

Lemma find_place_by_pc_nth : forall u pc i r, find_place_by_pc u pc = Ok (Some (i, r)) ->
  nth_error (u_rows u) i = Some r.
Proof.
  intros u pc i r H. unfold find_place_by_pc in H. inv_bind H. unfold find_place_by_idx in H.
  destruct (nth_error (u_rows u) a) as [x|] eqn:Hx; [|discriminate]. unfold mk_place in H.
  destruct (r_file x <? u_nfiles u); cbn [bind] in H; [|discriminate]. inversion H; subst. assumption.
Qed.

Lemma prolog_start_place_nth : forall units f ui i r, prolog_start_place units f = Ok (ui, (i, r)) ->
  exists u, nth_error units ui = Some u /\ nth_error (u_rows u) i = Some r.
Proof.
  intros units f ui i r H. unfold prolog_start_place in H. inv_bind H. inv_bind H.
  destruct a0 as [q|]; [|discriminate]. inversion H; subst. clear H.
  unfold find_place_from_pc in E0. inv_bind E0. destruct a0 as [[vi v]|]; [|discriminate]. inv_bind E0.
  destruct a0 as [[j x]|]; cbn [option_map] in E0; [|discriminate]. inversion E0; subst.
  apply find_unit_from_nth in E1. destruct E1 as [k [-> Hk]]. cbn [Nat.add].
  exists v. split; [assumption|]. eapply find_place_by_pc_nth; eauto.
Qed.

(* EXACT characterisation of prolog_end_place: from the row found for the function's lowest
   address it returns the first prologue_end row at or after it IN THE WHOLE UNIT, and the last row
   of the unit's line table when there is none.  Never OutOfFuel. *)
Theorem prolog_end_place_exact : forall units f ui i r,
  (forall u, In u units -> files_ok u) ->
  prolog_start_place units f = Ok (ui, (i, r)) ->
  exists u j rj, nth_error units ui = Some u /\ nth_error (u_rows u) i = Some r /\
    prolog_end_place units f = Ok (ui, (j, rj)) /\ (i <= j)%nat /\ nth_error (u_rows u) j = Some rj /\
    (forall k x, (i <= k < j)%nat -> nth_error (u_rows u) k = Some x -> r_pe x = false) /\
    (r_pe rj = true \/ (r_pe rj = false /\ S j = length (u_rows u))).
Proof.
  intros units f ui i r Hf Hs. destruct (prolog_start_place_nth units f ui i r Hs) as [u [Hu Hi]].
  destruct (prolog_walk_ok u (Hf u (nth_error_In _ _ Hu)) (length (u_rows u)) i r Hi) as [j [rj [Hw Hrest]]]; [lia|].
  exists u, j, rj. split; [assumption|]. split; [assumption|]. split; [|exact Hrest].
  unfold prolog_end_place. rewrite Hs. cbn [bind fst snd]. rewrite Hu, Hw. reflexivity.
Qed.

Lemma find_skipn_first : forall {A} (p : A -> bool) l i j x,
  (i <= j)%nat -> nth_error l j = Some x -> p x = true ->
  (forall k y, (i <= k < j)%nat -> nth_error l k = Some y -> p y = false) ->
  find p (skipn i l) = Some x.
Proof.
  intros A p. induction l as [|a l IH]; intros i j x Hij Hj Hp Hno; [destruct j; discriminate|].
  destruct i as [|i].
  - cbn [skipn find]. destruct j as [|j].
    + cbn [nth_error] in Hj. inversion Hj; subst. rewrite Hp. reflexivity.
    + rewrite (Hno 0%nat a) by (try lia; reflexivity).
      change (find p l) with (find p (skipn 0 l)). apply (IH 0%nat j x); [lia|exact Hj|exact Hp|].
      intros k y Hk Hy. apply (Hno (S k) y); [lia|exact Hy].
  - destruct j as [|j]; [lia|]. cbn [skipn]. apply (IH i j x); [lia|exact Hj|exact Hp|].
    intros k y Hk Hy. apply (Hno (S k) y); [lia|exact Hy].
Qed.

Lemma find_skipn_none : forall {A} (p : A -> bool) l i,
  (forall k y, (i <= k)%nat -> nth_error l k = Some y -> p y = false) -> find p (skipn i l) = None.
Proof.
  intros A p l i H. destruct (find p (skipn i l)) as [x|] eqn:E; [|reflexivity].
  apply find_some in E. destruct E as [Hin Hp]. apply In_nth_error in Hin. destruct Hin as [k Hk].
  assert (Hk' : nth_error l (i + k) = Some x).
  { clear - Hk. revert i k Hk. induction l as [|a l IH]; intros [|i] k Hk; cbn [skipn] in Hk.
    - destruct k; discriminate.
    - destruct k; discriminate.
    - exact Hk.
    - cbn [Nat.add nth_error]. apply IH. exact Hk. }
  rewrite (H (i + k)%nat x) in Hp; [discriminate|lia|assumption].
Qed.

(* hypothesis of the partial theorem, decidable: the first prologue_end row at or after the start
   row exists, is not an end_sequence row and lies inside the function *)
Definition pe_in_fnb (u : unit) (f : fn_info) (i : nat) : bool :=
  match find r_pe (skipn i (u_rows u)) with
  | Some x => addr_in_fn f (r_addr x) && negb (r_es x)
  | None => false
  end.

(* FULL STATEMENT (false, see the two fn_bp_refuted theorems): the place returned for `break f` satisfies [fn_bp_ok].
   PROVED when the first prologue_end row at/after the function's first row belongs to it. *)
Theorem fn_bp_partial : forall units f ui i r u,
  (forall v, In v units -> files_ok v) ->
  prolog_start_place units f = Ok (ui, (i, r)) -> nth_error units ui = Some u ->
  pe_in_fnb u f i = true ->
  exists j rj, prolog_end_place units f = Ok (ui, (j, rj)) /\ nth_error (u_rows u) j = Some rj /\
    r_pe rj = true /\ r_es rj = false /\ addr_in_fn f (r_addr rj) = true.
Proof.
  intros units f ui i r u Hf Hs Hu Hb.
  destruct (prolog_end_place_exact units f ui i r Hf Hs) as [u' [j [rj [Hu' [Hi [Hp [Hij [Hj [Hno Hend]]]]]]]]].
  assert (u' = u) by congruence. subst u'. exists j, rj. split; [assumption|]. split; [assumption|].
  unfold pe_in_fnb in Hb. destruct Hend as [Hpe|[Hpe Hlast]].
  - rewrite (find_skipn_first r_pe (u_rows u) i j rj Hij Hj Hpe Hno) in Hb.
    apply andb_true_iff in Hb. destruct Hb as [H1 H2]. apply negb_true_iff in H2. auto.
  - rewrite find_skipn_none in Hb; [discriminate|].
    intros k y Hk Hy. destruct (Nat.lt_ge_cases k j) as [Hlt|Hge]; [apply (Hno k y); [lia|assumption]|].
    assert (k < length (u_rows u))%nat by (apply nth_error_Some; congruence).
    assert (k = j) by lia. subst k. congruence.
Qed.

(* REFUTATION 1: a line table without prologue_end flags (C compiled by gcc, assembly).  Two
   functions f = [0x10,0x20), g = [0x20,0x30).  `break f` resolves to the LAST row of the unit's table:
   the end_sequence row at 0x30, one past the end of g. *)
Definition gcc_unit : unit :=
  U [(16, 48)] 2
    [R 16 1 3 0 true false false false; R 20 1 4 0 true false false false;
     R 32 1 8 0 true false false false; R 36 1 9 0 true false false false; R 48 1 9 0 true false false true]
    [(16, 32, 100); (32, 48, 200)]
    [F 100 (Some [102]) [(16, 32)]; F 200 (Some [103]) [(32, 48)]].

Theorem fn_bp_refuted_no_prologue_end :
  exists u f, sorted_rowsb (u_rows u) = true /\ files_okb u = true /\ fn_lookup u (f_off f) = Some f /\
    exists j rj, prolog_end_place [u] f = Ok (0%nat, (j, rj)) /\
                 r_addr rj = 48 /\ r_es rj = true /\ addr_in_fn f (r_addr rj) = false /\ fn_bp_ok u f rj = false.
Proof.
  exists gcc_unit, (F 100 (Some [102]) [(16, 32)]). repeat split; try (vm_compute; reflexivity).
  exists 4%nat, (R 48 1 9 0 true false false true). vm_compute. repeat split; reflexivity.
Qed.

(* REFUTATION 2: f has no prologue_end row but a later function has one: `break f` resolves to the
   prologue end of the OTHER function (wit_unit: f = "a" = [0x10,0x20) gets 0x24, inside "b") *)
Theorem fn_bp_refuted_next_function :
  exists u f g, sorted_rowsb (u_rows u) = true /\ files_okb u = true /\
    fn_lookup u (f_off f) = Some f /\ fn_lookup u (f_off g) = Some g /\ f_off f <> f_off g /\
    exists j rj, prolog_end_place [u] f = Ok (0%nat, (j, rj)) /\
                 addr_in_fn f (r_addr rj) = false /\ addr_in_fn g (r_addr rj) = true.
Proof.
  exists wit_unit, (F 100 (Some [97]) [(16, 32)]), (F 200 (Some [98]) [(32, 48)]).
  repeat split; try (vm_compute; reflexivity); try (vm_compute; discriminate).
  exists 3%nat, (R 36 1 8 5 true true false false). vm_compute. repeat split; reflexivity.
Qed.

Example fn_bp_partial_example :
  prolog_start_place [wit_unit] (F 200 (Some [98]) [(32, 48)]) = Ok (0%nat, (2%nat, R 32 1 4 0 true false false true)) /\
  pe_in_fnb wit_unit (F 200 (Some [98]) [(32, 48)]) 2 = true /\
  prolog_end_place [wit_unit] (F 200 (Some [98]) [(32, 48)]) = Ok (0%nat, (3%nat, R 36 1 8 5 true true false false)).
Proof. vm_compute. repeat split; reflexivity. Qed.

(* ------------------------------------------------------------------------------------------ *)
(* file:line -> places (find_closest_place)                                                   *)
(* ------------------------------------------------------------------------------------------ *)

Lemma file_lines_from_in : forall rows f i0 i,
  In i (file_lines_from i0 rows f) <->
  exists k r, i = (i0 + k)%nat /\ nth_error rows k = Some r /\ r_file r = f.
Proof.
  induction rows as [|x t IH]; intros f i0 i; cbn [file_lines_from].
  - split; [intros []|]. intros [k [r [_ [H _]]]]. destruct k; discriminate.
  - destruct (N.eqb_spec (r_file x) f) as [He|Hne].
    + split.
      * intros [<-|H].
        -- exists 0%nat, x. split; [lia|]. split; [reflexivity|assumption].
        -- apply IH in H. destruct H as [k [r [-> [Hk Hf]]]]. exists (S k), r. split; [lia|]. split; assumption.
      * intros [k [r [-> [Hk Hf]]]]. destruct k as [|k].
        -- left. lia.
        -- right. apply IH. exists k, r. split; [lia|]. split; assumption.
    + rewrite IH. split.
      * intros [k [r [-> [Hk Hf]]]]. exists (S k), r. split; [lia|]. split; assumption.
      * intros [k [r [-> [Hk Hf]]]]. destruct k as [|k].
        -- cbn [nth_error] in Hk. inversion Hk; subst. contradiction.
        -- exists k, r. split; [lia|]. split; assumption.
Qed.

Lemma file_lines_in : forall u f i,
  In i (file_lines u f) <-> exists r, nth_error (u_rows u) i = Some r /\ r_file r = f.
Proof.
  intros u f i. unfold file_lines. rewrite file_lines_from_in. split.
  - intros [k [r [-> H]]]. exists r. exact H.
  - intros [r H]. exists i, r. split; [reflexivity|exact H].
Qed.

Lemma line_at_ok : forall u i r, line_at u i = Ok r -> nth_error (u_rows u) i = Some r.
Proof. intros u i r H. unfold line_at in H. destruct (nth_error (u_rows u) i); inversion H; reflexivity. Qed.

Lemma mk_place_ok : forall u i r p, mk_place u i r = Ok p -> p = (i, r).
Proof. intros u i r p H. unfold mk_place in H. destruct (r_file r <? u_nfiles u); inversion H; reflexivity. Qed.

Lemma lookahead_sound : forall u line rest a ra rest',
  lookahead u line rest = Ok (Some (a, ra, rest')) ->
  In a rest /\ nth_error (u_rows u) a = Some ra /\ r_line ra = line /\ r_stmt ra = true /\ r_pe ra = true /\
  (forall x, In x rest' -> In x rest).
Proof.
  intros u line. induction rest as [|b t IH]; intros a ra rest' H; cbn [lookahead] in H; [discriminate|].
  inv_bind H. apply line_at_ok in E.
  destruct (negb (r_line a0 =? line) || negb (r_stmt a0)) eqn:Hc; [discriminate|].
  apply orb_false_iff in Hc. destruct Hc as [Hl Hst]. apply negb_false_iff in Hl, Hst. apply N.eqb_eq in Hl.
  destruct (r_pe a0) eqn:Hpe.
  - inversion H; subst. split; [left; reflexivity|]. repeat split; auto. intros x Hx. right. exact Hx.
  - destruct (IH a ra rest' H) as [H1 [H2 [H3 [H4 [H5 H6]]]]].
    split; [right; assumption|]. repeat split; auto. intros x Hx. right. auto.
Qed.

Lemma same_shape_ok : forall p0 r, same_shape p0 r = true -> r_line r = r_line p0 /\ r_stmt r = true.
Proof.
  intros p0 r H. unfold same_shape in H. repeat (apply andb_true_iff in H; destruct H as [H ?]).
  apply N.eqb_eq in H. auto.
Qed.

Lemma scan_rest_sound : forall u p0 fl ps, scan_rest u p0 fl = Ok ps ->
  forall i r, In (i, r) ps ->
    In i fl /\ nth_error (u_rows u) i = Some r /\ r_line r = r_line p0 /\ r_stmt r = true.
Proof.
  intros u p0. induction fl as [|a t IH]; intros ps H i r Hin; cbn [scan_rest] in H.
  - inversion H; subst. destruct Hin.
  - inv_bind H. apply line_at_ok in E. destruct (same_shape p0 a0) eqn:Hsh.
    + inv_bind H. inv_bind H. inversion H; subst. apply mk_place_ok in E0. subst a1.
      destruct Hin as [Hin|Hin].
      * inversion Hin; subst. apply same_shape_ok in Hsh. destruct Hsh. split; [left; reflexivity|]. auto.
      * destruct (IH _ E1 i r Hin) as [H1 H2]. split; [right; assumption|assumption].
    + destruct (IH _ H i r Hin) as [H1 H2]. split; [right; assumption|assumption].
Qed.

(* every place found in a unit is an is_stmt row of the wanted line, taken from the file's rows *)
Lemma scan_first_sound : forall u needle fl ps, scan_first u needle fl = Ok ps ->
  forall i r, In (i, r) ps ->
    In i fl /\ nth_error (u_rows u) i = Some r /\ r_line r = needle /\ r_stmt r = true.
Proof.
  intros u needle. induction fl as [|a t IH]; intros ps H i r Hin; cbn [scan_first] in H.
  - inversion H; subst. destruct Hin.
  - inv_bind H. apply line_at_ok in E.
    destruct (negb (r_line a0 =? needle) || negb (r_stmt a0)) eqn:Hc.
    + destruct (IH _ H i r Hin) as [H1 H2]. split; [right; assumption|assumption].
    + apply orb_false_iff in Hc. destruct Hc as [Hl Hst]. apply negb_false_iff in Hl, Hst. apply N.eqb_eq in Hl.
      inv_bind H. destruct a1 as [[[b rb] rest']|].
      * apply lookahead_sound in E0. destruct E0 as [Hb1 [Hb2 [Hb3 [Hb4 [_ Hb6]]]]].
        inv_bind H. inv_bind H. inversion H; subst. apply mk_place_ok in E0. subst a1.
        destruct Hin as [Hin|Hin].
        -- inversion Hin; subst. split; [right; assumption|]. auto.
        -- destruct (scan_rest_sound _ _ _ _ E1 i r Hin) as [H1 [H2 [H3 H4]]].
           split; [right; auto|]. split; [assumption|]. split; [congruence|assumption].
      * inv_bind H. inv_bind H. inversion H; subst. apply mk_place_ok in E1. subst a1.
        destruct Hin as [Hin|Hin].
        -- inversion Hin; subst. split; [left; reflexivity|]. auto.
        -- destruct (scan_rest_sound _ _ _ _ E2 i r Hin) as [H1 [H2 [H3 H4]]].
           split; [right; auto|]. split; [assumption|]. split; [congruence|assumption].
Qed.

(* ... and an empty result means the file has no is_stmt row of that line in the unit *)
Lemma scan_first_empty : forall u needle fl, scan_first u needle fl = Ok [] ->
  forall i r, In i fl -> nth_error (u_rows u) i = Some r -> ~ (r_line r = needle /\ r_stmt r = true).
Proof.
  intros u needle. induction fl as [|a t IH]; intros H i r Hin Hr [Hl Hst]; [destruct Hin|].
  cbn [scan_first] in H. inv_bind H. apply line_at_ok in E.
  destruct (negb (r_line a0 =? needle) || negb (r_stmt a0)) eqn:Hc.
  - destruct Hin as [->|Hin].
    + assert (a0 = r) by congruence. subst a0. rewrite Hl, N.eqb_refl, Hst in Hc. discriminate.
    + apply (IH H i r Hin Hr). auto.
  - inv_bind H. destruct a1 as [[[b rb] rest']|]; inv_bind H; inv_bind H; discriminate.
Qed.

Lemma filter_unique_sound : forall units ui ps seen seen' out,
  filter_unique units ui seen ps = Ok (seen', out) ->
  (forall q, In q out -> exists p, In p ps /\ q = (ui, p)) /\
  (seen = [] -> out = [] -> ps = [] /\ seen' = []).
Proof.
  intros units ui. induction ps as [|p t IH]; intros seen seen' out H; cbn [filter_unique] in H.
  - inversion H; subst. split; [intros q []|]. intros -> _. split; reflexivity.
  - inv_bind H. destruct a as [[[vi d] info]|].
    + destruct (existsb (fkey_eqb (fkey_of info)) seen) eqn:Hex.
      * destruct (IH _ _ _ H) as [H1 H2]. split.
        -- intros q Hq. destruct (H1 q Hq) as [p' [Hp' ->]]. exists p'. split; [right; assumption|reflexivity].
        -- intros -> _. cbn in Hex. discriminate.
      * inv_bind H. destruct a as [s o]. cbn [fst snd] in H. inversion H; subst.
        destruct (IH _ _ _ E0) as [H1 _]. split.
        -- intros q [<-|Hq]; [exists p; split; [left; reflexivity|reflexivity]|].
           destruct (H1 q Hq) as [p' [Hp' ->]]. exists p'. split; [right; assumption|reflexivity].
        -- intros _ Hnil. discriminate.
    + inv_bind H. destruct a as [s o]. cbn [fst snd] in H. inversion H; subst.
      destruct (IH _ _ _ E0) as [H1 _]. split.
      * intros q [<-|Hq]; [exists p; split; [left; reflexivity|reflexivity]|].
        destruct (H1 q Hq) as [p' [Hp' ->]]. exists p'. split; [right; assumption|reflexivity].
      * intros _ Hnil. discriminate.
Qed.

Lemma stmt_row_intro : forall f line r, r_file r = f -> r_line r = line -> r_stmt r = true -> stmt_row f line r = true.
Proof. intros f line r Hf Hl H. unfold stmt_row. rewrite Hf, Hl, !N.eqb_refl, H. reflexivity. Qed.

Lemma stmt_row_elim : forall f line r, stmt_row f line r = true -> r_file r = f /\ r_line r = line /\ r_stmt r = true.
Proof.
  intros f line r H. unfold stmt_row in H. repeat (apply andb_true_iff in H; destruct H as [H ?]).
  apply N.eqb_eq in H. apply N.eqb_eq in H1. auto.
Qed.

Lemma closest_units_sound : forall units needle files seen seen' out,
  closest_units units needle files seen = Ok (seen', out) ->
  forall q, In q out -> is_line_place units files needle q.
Proof.
  intros units needle. induction files as [|[ui f] t IH]; intros seen seen' out H q Hq; cbn [closest_units] in H.
  - inversion H; subst. destruct Hq.
  - destruct (nth_error units ui) as [u|] eqn:Hu; [|discriminate].
    inv_bind H. inv_bind H. inv_bind H. destruct a0 as [s1 o1]. destruct a1 as [s2 o2]. cbn [fst snd] in *.
    inversion H; subst. apply in_app_or in Hq. destruct Hq as [Hq|Hq].
    + apply filter_unique_sound in E0. destruct E0 as [H1 _]. destruct (H1 q Hq) as [[i r] [Hp ->]].
      destruct (scan_first_sound _ _ _ _ E i r Hp) as [Hi [Hr [Hl Hst]]].
      apply file_lines_in in Hi. destruct Hi as [r' [Hr' Hf]]. assert (r' = r) by congruence. subst r'.
      exists f, u. cbn [fst snd]. split; [left; reflexivity|]. split; [assumption|]. split; [assumption|].
      apply stmt_row_intro; assumption.
    + destruct (IH _ _ _ E1 q Hq) as [f' [u' [H1 H2]]]. exists f', u'. split; [right; assumption|assumption].
Qed.

Lemma closest_units_empty : forall units needle files seen',
  closest_units units needle files [] = Ok (seen', []) ->
  seen' = [] /\ ~ line_has_code units files needle.
Proof.
  intros units needle. induction files as [|[ui f] t IH]; intros seen' H; cbn [closest_units] in H.
  - inversion H; subst. split; [reflexivity|]. intros [ui [f [u [r [[] _]]]]].
  - destruct (nth_error units ui) as [u|] eqn:Hu; [|discriminate].
    inv_bind H. inv_bind H. inv_bind H. destruct a0 as [s1 o1]. destruct a1 as [s2 o2]. cbn [fst snd] in *.
    inversion H; subst. apply app_eq_nil in H2. destruct H2 as [-> ->].
    apply filter_unique_sound in E0. destruct E0 as [_ H2]. destruct (H2 eq_refl eq_refl) as [-> ->].
    destruct (IH _ E1) as [-> Hno]. split; [reflexivity|].
    intros [vi [g [v [r [Hin [Hv [Hr Hst]]]]]]]. destruct Hin as [Heq|Hin].
    + inversion Heq; subst. assert (v = u) by congruence. subst v.
      apply stmt_row_elim in Hst. destruct Hst as [Hf [Hl Hs]].
      apply In_nth_error in Hr. destruct Hr as [i Hi].
      apply (scan_first_empty _ _ _ E i r); [apply file_lines_in; exists r; auto|assumption|auto].
    + apply Hno. exists vi, g, v, r. auto.
Qed.

(* HEADLINE (soundness of `break file:L`): every address chosen is an is_stmt row of line L of one of
   the files the template selected, or of line L+1 and then L has no is_stmt row at all there;
   and if L has code the answer is not empty.  No assumption on the tables. *)
Theorem find_closest_place_sound : forall ovf units files line ps,
  line < U64_MAX ->
  find_closest_place ovf units files line = Ok ps ->
  line_places_ok units files line ps /\ (line_has_code units files line -> ps <> []).
Proof.
  intros ovf units files line ps Hlt H. unfold find_closest_place in H.
  destruct (N.eqb_spec line U64_MAX) as [->|_]; [lia|]. cbn [bind] in H.
  inv_bind H. destruct a as [s1 o1]. cbn [fst snd] in H. destruct o1 as [|q o1].
  - inv_bind H. destruct a as [s2 o2]. cbn [snd] in H. inversion H; subst.
    apply closest_units_empty in E. destruct E as [-> Hno]. split; [|contradiction].
    right. split; [assumption|]. intros p Hp. eapply closest_units_sound; eauto.
  - inversion H; subst. split; [|discriminate]. left. intros p Hp. eapply closest_units_sound; eauto.
Qed.

(* the overflow on the last line number *)
Theorem find_closest_place_overflow : forall units files,
  find_closest_place true units files U64_MAX = Panic 8.
Proof. intros. reflexivity. Qed.

(* REFUTATION 1 of "every function that contains the line gets its own breakpoint".
   The look-ahead for a prologue_end row (dwarf/mod.rs:391-408) walks over ALL following rows of the
   file that are is_stmt rows of the same line - including the end_sequence row of the function and
   the rows of the NEXT function - and replaces the hit by the first prologue_end row it meets.
   f = [0x10,0x20) has its last statement on line 7 (0x18); the closure g = [0x40,0x50) that follows
   it in the address space is written on line 7 too.  `break file:7` yields ONE place, g's prologue
   end 0x44; f, which contains line 7, gets none. *)
Definition two_fn_unit : unit :=
  U [(16, 32); (64, 80)] 2
    [R 16 1 5 0 true false false false; R 20 1 6 4 true true false false; R 24 1 7 5 true false false false;
     R 32 1 7 5 true false false true;
     R 64 1 7 20 true false false false; R 68 1 7 22 true true false false; R 72 1 7 22 true false false false;
     R 80 1 7 22 true false false true]
    [(16, 32, 100); (64, 80, 200)]
    [F 100 (Some [102]) [(16, 32)]; F 200 (Some [123; 99; 108; 125]) [(64, 80)]].

Theorem find_closest_place_every_function_refuted :
  exists u files line g ps,
    sorted_rowsb (u_rows u) = true /\ tie_okb (u_rows u) (u_rows u) = true /\ files_okb u = true /\
    In g (u_fns u) /\ fn_has_line u 1 line g = true /\
    find_closest_place true [u] files line = Ok ps /\
    existsb (fun p => addr_in_fn g (r_addr (snd (snd p)))) ps = false.
Proof.
  exists two_fn_unit, [(0%nat, 1)], 7, (F 100 (Some [102]) [(16, 32)]),
         [(0%nat, (5%nat, R 68 1 7 22 true true false false))].
  repeat split; try (vm_compute; reflexivity).
  left. reflexivity.
Qed.

(* REFUTATION 2, from the flags alone: after the first hit only rows with the same column AND the
   same prologue_end / epilogue_begin / end_sequence flags are taken (dwarf/mod.rs:426-435).  Line 7
   is the first statement of f = [0x10,0x20) (its prologue_end row) and also occurs, same column,
   inside g = [0x40,0x50) (e.g. an inlined copy of f's body): the row in g is not a prologue end, so
   g gets no place. *)
Definition two_fn_unit_pe : unit :=
  U [(16, 32); (64, 80)] 2
    [R 16 1 7 5 true false false false; R 20 1 7 5 true true false false; R 32 1 7 5 true false false true;
     R 64 1 20 0 true false false false; R 68 1 21 4 true true false false; R 72 1 7 5 true false false false;
     R 76 1 22 4 true false false false; R 80 1 22 4 true false false true]
    [(16, 32, 100); (64, 80, 200)]
    [F 100 (Some [102]) [(16, 32)]; F 200 (Some [103]) [(64, 80)]].

Theorem find_closest_place_flags_refuted :
  exists u files line g ps,
    sorted_rowsb (u_rows u) = true /\ tie_okb (u_rows u) (u_rows u) = true /\ files_okb u = true /\
    In g (u_fns u) /\ fn_has_line u 1 line g = true /\
    find_closest_place true [u] files line = Ok ps /\
    existsb (fun p => addr_in_fn g (r_addr (snd (snd p)))) ps = false.
Proof.
  exists two_fn_unit_pe, [(0%nat, 1)], 7, (F 200 (Some [103]) [(64, 80)]),
         [(0%nat, (1%nat, R 20 1 7 5 true true false false))].
  repeat split; try (vm_compute; reflexivity).
  right. left. reflexivity.
Qed.

(* a case where it works: two instantiations of a one-line generic function get one place each *)
Example find_closest_place_example :
  find_closest_place true
    [U [(16, 32); (64, 80)] 2
       [R 16 1 7 0 true false false false; R 20 1 7 27 true true false false; R 32 1 7 27 true false false true;
        R 64 1 7 0 true false false false; R 68 1 7 27 true true false false; R 80 1 7 27 true false false true]
       [(16, 32, 100); (64, 80, 200)]
       [F 100 (Some [105; 100]) [(16, 32)]; F 200 (Some [105; 100]) [(64, 80)]]]
    [(0%nat, 1)] 7
  = Ok [(0%nat, (1%nat, R 20 1 7 27 true true false false)); (0%nat, (4%nat, R 68 1 7 27 true true false false))].
Proof. vm_compute. reflexivity. Qed.

(* at most one place per subprogram key (name, ranges) *)
Definition pkey (units : list unit) (q : nat * (nat * row)) : option (option bstr * list (N * N)) :=
  match find_function_by_pc units (r_addr (snd (snd q))) with
  | Ok (Some (_, _, info)) => Some (fkey_of info)
  | _ => None
  end.

(* [distinct_from units seen out]: walking [out] in order, the key of every place whose function is
   found is different from all keys in [seen] and from the keys of the places before it *)
Fixpoint distinct_from (units : list unit) (seen : list (option bstr * list (N * N))) (out : list (nat * (nat * row))) : Prop :=
  match out with
  | [] => True
  | q :: t => match pkey units q with
              | Some k => existsb (fkey_eqb k) seen = false /\ distinct_from units (k :: seen) t
              | None => distinct_from units seen t
              end
  end.
Fixpoint seen_after (units : list unit) (seen : list (option bstr * list (N * N))) (out : list (nat * (nat * row))) :=
  match out with
  | [] => seen
  | q :: t => match pkey units q with
              | Some k => seen_after units (k :: seen) t
              | None => seen_after units seen t
              end
  end.

Lemma distinct_app : forall units o1 o2 seen,
  distinct_from units seen o1 -> distinct_from units (seen_after units seen o1) o2 ->
  distinct_from units seen (o1 ++ o2) /\ seen_after units seen (o1 ++ o2) = seen_after units (seen_after units seen o1) o2.
Proof.
  intros units. induction o1 as [|q t IH]; intros o2 seen H1 H2; cbn [app distinct_from seen_after] in *.
  - split; [assumption|reflexivity].
  - destruct (pkey units q) as [k|].
    + destruct H1 as [Hk H1]. destruct (IH o2 _ H1 H2) as [Ha Hb]. split; [split; assumption|assumption].
    + apply IH; assumption.
Qed.

Lemma filter_unique_distinct : forall units ui ps seen seen' out,
  filter_unique units ui seen ps = Ok (seen', out) ->
  distinct_from units seen out /\ seen' = seen_after units seen out.
Proof.
  intros units ui. induction ps as [|p t IH]; intros seen seen' out H; cbn [filter_unique] in H.
  - inversion H; subst. split; [exact I|reflexivity].
  - inv_bind H. destruct a as [[[vi d] info]|].
    + destruct (existsb (fkey_eqb (fkey_of info)) seen) eqn:Hex.
      * apply IH. assumption.
      * inv_bind H. destruct a as [s o]. cbn [fst snd] in H. inversion H; subst.
        destruct (IH _ _ _ E0) as [H1 H2]. cbn [distinct_from seen_after]. unfold pkey. cbn [snd]. rewrite E.
        split; [split; assumption|assumption].
    + inv_bind H. destruct a as [s o]. cbn [fst snd] in H. inversion H; subst.
      destruct (IH _ _ _ E0) as [H1 H2]. cbn [distinct_from seen_after]. unfold pkey. cbn [snd]. rewrite E.
      split; assumption.
Qed.

Lemma closest_units_distinct : forall units needle files seen seen' out,
  closest_units units needle files seen = Ok (seen', out) ->
  distinct_from units seen out /\ seen' = seen_after units seen out.
Proof.
  intros units needle. induction files as [|[ui f] t IH]; intros seen seen' out H; cbn [closest_units] in H.
  - inversion H; subst. split; [exact I|reflexivity].
  - destruct (nth_error units ui) as [u|] eqn:Hu; [|discriminate].
    inv_bind H. inv_bind H. inv_bind H. destruct a0 as [s1 o1]. destruct a1 as [s2 o2]. cbn [fst snd] in *.
    inversion H; subst. apply filter_unique_distinct in E0. destruct E0 as [H1 ->].
    apply IH in E1. destruct E1 as [H2 ->].
    destruct (distinct_app units o1 o2 seen H1 H2) as [Ha Hb]. split; [assumption|symmetry; assumption].
Qed.

(* no two answered places belong to the same (name, ranges) subprogram *)
Theorem find_closest_place_one_per_key : forall ovf units files line ps,
  find_closest_place ovf units files line = Ok ps -> distinct_from units [] ps.
Proof.
  intros ovf units files line ps H. unfold find_closest_place in H. inv_bind H. inv_bind H.
  destruct a0 as [s1 o1]. cbn [fst snd] in H. destruct o1 as [|q o1].
  - inv_bind H. destruct a0 as [s2 o2]. cbn [snd] in H. inversion H; subst.
    apply closest_units_empty in E0. destruct E0 as [-> _].
    apply closest_units_distinct in E1. tauto.
  - inversion H; subst. apply closest_units_distinct in E0. tauto.
Qed.
