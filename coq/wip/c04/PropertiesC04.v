(* C04 - Address <-> source answers agree with the binary's DWARF.
   Only statements, `exact <lemma>`, one non-vacuity example and Print Assumptions live here.
   Names: plain = proved in full; _partial = proved under the stated extra hypothesis (each has a
   boolean decision procedure in ProofsLineTable.v); _refuted = the full statement is false of the
   faithful model, closed on a concrete witness. *)
From BS Require Import Model.Base.
From W Require Import ModelLineTable ProofsLineTable.
Local Open Scope N_scope.

(* ---- core::slice::binary_search_by_key (Rust 1.89) on a sorted slice: no panic, no fuel
   exhaustion; Found i is the LAST index holding the key; NotFound p is the insertion point ---- *)
Theorem C04_binary_search : forall keys pc, sorted_keys keys ->
  exists r, bsearch keys pc = Ok r /\ bs_post keys pc r.
Proof. exact bsearch_ok. Qed.

(* ---- pc -> row ---- *)
(* what find_place_by_pc computes: the last row with address <= pc, row 0 if there is none *)
Theorem C04_pc_row_exact : forall u pc, sorted_rows (u_rows u) -> files_ok u ->
  (u_rows u = [] /\ find_place_by_pc u pc = Ok None) \/
  exists i r, find_place_by_pc u pc = Ok (Some (i, r)) /\ nth_error (u_rows u) i = Some r /\
    (forall j x, (i < j)%nat -> nth_error (u_rows u) j = Some x -> pc < r_addr x) /\
    (r_addr r <= pc \/ (i = 0%nat /\ forall x, In x (u_rows u) -> pc < r_addr x)).
Proof. exact find_place_by_pc_exact. Qed.

(* the row the DWARF line table (program order [prog]) designates for pc is the row answered,
   provided the sort left that row last among the rows of its address ([tie_ok]) *)
Theorem C04_pc_row_partial : forall u prog pc r,
  sorted_rows (u_rows u) -> files_ok u -> tie_ok prog (u_rows u) ->
  place_of prog pc r ->
  exists i, find_place_by_pc u pc = Ok (Some (i, r)) /\ nth_error (u_rows u) i = Some r.
Proof. exact find_place_by_pc_partial. Qed.

(* without [tie_ok]: the first instruction of a function is answered with the end_sequence row of
   the function that ends there *)
Theorem C04_pc_row_refuted :
  exists prog u pc r,
    u_rows u = stable_sort prog /\ sorted_rowsb (u_rows u) = true /\ files_okb u = true /\
    place_ofb prog pc r = true /\
    exists i x, find_place_by_pc u pc = Ok (Some (i, x)) /\ r_es x = true /\ r_line x <> r_line r.
Proof. exact find_place_by_pc_refuted. Qed.

(* ---- exact place: first row at pc; panics (overflow checks on) when that row is row 0 ---- *)
Theorem C04_exact_place : forall ovf u pc, sorted_rows (u_rows u) -> files_ok u ->
  ((forall x, In x (u_rows u) -> r_addr x <> pc) /\ find_exact_place_by_pc ovf u pc = Ok None) \/
  exists f rf, nth_error (u_rows u) f = Some rf /\ r_addr rf = pc /\
    (forall j x, (j < f)%nat -> nth_error (u_rows u) j = Some x -> r_addr x < pc) /\
    find_exact_place_by_pc ovf u pc = (if (Nat.eqb f 0 && ovf)%bool then Panic 3 else Ok (Some (f, rf))).
Proof. exact find_exact_place_by_pc_exact. Qed.

Theorem C04_exact_place_row0_panics : forall u r0 t,
  sorted_rows (u_rows u) -> files_ok u -> u_rows u = r0 :: t ->
  find_exact_place_by_pc true u (r_addr r0) = Panic 3 /\
  find_exact_place_by_pc false u (r_addr r0) = Ok (Some (0%nat, r0)).
Proof. exact find_exact_place_by_pc_row0_panics. Qed.

(* ---- pc -> unit ---- *)
Theorem C04_unit_partial : forall units pc, units_ok units ->
  (find_unit_by_pc units pc = Ok None /\ forall u, In u units -> ~ unit_covers u pc) \/
  exists k u, find_unit_by_pc units pc = Ok (Some (k, u)) /\ nth_error units k = Some u /\
              unit_covers u pc /\ forall j v, (j < k)%nat -> nth_error units j = Some v -> ~ unit_covers v pc.
Proof. exact find_unit_by_pc_partial. Qed.

Theorem C04_unit_refuted :
  exists u pc, sorted_keysb (map fst (u_ranges u)) = true /\
               unit_has_pc u pc = Ok true /\ unit_coversb u pc = false.
Proof. exact unit_has_pc_refuted. Qed.

(* ---- pc -> function (full, per unit): None iff no function range contains pc, else the
   containing function whose range begins last (innermost) ---- *)
Theorem C04_function_in_unit : forall u pc, sorted_keys (map dr_begin (u_die_ranges u)) ->
  (find_function_in_unit u pc = Ok None /\ forall d info, ~ fn_hit_ok u pc d info) \/
  exists d info, find_function_in_unit u pc = Ok (Some (d, info)) /\ fn_hit_ok u pc d info /\
                 forall d' info', fn_hit_ok u pc d' info' -> dr_begin d' <= dr_begin d.
Proof. exact find_function_in_unit_correct. Qed.

Theorem C04_function_sound : forall units pc ui d info,
  find_function_by_pc units pc = Ok (Some (ui, d, info)) ->
  exists u, nth_error units ui = Some u /\ fn_hit_ok u pc d info.
Proof. exact find_function_by_pc_sound. Qed.

Theorem C04_function_partial : forall units pc k u d info,
  units_ok units -> (forall v, In v units -> sorted_keys (map dr_begin (u_die_ranges v))) ->
  nth_error units k = Some u -> fn_hit_ok u pc d info -> unit_covers u pc ->
  (forall j v, (j < k)%nat -> nth_error units j = Some v -> ~ unit_covers v pc) ->
  exists d' info', find_function_by_pc units pc = Ok (Some (k, d', info')) /\ fn_hit_ok u pc d' info' /\
                   dr_begin d <= dr_begin d'.
Proof. exact find_function_by_pc_partial. Qed.

(* ---- file:line -> places ---- *)
Theorem C04_line_places_sound : forall ovf units files line ps,
  line < U64_MAX ->
  find_closest_place ovf units files line = Ok ps ->
  line_places_ok units files line ps /\ (line_has_code units files line -> ps <> []).
Proof. exact find_closest_place_sound. Qed.

(* no two answered places lie in the same (name, ranges) subprogram *)
Theorem C04_line_places_one_per_key : forall ovf units files line ps,
  find_closest_place ovf units files line = Ok ps -> distinct_from units [] ps.
Proof. exact find_closest_place_one_per_key. Qed.

Theorem C04_line_places_every_function_refuted :
  exists u files line g ps,
    sorted_rowsb (u_rows u) = true /\ tie_okb (u_rows u) (u_rows u) = true /\ files_okb u = true /\
    In g (u_fns u) /\ fn_has_line u 1 line g = true /\
    find_closest_place true [u] files line = Ok ps /\
    existsb (fun p => addr_in_fn g (r_addr (snd (snd p)))) ps = false.
Proof. exact find_closest_place_every_function_refuted. Qed.

Theorem C04_line_places_flags_refuted :
  exists u files line g ps,
    sorted_rowsb (u_rows u) = true /\ tie_okb (u_rows u) (u_rows u) = true /\ files_okb u = true /\
    In g (u_fns u) /\ fn_has_line u 1 line g = true /\
    find_closest_place true [u] files line = Ok ps /\
    existsb (fun p => addr_in_fn g (r_addr (snd (snd p)))) ps = false.
Proof. exact find_closest_place_flags_refuted. Qed.

(* ---- function -> breakpoint address ---- *)
Theorem C04_fn_bp_exact : forall units f ui i r,
  (forall u, In u units -> files_ok u) ->
  prolog_start_place units f = Ok (ui, (i, r)) ->
  exists u j rj, nth_error units ui = Some u /\ nth_error (u_rows u) i = Some r /\
    prolog_end_place units f = Ok (ui, (j, rj)) /\ (i <= j)%nat /\ nth_error (u_rows u) j = Some rj /\
    (forall k x, (i <= k < j)%nat -> nth_error (u_rows u) k = Some x -> r_pe x = false) /\
    (r_pe rj = true \/ (r_pe rj = false /\ S j = length (u_rows u))).
Proof. exact prolog_end_place_exact. Qed.

Theorem C04_fn_bp_partial : forall units f ui i r u,
  (forall v, In v units -> files_ok v) ->
  prolog_start_place units f = Ok (ui, (i, r)) -> nth_error units ui = Some u ->
  pe_in_fnb u f i = true ->
  exists j rj, prolog_end_place units f = Ok (ui, (j, rj)) /\ nth_error (u_rows u) j = Some rj /\
    r_pe rj = true /\ r_es rj = false /\ addr_in_fn f (r_addr rj) = true.
Proof. exact fn_bp_partial. Qed.

Theorem C04_fn_bp_refuted_no_prologue_end :
  exists u f, sorted_rowsb (u_rows u) = true /\ files_okb u = true /\ fn_lookup u (f_off f) = Some f /\
    exists j rj, prolog_end_place [u] f = Ok (0%nat, (j, rj)) /\
                 r_addr rj = 48 /\ r_es rj = true /\ addr_in_fn f (r_addr rj) = false /\ fn_bp_ok u f rj = false.
Proof. exact fn_bp_refuted_no_prologue_end. Qed.

Theorem C04_fn_bp_refuted_next_function :
  exists u f g, sorted_rowsb (u_rows u) = true /\ files_okb u = true /\
    fn_lookup u (f_off f) = Some f /\ fn_lookup u (f_off g) = Some g /\ f_off f <> f_off g /\
    exists j rj, prolog_end_place [u] f = Ok (0%nat, (j, rj)) /\
                 addr_in_fn f (r_addr rj) = false /\ addr_in_fn g (r_addr rj) = true.
Proof. exact fn_bp_refuted_next_function. Qed.

(* non-vacuity: the checker on the witness table.  The debugger's (= model's) answer for pc 0x20
   violates the specification (verdict 2); the row DWARF designates would get verdict 1; a
   well-behaved query gets 0. *)
Example C04_example :
  lt_check (LC true [wit_unit] [wit_prog] (QPlace 0 32) (ARow 0 2)) = 2 /\
  lt_check (LC true [wit_unit] [wit_prog] (QPlace 0 32) (ARow 0 1)) = 1 /\
  lt_check (LC true [wit_unit] [wit_prog] (QPlace 0 37) (ARow 0 3)) = 0 /\
  lt_check (LC true [wit_unit] [wit_prog] (QFunc 37) (AFunc 0 200)) = 0 /\
  lt_check (LC true [wit_unit] [wit_prog] (QLine [(0, 1)] 8) (ARows [(0, 3)])) = 0 /\
  lt_check (LC true [wit_unit] [wit_prog] (QFnBp 0 200) (ARow 0 3)) = 0 /\
  lt_check (LC true [wit_unit] [wit_prog] (QFnBp 0 100) (ARow 0 3)) = 2 /\
  lt_check (LC true [wit_unit] [wit_prog] (QExact 0 16) APanic) = 2.
Proof. vm_compute. repeat split; reflexivity. Qed.

Print Assumptions C04_binary_search.
Print Assumptions C04_pc_row_exact.
Print Assumptions C04_pc_row_partial.
Print Assumptions C04_pc_row_refuted.
Print Assumptions C04_exact_place.
Print Assumptions C04_exact_place_row0_panics.
Print Assumptions C04_unit_partial.
Print Assumptions C04_function_in_unit.
Print Assumptions C04_function_sound.
Print Assumptions C04_function_partial.
Print Assumptions C04_line_places_sound.
Print Assumptions C04_line_places_one_per_key.
Print Assumptions C04_line_places_every_function_refuted.
Print Assumptions C04_line_places_flags_refuted.
Print Assumptions C04_fn_bp_exact.
Print Assumptions C04_fn_bp_partial.
Print Assumptions C04_fn_bp_refuted_no_prologue_end.
Print Assumptions C04_fn_bp_refuted_next_function.
