(* C04 - Address <-> source answers agree with the binary's DWARF.  State of /repo: HEAD 9f6d836,
   i.e. after the repairs 5a7aaa1 (exact place / prev), e485ae3 (pc -> row, stable sort),
   0bd2878 (find_closest_place), 6aa083d (prolog_end_place).
   Only statements, `exact <lemma>`, one non-vacuity example and Print Assumptions live here.
   Names: plain = proved in full; _partial = proved under the stated extra hypothesis (each has a
   boolean decision procedure in ProofsLineTable.v); _refuted = the full statement is false of the
   faithful model, closed on a concrete witness.

   _old (refuted on the code before the repairs, now gone; see old/ for the development):
     find_place_by_pc_refuted (W1, end_sequence row answered for the first instruction of a function)
       -> now C04_pc_row_partial holds with the weaker [tie_ok], Example find_place_by_pc_w1_repaired;
     find_exact_place_by_pc_row0_panics / find_exact_refuted (W2) -> C04_exact_place_no_panic, C04_exact_place_row0;
     find_closest_place_every_function_refuted / _flags_refuted (W3, W4), find_closest_place_overflow (Panic 8)
       -> C04_line_places_one_per_function, C04_line_places_sound for every u64 line;
     fn_bp_refuted_no_prologue_end / _next_function (W5, W6) -> C04_fn_bp_inside. *)
From BS Require Import Model.Base.
From W Require Import ModelLineTable ProofsLineTable.
Local Open Scope N_scope.

(* ---- core::slice::binary_search_by_key (Rust 1.89) on a sorted slice: no panic, no fuel
   exhaustion; Found i is the LAST index holding the key; NotFound p is the insertion point ---- *)
Theorem C04_binary_search : forall keys pc, sorted_keys keys ->
  exists r, bsearch keys pc = Ok r /\ bs_post keys pc r.
Proof. exact bsearch_ok. Qed.

(* ---- pc -> row ---- *)
(* what find_place_by_pc computes on a sorted vector: among the rows of the greatest address <= pc
   (of the lowest address if all are above pc) the last one that does not end a sequence, the
   end_sequence row only when every row of that address ends a sequence *)
Theorem C04_pc_row_exact : forall u pc, sorted_rows (u_rows u) -> files_ok u ->
  (u_rows u = [] /\ find_place_by_pc u pc = Ok None) \/
  exists m r, find_place_by_pc u pc = Ok (Some (m, r)) /\ nth_error (u_rows u) m = Some r /\
    (forall x, In x (u_rows u) -> r_addr x <= r_addr r \/ pc < r_addr x) /\
    (r_addr r <= pc \/ forall x, In x (u_rows u) -> pc < r_addr x) /\
    ((r_es r = false /\
      forall j y, (m < j)%nat -> nth_error (u_rows u) j = Some y -> r_addr y = r_addr r -> r_es y = true) \/
     (forall y, In y (u_rows u) -> r_addr y = r_addr r -> r_es y = true)).
Proof. exact find_place_by_pc_exact. Qed.

(* the row the DWARF line table (program order [prog]) designates for pc is the row answered,
   provided that row is the last non-end_sequence row of its address in the sorted vector and no
   foreign row lies inside its interval ([tie_ok], decider [tie_okb]) *)
Theorem C04_pc_row_partial : forall u prog pc r,
  sorted_rows (u_rows u) -> files_ok u -> tie_ok prog (u_rows u) ->
  place_of prog pc r ->
  exists i, find_place_by_pc u pc = Ok (Some (i, r)) /\ nth_error (u_rows u) i = Some r.
Proof. exact find_place_by_pc_partial. Qed.

(* still false: "no row covers pc => None" *)
Theorem C04_pc_row_none_refuted :
  exists u pc1 pc2, sorted_rowsb (u_rows u) = true /\ tie_okb (u_rows u) (u_rows u) = true /\
    no_placeb (u_rows u) pc1 = true /\ no_placeb (u_rows u) pc2 = true /\
    find_place_by_pc u pc1 = Ok (Some (0%nat, R 16 1 3 0 true false false false)) /\
    find_place_by_pc u pc2 = Ok (Some (1%nat, R 32 1 4 0 true false false true)).
Proof. exact find_place_by_pc_none_refuted. Qed.

(* ---- exact place: never a panic; first row at pc, row 0 included ---- *)
Theorem C04_exact_place_no_panic : forall u pc, files_ok u ->
  exists r, find_exact_place_by_pc u pc = Ok r.
Proof. exact find_exact_place_by_pc_no_panic. Qed.

Theorem C04_exact_place : forall u pc, sorted_rows (u_rows u) -> files_ok u ->
  ((forall x, In x (u_rows u) -> r_addr x <> pc) /\ find_exact_place_by_pc u pc = Ok None) \/
  exists f rf, nth_error (u_rows u) f = Some rf /\ r_addr rf = pc /\
    (forall j x, (j < f)%nat -> nth_error (u_rows u) j = Some x -> r_addr x < pc) /\
    find_exact_place_by_pc u pc = Ok (Some (f, rf)).
Proof. exact find_exact_place_by_pc_exact. Qed.

Theorem C04_exact_place_row0 : forall u r0 t,
  sorted_rows (u_rows u) -> files_ok u -> u_rows u = r0 :: t ->
  find_exact_place_by_pc u (r_addr r0) = Ok (Some (0%nat, r0)).
Proof. exact find_exact_place_by_pc_row0. Qed.

(* ---- pc -> unit ---- *)
Theorem C04_unit_partial : forall units pc, units_ok units ->
  (find_unit_by_pc units pc = Ok None /\ forall u, In u units -> ~ unit_covers u pc) \/
  exists k u, find_unit_by_pc units pc = Ok (Some (k, u)) /\ nth_error units k = Some u /\
              unit_covers u pc /\ forall j v, (j < k)%nat -> nth_error units j = Some v -> ~ unit_covers v pc.
Proof. exact find_unit_by_pc_partial. Qed.

Theorem C04_unit_refuted :
  exists u pc, sorted_keysb (map fst (u_ranges u)) = true /\
               unit_has_pc u pc = Ok true /\ unit_coversb u pc = false.
Proof. exact unit_has_pc_refuted. Qed.

(* ---- pc -> function (full, per unit) ---- *)
Theorem C04_function_in_unit : forall u pc, sorted_keys (map dr_begin (u_die_ranges u)) ->
  (find_function_in_unit u pc = Ok None /\ forall d info, ~ fn_hit_ok u pc d info) \/
  exists d info, find_function_in_unit u pc = Ok (Some (d, info)) /\ fn_hit_ok u pc d info /\
                 forall d' info', fn_hit_ok u pc d' info' -> dr_begin d' <= dr_begin d.
Proof. exact find_function_in_unit_correct. Qed.

Theorem C04_function_sound : forall units pc ui d info,
  find_function_by_pc units pc = Ok (Some (ui, d, info)) ->
  exists u, nth_error units ui = Some u /\ fn_hit_ok u pc d info.
Proof. exact find_function_by_pc_sound. Qed.

Theorem C04_function_partial : forall units pc k u d info,
  units_ok units -> (forall v, In v units -> sorted_keys (map dr_begin (u_die_ranges v))) ->
  nth_error units k = Some u -> fn_hit_ok u pc d info -> unit_covers u pc ->
  (forall j v, (j < k)%nat -> nth_error units j = Some v -> ~ unit_covers v pc) ->
  exists d' info', find_function_by_pc units pc = Ok (Some (k, d', info')) /\ fn_hit_ok u pc d' info' /\
                   dr_begin d <= dr_begin d'.
Proof. exact find_function_by_pc_partial. Qed.

(* ---- file:line -> places ---- *)
(* every place is an is_stmt, non-end_sequence row of L (of L+1 only when L has none); non-empty if L has code *)
Theorem C04_line_places_sound : forall ovf units files line ps,
  find_closest_place ovf units files line = Ok ps ->
  line_places_ok units files line ps /\ (line_has_code units files line -> ps <> []).
Proof. exact find_closest_place_sound. Qed.

(* no two places in the same (name, ranges) subprogram *)
Theorem C04_line_places_one_per_key : forall ovf units files line ps,
  find_closest_place ovf units files line = Ok ps -> NoDup (filter_map (pkey units) ps).
Proof. exact find_closest_place_one_per_key. Qed.

(* every candidate row is represented by a place of its subprogram (or by itself if it has none) *)
Theorem C04_line_places_complete : forall ovf units files line ps Lc,
  find_closest_place ovf units files line = Ok ps -> chosen_line units files line Lc ->
  forall ui f u i r, In (ui, f) files -> nth_error units ui = Some u ->
    nth_error (u_rows u) i = Some r -> stmt_row f Lc r = true ->
    match akey units (r_addr r) with
    | None => In (ui, (i, r)) ps
    | Some k => exists q, In q ps /\ pkey units q = Some k
    end.
Proof. exact find_closest_place_complete. Qed.

(* every function that contains the line gets exactly one place ([fn_resolves], decider [fn_resolvesb]:
   rows of the line are in g's ranges iff find_function_by_pc attributes them to g) *)
Theorem C04_line_places_one_per_function : forall ovf units files line ps Lc g ui f u,
  find_closest_place ovf units files line = Ok ps -> chosen_line units files line Lc ->
  fn_resolves units files Lc g ->
  In (ui, f) files -> nth_error units ui = Some u -> fn_has_line u f Lc g = true ->
  exists l1 q l2, ps = l1 ++ q :: l2 /\ addr_in_fn g (r_addr (snd (snd q))) = true /\
    forall x, In x (l1 ++ l2) -> addr_in_fn g (r_addr (snd (snd x))) = false.
Proof. exact find_closest_place_one_per_function. Qed.

(* ---- function -> breakpoint address ---- *)
(* inside the function's ranges, not an end_sequence row, prologue_end if one is reachable *)
Theorem C04_fn_bp_inside : forall units f ui i r,
  (forall u, In u units -> files_ok u) ->
  prolog_start_place units f = Ok (ui, (i, r)) -> r_es r = false -> in_fn f r = true ->
  exists u j rj, nth_error units ui = Some u /\ nth_error (u_rows u) i = Some r /\
    prolog_end_place units f = Ok (ui, (j, rj)) /\ nth_error (u_rows u) j = Some rj /\
    r_es rj = false /\ in_fn f rj = true /\ reach u f i j /\
    (r_pe rj = true \/
     forall m y, reach u f i m -> nth_error (u_rows u) m = Some y -> r_es y = false -> r_pe y = false).
Proof. exact prolog_end_place_inside. Qed.

(* the specification [fn_bp_ok] (prologue_end row whenever the function has one in its ranges) *)
Theorem C04_fn_bp_partial : forall units f ui i r u,
  (forall v, In v units -> files_ok v) ->
  prolog_start_place units f = Ok (ui, (i, r)) -> nth_error units ui = Some u ->
  r_es r = false -> in_fn f r = true -> pe_reach_okb u f i = true ->
  exists j rj, prolog_end_place units f = Ok (ui, (j, rj)) /\ nth_error (u_rows u) j = Some rj /\
               fn_bp_ok u f rj = true.
Proof. exact fn_bp_partial. Qed.

(* remaining (contrived) violations of [fn_bp_ok] *)
Theorem C04_fn_bp_split_ranges_refuted :
  exists u f, sorted_rowsb (u_rows u) = true /\ files_okb u = true /\ fn_lookup u (f_off f) = Some f /\
    exists j rj, prolog_end_place [u] f = Ok (0%nat, (j, rj)) /\ in_fn f rj = true /\ r_es rj = false /\
                 fn_pe_rows u f <> [] /\ r_pe rj = false /\ fn_bp_ok u f rj = false.
Proof. exact fn_bp_split_ranges_refuted. Qed.

Theorem C04_fn_bp_no_row_at_low_pc_refuted :
  exists u f, sorted_rowsb (u_rows u) = true /\ files_okb u = true /\ fn_lookup u (f_off f) = Some f /\
    exists j rj, prolog_end_place [u] f = Ok (0%nat, (j, rj)) /\ in_fn f rj = false.
Proof. exact fn_bp_no_row_at_low_pc_refuted. Qed.

(* non-vacuity: the checker on the former W1 table.  The repaired answer (row 1, B's first row) for
   pc 0x20 now agrees with model and spec; the old answer (row 2, A's end_sequence row) violates the spec. *)
Example C04_example :
  lt_check (LC false [wit_unit] [wit_prog] (QPlace 0 32) (ARow 0 1)) = 0 /\
  lt_check (LC false [wit_unit] [wit_prog] (QPlace 0 32) (ARow 0 2)) = 2 /\
  lt_check (LC false [wit_unit] [wit_prog] (QPlace 0 37) (ARow 0 3)) = 0 /\
  lt_check (LC false [wit_unit] [wit_prog] (QFunc 37) (AFunc 0 200)) = 0 /\
  lt_check (LC false [wit_unit] [wit_prog] (QLine [(0, 1)] 8) (ARows [(0, 3)])) = 0 /\
  lt_check (LC false [wit_unit] [wit_prog] (QFnBp 0 200) (ARow 0 3)) = 0 /\
  lt_check (LC false [wit_unit] [wit_prog] (QFnBp 0 100) (ARow 0 0)) = 0 /\
  lt_check (LC true [wit_unit] [wit_prog] (QExact 0 16) (ARow 0 0)) = 0 /\
  lt_check (LC true [two_fn_unit] [] (QLine [(0, 1)] 7) (ARows [(0, 2); (0, 5)])) = 0 /\
  lt_check (LC true [two_fn_unit] [] (QLine [(0, 1)] 7) (ARows [(0, 5)])) = 2 /\
  lt_check (LC true [gcc_unit] [] (QFnBp 0 100) (ARow 0 1)) = 0 /\
  lt_check (LC true [gcc_unit] [] (QFnBp 0 100) (ARow 0 4)) = 2.
Proof. vm_compute. repeat split; reflexivity. Qed.

Print Assumptions C04_binary_search.
Print Assumptions C04_pc_row_exact.
Print Assumptions C04_pc_row_partial.
Print Assumptions C04_pc_row_none_refuted.
Print Assumptions C04_exact_place_no_panic.
Print Assumptions C04_exact_place.
Print Assumptions C04_exact_place_row0.
Print Assumptions C04_unit_partial.
Print Assumptions C04_unit_refuted.
Print Assumptions C04_function_in_unit.
Print Assumptions C04_function_sound.
Print Assumptions C04_function_partial.
Print Assumptions C04_line_places_sound.
Print Assumptions C04_line_places_one_per_key.
Print Assumptions C04_line_places_complete.
Print Assumptions C04_line_places_one_per_function.
Print Assumptions C04_fn_bp_inside.
Print Assumptions C04_fn_bp_partial.
Print Assumptions C04_fn_bp_split_ranges_refuted.
Print Assumptions C04_fn_bp_no_row_at_low_pc_refuted.
