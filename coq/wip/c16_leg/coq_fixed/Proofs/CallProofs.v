(* Proofs about the call model (C16). *)
From Coq Require Import Lia.
From BS Require Import Model.Base Model.Mem Proofs.MemProofs.
From BS Require Import Model.Call.
Open Scope N_scope.

(* ------------------------------------------------------------------ *)
(* words and bytes                                                     *)

Lemma from_le_app_zeros l n : from_le (l ++ repeat 0 n) = from_le l.
Proof.
  induction l as [|b t IH]; cbn [app from_le].
  - induction n as [|n IHn]; cbn [repeat from_le]; [reflexivity|]. rewrite IHn. reflexivity.
  - rewrite IH. reflexivity.
Qed.

Lemma from_le_to_le_z k v :
  from_le (to_le_z k v) = Z.to_N (v mod 2 ^ (8 * Z.of_nat k))%Z.
Proof.
  revert v. induction k as [|k IH]; intros v; cbn [to_le_z from_le].
  - change (8 * Z.of_nat 0)%Z with 0%Z. change (2 ^ 0)%Z with 1%Z. rewrite Z.mod_1_r. reflexivity.
  - rewrite IH.
    replace (8 * Z.of_nat (S k))%Z with (8 + 8 * Z.of_nat k)%Z by lia.
    rewrite Z.pow_add_r by lia. change (2 ^ 8)%Z with 256%Z.
    assert (Hp : (0 < 2 ^ (8 * Z.of_nat k))%Z) by (apply Z.pow_pos_nonneg; lia).
    rewrite Z.rem_mul_r by lia.
    pose proof (Z.mod_pos_bound v 256 ltac:(lia)) as B1.
    pose proof (Z.mod_pos_bound (v / 256) (2 ^ (8 * Z.of_nat k)) Hp) as B2.
    rewrite Z2N.inj_add by nia. rewrite Z2N.inj_mul by lia. reflexivity.
Qed.

Lemma int_image_1 v : int_image 1 v = Z.to_N (v mod 2 ^ 8)%Z.
Proof. unfold int_image. change (pad8 (to_le_z 1 v)) with (to_le_z 1 v ++ repeat 0 7).
  rewrite from_le_app_zeros. apply (from_le_to_le_z 1). Qed.
Lemma int_image_2 v : int_image 2 v = Z.to_N (v mod 2 ^ 16)%Z.
Proof. unfold int_image. change (pad8 (to_le_z 2 v)) with (to_le_z 2 v ++ repeat 0 6).
  rewrite from_le_app_zeros. apply (from_le_to_le_z 2). Qed.
Lemma int_image_4 v : int_image 4 v = Z.to_N (v mod 2 ^ 32)%Z.
Proof. unfold int_image. change (pad8 (to_le_z 4 v)) with (to_le_z 4 v ++ repeat 0 4).
  rewrite from_le_app_zeros. apply (from_le_to_le_z 4). Qed.
Lemma int_image_8 v : int_image 8 v = Z.to_N (v mod 2 ^ 64)%Z.
Proof. unfold int_image. change (pad8 (to_le_z 8 v)) with (to_le_z 8 v ++ repeat 0 0).
  rewrite from_le_app_zeros. apply (from_le_to_le_z 8). Qed.

Lemma sized_image_cases s v :
  (s = 1 \/ s = 2 \/ s = 4 \/ s = 8) \/
  (sized_image (Some s) v = Err E_UNSUP_TYPE /\ ((s =? 1) || (s =? 2) || (s =? 4) || (s =? 8)) = false).
Proof.
  destruct s as [|p]; [right; split; reflexivity|].
  do 4 (try match goal with q : positive |- _ => destruct q end);
    first [ left; tauto | left; right; tauto | right; split; reflexivity
          | left; left; reflexivity | left; right; left; reflexivity
          | left; right; right; left; reflexivity | left; right; right; right; reflexivity ].
Qed.

(* C16 marshalling, every literal, every parameter type: the model produces a register image
   exactly when the specification defines one, and then it is that image: the literal modulo
   2^(8*size), upper bits zero; everything else is an error, nothing is silently converted *)
Theorem C16_args l t :
  match arg_spec l t with
  | Some v => liter_to_arg l t = Ok v
  | None => exists e, liter_to_arg l t = Err e
  end.
Proof.
  destruct l as [v|a|b| | | | | ]; cbn [arg_spec liter_to_arg];
    try (destruct t as [[e| ] sz| | ]; eexists; reflexivity).
  - (* LInt *)
    destruct t as [[e| ] sz| | ]; cbn [ty_size]; try (eexists; reflexivity).
    destruct e; try (eexists; reflexivity).
    + cbv beta iota delta [ty_size]. f_equal. exact (int_image_1 v).
    + cbv beta iota delta [ty_size]. f_equal. exact (int_image_1 v).
    + destruct sz as [s|]; [|eexists; reflexivity].
      destruct (sized_image_cases s v) as [ [ -> | [ -> | [ -> | -> ] ] ] | [E1 E2] ].
      * cbv beta iota delta [ty_size N.eqb Pos.eqb orb sized_image]. f_equal. exact (int_image_1 v).
      * cbv beta iota delta [ty_size N.eqb Pos.eqb orb sized_image]. f_equal. exact (int_image_2 v).
      * cbv beta iota delta [ty_size N.eqb Pos.eqb orb sized_image]. f_equal. exact (int_image_4 v).
      * cbv beta iota delta [ty_size N.eqb Pos.eqb orb sized_image]. f_equal. exact (int_image_8 v).
      * cbv beta iota delta [ty_size]. rewrite E2, E1. eexists; reflexivity.
    + destruct sz as [s|]; [|eexists; reflexivity].
      destruct (sized_image_cases s v) as [ [ -> | [ -> | [ -> | -> ] ] ] | [E1 E2] ].
      * cbv beta iota delta [ty_size N.eqb Pos.eqb orb sized_image]. f_equal. exact (int_image_1 v).
      * cbv beta iota delta [ty_size N.eqb Pos.eqb orb sized_image]. f_equal. exact (int_image_2 v).
      * cbv beta iota delta [ty_size N.eqb Pos.eqb orb sized_image]. f_equal. exact (int_image_4 v).
      * cbv beta iota delta [ty_size N.eqb Pos.eqb orb sized_image]. f_equal. exact (int_image_8 v).
      * cbv beta iota delta [ty_size]. rewrite E2, E1. eexists; reflexivity.
  - (* LBool *)
    destruct t as [[e| ] sz| | ]; cbn [arg_spec liter_to_arg]; try (eexists; reflexivity).
    destruct e; cbn [arg_spec liter_to_arg]; try (eexists; reflexivity).
Qed.

(* the i-th marshalled value goes to the i-th SysV integer argument register, the others
   keep the saved values *)
Theorem C16_args_regs r args r' :
  prepare_registers r arg_regs args = Ok r' ->
  map r' (firstn (length args) arg_regs) = args /\
  (forall x, ~ In x arg_regs -> r' x = r x).
Proof.
  intros H.
  destruct args as [|a0 [|a1 [|a2 [|a3 [|a4 [|a5 [|a6 t]]]]]]];
    cbn [prepare_registers arg_regs] in H; try discriminate;
    inversion H; subst r'; (split; [reflexivity|]);
    intros x Hx; destruct x; try reflexivity; exfalso; apply Hx; cbn; tauto.
Qed.

Theorem C16_args_too_many r args :
  (6 < length args)%nat -> prepare_registers r arg_regs args = Panic 21.
Proof.
  intros H. destruct args as [|a0 [|a1 [|a2 [|a3 [|a4 [|a5 [|a6 t]]]]]]]; cbn [length] in H; try lia.
  reflexivity.
Qed.

(* ------------------------------------------------------------------ *)
(* restoration                                                         *)

Lemma to_le_from_le bs :
  (forall b, In b bs -> b < 256) -> to_le (length bs) (from_le bs) = bs.
Proof.
  induction bs as [|b t IH]; intros Hb; cbn [length to_le from_le]; [reflexivity|].
  assert (Hb0 : b < 256) by (apply Hb; left; reflexivity).
  rewrite (N.mul_comm 256). rewrite N.mod_add by lia. rewrite N.mod_small by exact Hb0.
  rewrite N.div_add by lia. rewrite N.div_small by exact Hb0. rewrite N.add_0_l.
  rewrite IH; [reflexivity|]. intros x Hx. apply Hb. right. exact Hx.
Qed.

Lemma to_le_length k w : length (to_le k w) = k.
Proof. revert w; induction k as [|k IH]; intros w; cbn [to_le length]; [reflexivity|]. rewrite IH. reflexivity. Qed.

Definition bytes_ok (m : mem) : Prop := forall a b, m a = Some b -> b < 256.

Section CallProofs.
  Variable fails : N -> bool.
  Variable mmap_ret munmap_ret : N.
  Variable callee : regs -> mem -> callee_out.
  Variable other_insn : mstate -> mstate.

  Notation retrieve := (retrieve fails).
  Notation with_ccx := (with_ccx fails).
  Notation ccx_new := (ccx_new fails).
  Notation call_body := (call_body fails mmap_ret munmap_ret callee other_insn).
  Notation call_fn_raw := (call_fn_raw fails mmap_ret munmap_ret callee other_insn).
  Notation call_fn := (call_fn fails mmap_ret munmap_ret callee other_insn).
  Notation exec_cont := (exec_cont callee other_insn).

  Lemma retrieve_ok c s1 s2 :
    retrieve c s1 = (s2, Ok tt) ->
    (forall x, is_gpr x = true -> rg s2 x = c_regs c x) /\
    (forall a, c_pc c <= a < c_pc c + 8 ->
               mm s2 a = Some (nth (N.to_nat (a - c_pc c)) (word_bytes (c_text c)) 0)) /\
    (forall a, ~ (c_pc c <= a < c_pc c + 8) -> mm s2 a = mm s1 a).
  Proof.
    unfold Call.retrieve, mbind, p_setregs, p_poke.
    destruct (fails 23); [discriminate|]. cbn [set_rg mm rg].
    destruct (fails 24); [discriminate|]. cbn [set_rg mm rg].
    unfold poke. destruct (all_mapped (mm s1) (c_pc c) 8); [|discriminate].
    intros H. assert (Hs := f_equal fst H). cbn [fst] in Hs. subst s2. clear H. cbn [set_mm set_rg rg mm].
    assert (Hf : firstn 8 (word_bytes (c_text c)) = word_bytes (c_text c)) by reflexivity.
    rewrite Hf. split; [|split].
    - intros x Hx. unfold setregs. rewrite Hx. reflexivity.
    - intros a Ha. rewrite put_bytes_eq. unfold word_bytes at 1. rewrite to_le_length.
      destruct (N.leb_spec (c_pc c) a), (N.ltb_spec a (c_pc c + N.of_nat 8)); cbn [andb]; try lia.
      reflexivity.
    - intros a Ha. rewrite put_bytes_eq. unfold word_bytes. rewrite to_le_length.
      destruct (N.leb_spec (c_pc c) a), (N.ltb_spec a (c_pc c + N.of_nat 8)); cbn [andb]; try lia;
        reflexivity.
  Qed.

  Lemma with_ccx_restores {A} c (body : M A) s0 s' r :
    with_ccx c body s0 = (s', r) -> (forall p, r <> Panic p) ->
    (forall x, is_gpr x = true -> rg s' x = c_regs c x) /\
    (forall a, c_pc c <= a < c_pc c + 8 ->
               mm s' a = Some (nth (N.to_nat (a - c_pc c)) (word_bytes (c_text c)) 0)).
  Proof.
    unfold Call.with_ccx. destruct (body s0) as [s1 rb].
    destruct rb as [a|e|p|];
      try (destruct (retrieve c s1) as [s2 rr] eqn:Er;
           destruct rr as [[]|e'|p'|]; intros H Hnp; inversion H; subst;
           try (exfalso; eapply Hnp; reflexivity);
           apply retrieve_ok in Er; destruct Er as (A1 & A2 & _); auto).
  Qed.

  (* C16: whatever happens inside -- success, a failing ptrace call at any site, a failing
     mmap/jmp/munmap, a callee stopped by a signal in the release profile -- when call_fn_raw
     returns (Ok or Err) every general purpose register and the 8 code bytes at pc are what
     they were *)
  Theorem C16_restore_regs_text fn args s0 s' r :
    bytes_ok (mm s0) ->
    call_fn_raw fn args s0 = (s', r) -> (forall p, r <> Panic p) ->
    regs_restored s0 s' /\ text_restored s0 s'.
  Proof.
    intros Hb. unfold Call.call_fn_raw, mbind at 1.
    unfold Call.ccx_new, mbind, p_read8, p_getregs, mret.
    destruct (fails 0).
    { intros H _; inversion H; subst. split; intros ? ?; reflexivity. }
    unfold read8. destruct (all_mapped (mm s0) (rg s0 Rip) 8) eqn:Em.
    2:{ intros H _; inversion H; subst. split; intros ? ?; reflexivity. }
    destruct (fails 1).
    { intros H _; inversion H; subst. split; intros ? ?; reflexivity. }
    intros H Hnp. apply with_ccx_restores in H; [|exact Hnp]. cbn [c_regs c_pc c_text] in H.
    destruct H as [H1 H2]. split.
    - intros x Hx. apply H1. exact Hx.
    - intros a Ha. rewrite (H2 a Ha).
      set (bs := get_bytes (mm s0) (rg s0 Rip) 8).
      assert (Hlen : length bs = 8%nat) by apply get_bytes_length.
      rewrite all_mapped_true in Em.
      assert (Hi : (N.to_nat (a - rg s0 Rip) < 8)%nat) by lia.
      assert (Hall : forall b, In b bs -> b < 256).
      { intros b Hin. apply (In_nth _ _ 0) in Hin. destruct Hin as (i & Hi' & <-).
        rewrite Hlen in Hi'. unfold bs. rewrite nth_get_bytes by exact Hi'.
        destruct (mm s0 (rg s0 Rip + N.of_nat i)) as [b|] eqn:Eb; [|lia]. eapply Hb; eauto. }
      unfold word_bytes. replace 8%nat with (length bs) by exact Hlen.
      rewrite to_le_from_le by exact Hall.
      unfold bs. rewrite nth_get_bytes by exact Hi.
      replace (rg s0 Rip + N.of_nat (N.to_nat (a - rg s0 Rip))) with a by lia.
      specialize (Em a ltac:(lia)). unfold mapped in Em.
      destruct (mm s0 a); [reflexivity|discriminate].
  Qed.

  (* in particular every error return restores *)
  Corollary C16_error_restores fn args s0 s' e :
    bytes_ok (mm s0) -> call_fn_raw fn args s0 = (s', Err e) ->
    regs_restored s0 s' /\ text_restored s0 s'.
  Proof. intros Hb H. eapply C16_restore_regs_text; eauto. intros p; discriminate. Qed.

  (* a call refused while marshalling touches nothing at all *)
  Theorem C16_marshal_error_untouched fn tys lits e s0 :
    call_args_new lits tys = Err e -> call_fn fn tys lits s0 = (s0, Err e).
  Proof. intros H. unfold Call.call_fn. rewrite H. reflexivity. Qed.

  (* ---------------------------------------------------------------- *)
  (* the injected `call`: what it writes                                *)

  (* the callee writes only where [cw] allows *)
  Definition callee_frame (cw : N -> bool) : Prop :=
    forall r m, match callee r m with
                | Returned _ m' | Signalled _ _ m' => forall a, cw a = false -> m' a = m a
                end.

  (* C16 stack, partial: one PTRACE_CONT from the trampoline leaves every byte alone that is
     neither the callee's to write nor one of the 8 bytes just below the stopped rsp.  So the
     stack is unchanged exactly when nothing lives in [rsp-8, rsp) (no red-zone data).
     Missing for the full statement: the composition with the other steps of call_fn_raw
     (their writes go to [pc,pc+8) and the mmap'ed page only; checked on the concrete
     instance [call_frame_example] below, not proved for all states). *)
  Theorem C16_stack_partial cw s :
    callee_frame cw ->
    mm s (rg s Rip) = Some 255 -> mm s (rg s Rip + 1) = Some 208 ->
    forall a, cw a = false -> ~ (rg s Rsp - 8 <= a < rg s Rsp - 8 + 8) ->
              mm (fst (exec_cont s)) a = mm s a.
  Proof.
    intros Hcw H1 H2 a Ha Hslot. unfold Call.exec_cont. rewrite H1, H2.
    unfold poke. destruct (all_mapped (mm s) (rg s Rsp - 8) 8); [|reflexivity].
    assert (Hf : firstn 8 (word_bytes (rg s Rip + 2)) = word_bytes (rg s Rip + 2)) by reflexivity.
    rewrite Hf.
    set (m1 := put_bytes (mm s) (rg s Rsp - 8) (word_bytes (rg s Rip + 2))).
    assert (Hm1 : m1 a = mm s a).
    { unfold m1. rewrite put_bytes_eq. unfold word_bytes. rewrite to_le_length.
      destruct (N.leb_spec (rg s Rsp - 8) a), (N.ltb_spec a (rg s Rsp - 8 + N.of_nat 8)); cbn [andb]; try lia;
        reflexivity. }
    set (r1 := upd (upd (rg s) Rsp (rg s Rsp - 8)) Rip (rg s Rax)).
    pose proof (Hcw r1 m1) as Hc.
    destruct (callee r1 m1) as [r2 m2|sg r2 m2].
    - destruct (m2 (r2 Rip)) as [b|]; [|cbn; rewrite Hc by exact Ha; exact Hm1].
      assert (Hgoal : forall st : mstate * option N, mm (fst st) = m2 -> mm (fst st) a = mm s a).
      { intros st E. rewrite E, Hc by exact Ha. exact Hm1. }
      destruct (N.eq_dec b 204) as [->|Hne]; [apply Hgoal; reflexivity|].
      destruct b as [|pb]; [apply Hgoal; reflexivity|].
      repeat (destruct pb as [pb|pb|]; try (apply Hgoal; reflexivity)).
    - cbn. rewrite Hc by exact Ha. exact Hm1.
  Qed.
End CallProofs.

(* ================================================================== *)
(* concrete machine for the witnesses                                  *)

(* code at 0x401000 (nops), a stack page 0x7ffd000..0x7ffe000 full of 0xAA -- in particular the
   red zone below rsp holds live data -- nothing else mapped *)
Definition W_mem : mem := fun a =>
  if in_range 0x401000 0x100 a then Some 0x90
  else if in_range 0x7ffd000 0x1000 a then Some 0xAA
  else None.
Definition W_regs : regs := fun r =>
  match r with Rip => 0x401010 | Rsp => 0x7ffd808 | Xmm0 => 7 | Eflags => 0x246 | _ => 0 end.
Definition W_s0 : mstate := {| rg := W_regs; mm := W_mem; log := [] |}.
Definition W_page : N := 0x7000000.

(* a leaf function that touches nothing: just `ret` *)
Definition leaf : regs -> mem -> callee_out := fun r m =>
  Returned (upd (upd r Rip (from_le (get_bytes m (r Rsp) 8))) Rsp (r Rsp + 8)) m.
(* a function that uses SSE registers *)
Definition leaf_sse : regs -> mem -> callee_out := fun r m =>
  Returned (upd (upd (upd r Rip (from_le (get_bytes m (r Rsp) 8))) Rsp (r Rsp + 8)) Xmm0 99) m.
(* a function that faults (or receives a signal, or trips a hardware watchpoint) on entry *)
Definition faulting : regs -> mem -> callee_out := fun r m => Signalled 11 r m.

Definition no_fail : N -> bool := fun _ => false.
Definition W_call (fails : N -> bool) (callee : regs -> mem -> callee_out) :=
  call_fn fails W_page 0 callee (fun s => s) 0x402000
          [TScalar (Some ATE_signed) (Some 4); TScalar (Some ATE_unsigned) (Some 1)]
          [LInt (-2); LInt 300] W_s0.

(* non-vacuity: the call succeeds, ran once with the marshalled arguments; registers, code, the
   page, the stack at and above rsp and the whole red zone are as before; the return address
   went to call_rsp rsp - 8, below the red zone *)
Example call_frame_example :
  let '(s', r) := W_call no_fail leaf in
  r = Ok tt /\
  log s' = [(0x402000, [0xFFFFFFFE; 44; 0; 0; 0; 0], 0x7ffd778)] /\
  list_of_regs (rg s') = list_of_regs W_regs /\
  get_bytes (mm s') 0x401010 8 = get_bytes W_mem 0x401010 8 /\
  mm s' W_page = None /\
  get_bytes (mm s') 0x7ffd808 16 = get_bytes W_mem 0x7ffd808 16 /\
  get_bytes (mm s') 0x7ffd788 128 = get_bytes W_mem 0x7ffd788 128 /\
  get_bytes (mm s') 0x7ffd778 8 = [0x02; 0; 0; 0x07; 0; 0; 0; 0].
Proof. vm_compute. repeat split; reflexivity. Qed.

(* fix_1: the stack pointer given to the injected `call` *)
Lemma call_rsp_spec sp :
  128 <= sp < WORD -> call_rsp sp <= sp - 128 /\ sp - 128 < call_rsp sp + 16 /\ call_rsp sp mod 16 = 0.
Proof.
  intros H. unfold call_rsp. cbv zeta.
  assert (E : (sp + WORD - 128) mod WORD = sp - 128).
  { replace (sp + WORD - 128) with (sp - 128 + 1 * WORD) by lia.
    rewrite N.mod_add by (unfold WORD; lia). apply N.mod_small. lia. }
  rewrite E. set (v := sp - 128).
  pose proof (N.mod_upper_bound v 16 ltac:(lia)) as Hm.
  pose proof (N.mod_le v 16 ltac:(lia)) as Hl.
  split; [lia|]. split; [lia|].
  rewrite (N.div_mod v 16) at 1 by lia.
  replace (16 * (v / 16) + v mod 16 - v mod 16) with ((v / 16) * 16) by lia.
  apply N.mod_mul. lia.
Qed.

(* the red zone and everything above it survive the injected call: with the stack pointer of
   h_call_fn, one PTRACE_CONT changes only the callee's own writes and 8 bytes below rsp-128 *)
Theorem C16_redzone_kept callee other_insn cw s sp0 :
  callee_frame callee cw ->
  mm s (rg s Rip) = Some 255 -> mm s (rg s Rip + 1) = Some 208 ->
  256 <= sp0 < WORD -> rg s Rsp = call_rsp sp0 ->
  forall a, cw a = false -> sp0 - 128 <= a ->
            mm (fst (exec_cont callee other_insn s)) a = mm s a.
Proof.
  intros Hcw H1 H2 Hsp Hr a Ha Hge.
  apply (C16_stack_partial (fun _ => false) callee other_insn cw s Hcw H1 H2 a Ha).
  rewrite Hr. destruct (call_rsp_spec sp0 ltac:(lia)) as (A & B & _). lia.
Qed.

(* and the callee is entered as the ABI demands: rsp + 8 is a multiple of 16 *)
Theorem C16_aligned :
  let out := W_call no_fail leaf in
  snd out = Ok tt /\ exists ev, log (fst out) = [ev] /\ (snd ev + 8) mod 16 = 0.
Proof.
  cbv zeta. split; [vm_compute; reflexivity|].
  exists (0x402000, [0xFFFFFFFE; 44; 0; 0; 0; 0], 0x7ffd778).
  split; [vm_compute; reflexivity|]. vm_compute. reflexivity.
Qed.

(* registers outside user_regs_struct are neither saved nor restored *)
Theorem C16_fpregs_refuted :
  let out := W_call no_fail leaf_sse in
  snd out = Ok tt /\ list_of_regs (rg (fst out)) = list_of_regs (rg W_s0) /\
  ~ all_regs_restored W_s0 (fst out).
Proof.
  cbv zeta. split; [vm_compute; reflexivity|]. split; [vm_compute; reflexivity|].
  intros H. specialize (H Xmm0). vm_compute in H. discriminate.
Qed.

(* fix_2: an error after the mmap succeeded (a failing ptrace/waitpid call at any site of jump /
   call_fn, 7..15): the error is reported, registers and code are restored and the page is
   unmapped again *)
Theorem C16_error_no_leak :
  forallb (fun k =>
    let out := W_call (fun j => j =? k) leaf in
    match snd out, mm (fst out) W_page with
    | Err _, None =>
        list_eqb N.eqb (list_of_regs (rg (fst out))) (list_of_regs (rg W_s0)) &&
        list_eqb N.eqb (get_bytes (mm (fst out)) 0x401010 8) (get_bytes (mm W_s0) 0x401010 8)
    | _, _ => false
    end) [7; 8; 9; 10; 11; 12; 13; 14; 15] = true.
Proof. vm_compute. reflexivity. Qed.

(* what remains: when the deallocation itself fails (here the PTRACE_SINGLESTEP of the munmap
   syscall, site 19) the page stays *)
Theorem C16_dealloc_error_leak_refuted :
  exists fails e,
    let out := W_call fails leaf in
    snd out = Err e /\ mm W_s0 W_page = None /\ mm (fst out) W_page <> None.
Proof.
  exists (fun k => k =? 19), 119. cbv zeta.
  split; [vm_compute; reflexivity|]. split; [vm_compute; reflexivity|]. vm_compute. discriminate.
Qed.

(* fix_3: a callee that does not run to its `ret` (fault, signal, hardware watchpoint trap) is
   reported as an error in every build profile; registers, code and the page are restored *)
Theorem C16_signal_reported :
  let out := W_call no_fail faulting in
  snd out = Err E_INTERRUPTED /\
  list_of_regs (rg (fst out)) = list_of_regs (rg W_s0) /\
  get_bytes (mm (fst out)) 0x401010 8 = get_bytes (mm W_s0) 0x401010 8 /\
  mm (fst out) W_page = None.
Proof. cbv zeta. repeat split; vm_compute; reflexivity. Qed.

(* ------------------------------------------------------------------ *)
(* breakpoints around the call                                         *)

(* when no disable/enable fails, the armed set is what it was *)
Theorem C16_brkpts_rearmed {A} bs (cb : res A) :
  (forall a e, In (a, e) bs -> e = true) ->
  with_disabled_brkpts (fun _ => false) (fun _ => false) bs cb = (bs, cb).
Proof.
  intros Hall. unfold with_disabled_brkpts.
  assert (D : forall l, disable_all (fun _ => false) l = (map (fun p => (fst p, false)) l, Ok tt)).
  { induction l as [|[a e] t IH]; cbn [disable_all map fst]; [reflexivity|]. rewrite IH. reflexivity. }
  assert (E : forall l, enable_all (fun _ => false) l = (map (fun p => (fst p, true)) l, Ok tt)).
  { induction l as [|[a e] t IH]; cbn [enable_all map fst]; [reflexivity|]. rewrite IH. reflexivity. }
  rewrite D, E. rewrite map_map. cbn [fst].
  f_equal. induction bs as [|[a e] t IH]; cbn [map fst]; [reflexivity|].
  rewrite IH by (intros a' e' H; eapply Hall; right; exact H).
  rewrite (Hall a e) by (left; reflexivity). reflexivity.
Qed.

(* `brkpt.disable()?` in the first loop: a failure on the second breakpoint returns at once,
   the first one stays disabled for good, the error path never re-enables it *)
Theorem C16_brkpt_disable_error_refuted :
  exists dis bs bs' (cb : res unit) e,
    with_disabled_brkpts dis (fun _ => false) bs cb = (bs', Err e) /\
    In (0x401000, true) bs /\ In (0x401000, false) bs'.
Proof.
  exists (fun a => a =? 0x402000), [(0x401000, true); (0x402000, true)],
         [(0x401000, false); (0x402000, true)], (Ok tt), 200.
  split; [vm_compute; reflexivity|]. split; [left; reflexivity|left; reflexivity].
Qed.

(* ------------------------------------------------------------------ *)
(* CallCache                                                           *)

Lemma ckey_eqb_refl k : ckey_eqb k k = true.
Proof.
  assert (L : forall l, bstr_eqb l l = true).
  { induction l as [|x t IH]; [reflexivity|]. unfold bstr_eqb in *. cbn [list_eqb]. rewrite N.eqb_refl, IH. reflexivity. }
  destruct k as [a [b|]]; unfold ckey_eqb; cbn [fst snd]; rewrite L; [rewrite L|]; reflexivity.
Qed.

(* every entry was produced by the resolver that is asking now *)
Definition cache_consistent (c : call_cache) (resolve : ckey -> res cvalue) : Prop :=
  forall k v, alist_get ckey_eqb c k = Some v -> resolve k = Ok v.

Fixpoint cache_consistent_b (keys : list ckey) (c : call_cache) (resolve : ckey -> res cvalue)
    (veqb : cvalue -> cvalue -> bool) : bool :=
  match keys with
  | [] => true
  | k :: t => match alist_get ckey_eqb c k, resolve k with
              | Some v, Ok v' => veqb v v'
              | None, _ => true
              | _, _ => false
              end && cache_consistent_b t c resolve veqb
  end.

(* C16 cache, partial: as long as the process-global cache has only ever been filled by the
   same debugger for the same load of the same program, a look-up returns what a fresh
   resolution returns *)
Theorem C16_cache_partial c resolve k c' v :
  cache_consistent c resolve ->
  get_or_insert c resolve k = (c', Ok v) -> cache_spec resolve k = Ok v.
Proof.
  intros Hc. unfold get_or_insert, cache_spec.
  destruct (alist_get ckey_eqb c k) as [v0|] eqn:E.
  - intros H; inversion H; subst. apply Hc. exact E.
  - destruct (resolve k) as [v0|e|e|]; intros H; inversion H; subst. reflexivity.
Qed.

Example cache_partial_example :
  let resolve := fun k : ckey => Ok (0x402000, [TPointer]) in
  get_or_insert (fst (get_or_insert [] resolve ([102], None))) resolve ([102], None)
  = ([(([102], None), (0x402000, [TPointer]))], Ok (0x402000, [TPointer])).
Proof. vm_compute. reflexivity. Qed.

(* the key is (linkage name, name) only: a second debugger in the same process -- or the same
   one after the program was rebuilt or loaded elsewhere -- gets the first one's address and
   parameter list for a function of the same name *)
Theorem C16_cache_refuted :
  exists (resolve1 resolve2 : ckey -> res cvalue) k v1 v2 c1,
    get_or_insert [] resolve1 k = (c1, Ok v1) /\
    cache_spec resolve2 k = Ok v2 /\ v1 <> v2 /\
    snd (get_or_insert c1 resolve2 k) = Ok v1.
Proof.
  exists (fun _ => Ok (0x402000, [TScalar (Some ATE_signed) (Some 4)])),
         (fun _ => Ok (0x5550000, [TPointer; TPointer])),
         ([102; 111; 111], None),
         (0x402000, [TScalar (Some ATE_signed) (Some 4)]), (0x5550000, [TPointer; TPointer]),
         [(([102; 111; 111], None), (0x402000, [TScalar (Some ATE_signed) (Some 4)]))].
  split; [vm_compute; reflexivity|]. split; [reflexivity|]. split; [discriminate|].
  vm_compute. reflexivity.
Qed.

(* ------------------------------------------------------------------ *)
(* correspondence checkers on examples                                 *)

Example marg_case_example :
  marg_check (LInt (-2), TScalar (Some ATE_signed) (Some 4), Ok 0xFFFFFFFE) = 0.
Proof. vm_compute. reflexivity. Qed.

Example call_case_example :
  call_check {| cc_regs_before := [1; 2; 3]; cc_regs_after := [1; 2; 3]; cc_rsp := 0x7ffd808;
                cc_windows := [(0x7ffd800, [0xAA; 0xAA; 0xAA; 0xAA; 0xAA; 0xAA; 0xAA; 0xAA; 1; 2],
                                           [0x02; 0; 0; 0x07; 0; 0; 0; 0; 1; 2])] |} = 2.
Proof. vm_compute. reflexivity. Qed.
