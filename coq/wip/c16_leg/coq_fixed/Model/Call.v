(* Model of src/debugger/call/mod.rs (injected function calls), call/cache.rs (CallCache).
   No proofs here.

   Machine: registers are a finite map reg -> N (the 27 fields of user_regs_struct plus one
   stand-in [Xmm0] for every piece of register state PTRACE_GETREGS/SETREGS does not carry),
   memory is Mem.mem (N -> option N, None = unmapped).  The kernel, the CPU on unknown
   instructions and the callee are Section variables. *)
From BS Require Import Model.Base Model.Mem.
Open Scope N_scope.

(* ------------------------------------------------------------------ *)
(* registers                                                           *)

Inductive reg :=
| Rax | Rbx | Rcx | Rdx | Rdi | Rsi | Rbp | Rsp
| R8 | R9 | R10 | R11 | R12 | R13 | R14 | R15
| Rip | Eflags | Cs | OrigRax | FsBase | GsBase | Fs | Gs | Ss | Ds | Es
| Xmm0.

Definition reg_idx (r : reg) : N :=
  match r with
  | Rax => 0 | Rbx => 1 | Rcx => 2 | Rdx => 3 | Rdi => 4 | Rsi => 5 | Rbp => 6 | Rsp => 7
  | R8 => 8 | R9 => 9 | R10 => 10 | R11 => 11 | R12 => 12 | R13 => 13 | R14 => 14 | R15 => 15
  | Rip => 16 | Eflags => 17 | Cs => 18 | OrigRax => 19 | FsBase => 20 | GsBase => 21
  | Fs => 22 | Gs => 23 | Ss => 24 | Ds => 25 | Es => 26 | Xmm0 => 27
  end.
Definition reg_eqb (a b : reg) : bool := reg_idx a =? reg_idx b.

Definition regs := reg -> N.
Definition upd (r : regs) (x : reg) (v : N) : regs := fun y => if reg_eqb y x then v else r y.

(* what PTRACE_GETREGS / PTRACE_SETREGS carry (register.rs:222 current, :308 persist) *)
Definition gprs : list reg :=
  [Rax; Rbx; Rcx; Rdx; Rdi; Rsi; Rbp; Rsp; R8; R9; R10; R11; R12; R13; R14; R15;
   Rip; Eflags; Cs; OrigRax; FsBase; GsBase; Fs; Gs; Ss; Ds; Es].
Definition is_gpr (r : reg) : bool := negb (reg_eqb r Xmm0).
Definition setregs (cur new : regs) : regs := fun y => if is_gpr y then new y else cur y.

(* printable register files: the 27 values in [gprs] order, then the Xmm0 stand-in *)
Definition regs_of_list (l : list N) (x : N) : regs :=
  fun r => if is_gpr r then nth (N.to_nat (reg_idx r)) l 0 else x.
Definition list_of_regs (r : regs) : list N := map r gprs.

(* ------------------------------------------------------------------ *)
(* words and bytes                                                     *)

Fixpoint to_le (k : nat) (w : N) : list N :=
  match k with O => [] | S k' => w mod 256 :: to_le k' (w / 256) end.
Fixpoint from_le (bs : list N) : N :=
  match bs with [] => 0 | b :: t => b + 256 * from_le t end.
Definition word_bytes (w : N) : list N := to_le 8 w.

(* iN::to_le_bytes of the two's complement truncation of v: Z.modulo / Z.div floor, which
   is exactly the arithmetic behaviour of `as iN` followed by to_le_bytes *)
Fixpoint to_le_z (k : nat) (v : Z) : list N :=
  match k with O => [] | S k' => Z.to_N (v mod 256)%Z :: to_le_z k' (v / 256)%Z end.

(* `let mut bytes = [0u8; 8]; bytes[..k].copy_from_slice(&b)` *)
Definition pad8 (bs : list N) : list N := firstn 8 (bs ++ repeat 0 8).

(* ------------------------------------------------------------------ *)
(* argument marshalling: call/mod.rs:62 liter_to_arg_bin_repr, :193 CallArgs::new,
   :215 prepare_registers, :180 get_reg_for_no                         *)

Inductive enc := ATE_signed_char | ATE_unsigned_char | ATE_signed | ATE_unsigned | ATE_boolean | ATE_other.
Inductive ty := TScalar (e : option enc) (byte_size : option N) | TPointer | TOther.
Inductive lit :=
| LInt (v : Z)          (* Literal::Int(i64) *)
| LAddr (a : N)         (* Literal::Address(usize) *)
| LBool (b : bool)
| LFloat | LString | LEnum | LArray | LAssoc.

Definition E_ARGCOUNT : N := 1.
Definition E_TOOMANY : N := 2.
Definition E_UNSUP_LIT : N := 3.
Definition E_UNKNOWN_TYPE : N := 4.
Definition E_LIT_CAST : N := 5.
Definition E_UNSUP_TYPE : N := 6.
Definition E_NOT_FOUND : N := 7.
Definition E_MMAP : N := 8.
Definition E_MUNMAP : N := 9.
Definition E_JMP : N := 10.
Definition E_INTERRUPTED : N := 11.      (* CallError::Interrupted (fix_3) *)

Definition int_image (k : nat) (v : Z) : N := from_le (pad8 (to_le_z k v)).

Definition sized_image (size : option N) (v : Z) : res N :=
  match size with
  | Some 1 => Ok (int_image 1 v)
  | Some 2 => Ok (int_image 2 v)
  | Some 4 => Ok (int_image 4 v)
  | Some 8 => Ok (int_image 8 v)
  | _ => Err E_UNSUP_TYPE            (* byte_size.unwrap_or(0) matches no arm *)
  end.

Definition liter_to_arg (l : lit) (t : ty) : res N :=
  match l with
  | LString | LFloat | LEnum | LArray | LAssoc => Err E_UNSUP_LIT
  | LInt v =>
      match t with
      | TScalar None _ => Err E_UNKNOWN_TYPE
      | TScalar (Some ATE_signed_char) _ => Ok (int_image 1 v)
      | TScalar (Some ATE_unsigned_char) _ => Ok (int_image 1 v)
      | TScalar (Some ATE_signed) sz => sized_image sz v
      | TScalar (Some ATE_unsigned) sz => sized_image sz v
      | TScalar (Some _) _ => Err E_LIT_CAST
      | _ => Err E_LIT_CAST
      end
  | LAddr a => match t with TPointer => Ok a | _ => Err E_LIT_CAST end
  | LBool b =>
      match t with
      | TScalar (Some ATE_boolean) _ => Ok (if b then 1 else 0)
      | _ => Err E_LIT_CAST
      end
  end.

(* the iterator `.map(..).collect::<Result<_,_>>()` stops at the first Err, in order.
   Panic 20 = fn_params[idx] out of range, unreachable after the length check *)
Fixpoint marshal_list (ls : list lit) (ts : list ty) : res (list N) :=
  match ls, ts with
  | [], _ => Ok []
  | l :: ls', t :: ts' => v <- liter_to_arg l t ;; r <- marshal_list ls' ts' ;; Ok (v :: r)
  | _ :: _, [] => Panic 20
  end.

Definition call_args_new (ls : list lit) (ts : list ty) : res (list N) :=
  if negb (Nat.eqb (length ls) (length ts)) then Err E_ARGCOUNT
  else if Nat.ltb 6 (length ls) then Err E_TOOMANY
  else marshal_list ls ts.

Definition arg_regs : list reg := [Rdi; Rsi; Rdx; Rcx; R8; R9].

(* Panic 21 = get_reg_for_no's unreachable!() for an index >= 6 *)
Fixpoint prepare_registers (r : regs) (rs : list reg) (args : list N) : res regs :=
  match args, rs with
  | [], _ => Ok r
  | a :: t, x :: xs => prepare_registers (upd r x a) xs t
  | _ :: _, [] => Panic 21
  end.

(* ---- specification of marshalling ---- *)
(* the register image the property asks for: the literal reduced modulo 2^(8*size), the upper
   bits zero (that is the extension the code performs, for signed types too) *)
Definition ty_size (t : ty) : option N :=
  match t with
  | TScalar (Some ATE_signed_char) _ | TScalar (Some ATE_unsigned_char) _ => Some 1
  | TScalar (Some ATE_signed) (Some s) | TScalar (Some ATE_unsigned) (Some s) =>
      if (s =? 1) || (s =? 2) || (s =? 4) || (s =? 8) then Some s else None
  | _ => None
  end.

Definition arg_spec (l : lit) (t : ty) : option N :=
  match l, t with
  | LInt v, _ => match ty_size t with Some s => Some (Z.to_N (v mod 2 ^ (8 * Z.of_N s))%Z) | None => None end
  | LAddr a, TPointer => Some a
  | LBool b, TScalar (Some ATE_boolean) _ => Some (if b then 1 else 0)
  | _, _ => None
  end.

(* ------------------------------------------------------------------ *)
(* the machine                                                         *)

Definition call_event : Type := (N * list N * N)%type.   (* (entry rip, rdi..r9 at entry, rsp at entry) *)

Record mstate := { rg : regs; mm : mem; log : list call_event }.
Definition set_rg (s : mstate) (r : regs) : mstate := {| rg := r; mm := mm s; log := log s |}.
Definition set_mm (s : mstate) (m : mem) : mstate := {| rg := rg s; mm := m; log := log s |}.

Inductive callee_out :=
| Returned (r : regs) (m : mem)                 (* state right after the callee's `ret` *)
| Signalled (sig : N) (r : regs) (m : mem).     (* stopped inside the callee: fault, signal, watchpoint trap *)

Definition PAGE : N := 4096.
Definition in_range (lo len a : N) : bool := (lo <=? a) && (a <? lo + len).
Definition map_page (m : mem) (p : N) : mem := fun a => if in_range p PAGE a then Some 0 else m a.
Definition unmap (m : mem) (p len : N) : mem := fun a => if in_range p len a then None else m a.
Definition is_err_ret (v : N) : bool := 2 ^ 64 - 4096 <? v.   (* raw syscall error: -4095..-1 *)

Definition read8 (m : mem) (a : N) : res (list N) :=
  if all_mapped m a 8 then Ok (get_bytes m a 8) else Err EIO.

(* trampoline constants, call/mod.rs:279, :306-307, :344-345, :367-368 *)
Definition CALL_FN : N := 0xCCD0FF.                       (* FF D0 CC: call *%rax ; int3 *)
Definition JMP_RAX : N := 0xE0FF.                         (* FF E0: jmp *%rax *)
Definition SYSCALL : N := 0x050F.                         (* 0F 05: syscall *)
Definition LOW16_MASK : N := 0xFFFFFFFFFFFF0000.
Definition patch (text insn : N) : N := N.lor (N.land text LOW16_MASK) insn.

Definition SYS_MMAP : N := 9.
Definition SYS_MUNMAP : N := 11.
Definition PROT_RWX : N := 7.
Definition MAP_PRIV_ANON : N := 34.
Definition MINUS1 : N := 2 ^ 64 - 1.
Definition SIGSEGV : N := 11.

(* fix_1: `sp.wrapping_sub(128) & !0xF` -- below the red zone, 16-byte aligned *)
Definition WORD : N := 2 ^ 64.
Definition call_rsp (sp : N) : N := let v := (sp + WORD - 128) mod WORD in v - v mod 16.

(* Result::and *)
Definition and_res {A} (r1 r2 : res A) : res A := match r1 with Ok _ => r2 | _ => r1 end.

Section Call.
  Variable fails : N -> bool.        (* does the ptrace/waitpid call at site k return an error *)
  Variable mmap_ret : N.             (* rax after the injected mmap syscall *)
  Variable munmap_ret : N.           (* rax after the injected munmap syscall *)
  Variable callee : regs -> mem -> callee_out.
  Variable other_insn : mstate -> mstate.   (* the CPU on anything but the three injected instructions *)

  Definition M (A : Type) : Type := mstate -> mstate * res A.
  Definition mret {A} (a : A) : M A := fun s => (s, Ok a).
  Definition merr {A} (c : N) : M A := fun s => (s, Err c).
  Definition mbind {A B} (m : M A) (k : A -> M B) : M B :=
    fun s => let (s1, r) := m s in
             match r with
             | Ok a => k a s1
             | Err c => (s1, Err c)
             | Panic p => (s1, Panic p)
             | OutOfFuel => (s1, OutOfFuel)
             end.
  Notation "x <~ m ;; k" := (mbind m (fun x => k)) (at level 61, m at next level, right associativity).

  (* --- the CPU --- *)
  Definition exec_step (s : mstate) : mstate :=
    let r := rg s in
    let ip := r Rip in
    match mm s ip, mm s (ip + 1) with
    | Some 15, Some 5 =>                                   (* 0F 05 syscall *)
        let r1 := upd (upd (upd r Rip (ip + 2)) Rcx (ip + 2)) R11 (r Eflags) in
        if r Rax =? SYS_MMAP then
          if is_err_ret mmap_ret then set_rg s (upd r1 Rax mmap_ret)
          else set_mm (set_rg s (upd r1 Rax mmap_ret)) (map_page (mm s) mmap_ret)
        else if r Rax =? SYS_MUNMAP then
          if munmap_ret =? 0 then set_mm (set_rg s (upd r1 Rax 0)) (unmap (mm s) (r Rdi) (r Rsi))
          else set_rg s (upd r1 Rax munmap_ret)
        else other_insn s
    | Some 255, Some 224 => set_rg s (upd r Rip (r Rax))  (* FF E0 jmp *%rax *)
    | _, _ => other_insn s
    end.

  (* PTRACE_CONT from the trampoline: `call *%rax` pushes the return address at rsp-8 (rsp is
     what h_call_fn set: below the red zone and aligned, fix_1), the callee runs, its `ret` lands on the int3.
     Result: new state and the stop signal (None = the expected int3 SIGTRAP). *)
  Definition exec_cont (s : mstate) : mstate * option N :=
    let r := rg s in
    let ip := r Rip in
    match mm s ip, mm s (ip + 1) with
    | Some 255, Some 208 =>                                (* FF D0 call *%rax *)
        let sp := r Rsp - 8 in
        match poke (mm s) sp (word_bytes (ip + 2)) with
        | Ok m1 =>
            let r1 := upd (upd r Rsp sp) Rip (r Rax) in
            let lg := log s ++ [(r Rax, map r1 arg_regs, sp)] in
            match callee r1 m1 with
            | Returned r2 m2 =>
                match m2 (r2 Rip) with
                | Some 204 => ({| rg := upd r2 Rip (r2 Rip + 1); mm := m2; log := lg |}, None)
                | _ => ({| rg := r2; mm := m2; log := lg |}, Some SIGSEGV)
                end
            | Signalled sg r2 m2 => ({| rg := r2; mm := m2; log := lg |}, Some sg)
            end
        | _ => (s, Some SIGSEGV)
        end
    | _, _ => (other_insn s, Some SIGSEGV)
    end.

  (* --- ptrace primitives, each with its site number --- *)
  Definition p_setregs (k : N) (r : regs) : M unit :=
    fun s => if fails k then (s, Err (100 + k)) else (set_rg s (setregs (rg s) r), Ok tt).
  Definition p_getregs (k : N) : M regs :=
    fun s => if fails k then (s, Err (100 + k)) else (s, Ok (rg s)).
  Definition p_poke (k a w : N) : M unit :=
    fun s => if fails k then (s, Err (100 + k)) else
             match poke (mm s) a (word_bytes w) with
             | Ok m' => (set_mm s m', Ok tt)
             | Err c => (s, Err c)
             | Panic p => (s, Panic p)
             | OutOfFuel => (s, OutOfFuel)
             end.
  Definition p_read8 (k a : N) : M N :=
    fun s => if fails k then (s, Err (100 + k)) else
             match read8 (mm s) a with
             | Ok bs => (s, Ok (from_le bs))
             | Err c => (s, Err c)
             | Panic p => (s, Panic p)
             | OutOfFuel => (s, OutOfFuel)
             end.
  (* ptrace::step at site k, waitpid at site k+1 *)
  Definition p_step (k : N) : M unit :=
    fun s => if fails k then (s, Err (100 + k)) else
             let s' := exec_step s in
             if fails (k + 1) then (s', Err (100 + k + 1)) else (s', Ok tt).
  (* ptrace::cont at site k, waitpid at k+1; any stop but the int3 SIGTRAP is CallError::Interrupted (fix_3) *)
  Definition p_cont (k : N) : M unit :=
    fun s => if fails k then (s, Err (100 + k)) else
             let (s', sg) := exec_cont s in
             if fails (k + 1) then (s', Err (100 + k + 1)) else
             match sg with
             | Some _ => (s', Err E_INTERRUPTED)
             | None => (s', Ok tt)
             end.

  Record ccx := { c_pc : N; c_regs : regs; c_text : N }.

  (* call/mod.rs:236 CallContext::new  (sites 0, 1) *)
  Definition ccx_new : M ccx :=
    fun s => let pc := rg s Rip in
             (t <~ p_read8 0 pc ;; r <~ p_getregs 1 ;; mret {| c_pc := pc; c_regs := r; c_text := t |}) s.

  (* call/mod.rs:252 retrieve_original_state  (sites 23, 24) *)
  Definition retrieve (c : ccx) : M unit :=
    _ <~ p_setregs 23 (c_regs c) ;; p_poke 24 (c_pc c) (c_text c).

  (* call/mod.rs:258 with_ccx: the body's Err still reaches the restoration; a panic in the body
     unwinds past it; a failing restoration is `.expect(..)` = Panic 1 *)
  Definition with_ccx {A} (c : ccx) (body : M A) : M A :=
    fun s => let (s1, r) := body s in
             match r with
             | Panic p => (s1, Panic p)
             | _ => let (s2, rr) := retrieve c s1 in
                    match rr with Ok _ => (s2, r) | _ => (s2, Panic 1) end
             end.

  (* call/mod.rs:324 mmap  (sites 2..6) *)
  Definition h_mmap (c : ccx) : M N :=
    let r := upd (upd (upd (upd (upd (upd (upd (c_regs c) Rax SYS_MMAP) Rdi 0) Rsi PAGE)
                  Rdx PROT_RWX) R10 MAP_PRIV_ANON) R8 MINUS1) R9 0 in
    _ <~ p_setregs 2 r ;;
    _ <~ p_poke 3 (c_pc c) (patch (c_text c) SYSCALL) ;;
    _ <~ p_step 4 ;;
    r' <~ p_getregs 6 ;;
    if r' Rax =? MINUS1 then merr E_MMAP else mret (r' Rax).

  (* call/mod.rs:299 jump  (sites 7..11) *)
  Definition h_jump (c : ccx) (dest : N) : M unit :=
    _ <~ p_setregs 7 (upd (c_regs c) Rax dest) ;;
    _ <~ p_poke 8 (c_pc c) (patch (c_text c) JMP_RAX) ;;
    _ <~ p_step 9 ;;
    r' <~ p_getregs 11 ;;
    if r' Rip =? dest then mret tt else merr E_JMP.

  (* call/mod.rs:275 call_fn  (sites 12..15) *)
  Definition h_call_fn (c : ccx) (rip fn_addr : N) (args : list N) : M unit :=
    _ <~ p_poke 12 rip CALL_FN ;;
    match prepare_registers (c_regs c) arg_regs args with
    | Ok r0 =>
        _ <~ p_setregs 13 (upd (upd (upd r0 Rax fn_addr) Rip rip) Rsp (call_rsp (c_regs c Rsp))) ;;
        p_cont 14
    | Err e => merr e
    | Panic p => fun s => (s, Panic p)
    | OutOfFuel => fun s => (s, OutOfFuel)
    end.

  (* call/mod.rs:366 munmap  (sites 17..22) *)
  Definition h_munmap (c : ccx) (addr : N) : M unit :=
    _ <~ p_poke 17 (c_pc c) (patch (c_text c) SYSCALL) ;;
    _ <~ p_setregs 18 (upd (upd (upd (c_regs c) Rax SYS_MUNMAP) Rdi addr) Rsi PAGE) ;;
    _ <~ p_step 19 ;;
    r' <~ p_getregs 21 ;;
    if r' Rax =? 0 then p_poke 22 (c_pc c) (c_text c) else merr E_MUNMAP.

  (* call/mod.rs:468-485, the closure given to with_ccx.  fix_2: after a successful mmap the
     registers are reset and the page is unmapped whatever jump / call_fn returned;
     `call_result.and(dealloc_result)` *)
  Definition call_body (c : ccx) (fn_addr : N) (args : list N) : M unit :=
    p <~ h_mmap c ;;
    fun s =>
      let (s1, r1) := (_ <~ h_jump c p ;; h_call_fn c p fn_addr args) s in
      match r1 with
      | Panic q => (s1, Panic q)
      | OutOfFuel => (s1, OutOfFuel)
      | _ =>
          let (s2, r2) := (_ <~ p_setregs 16 (c_regs c) ;; h_munmap c p) s1 in
          (s2, match r2 with Panic q => Panic q | OutOfFuel => OutOfFuel | _ => and_res r1 r2 end)
      end.

  (* call/mod.rs:465 call_fn_raw *)
  Definition call_fn_raw (fn_addr : N) (args : list N) : M unit :=
    c <~ ccx_new ;; with_ccx c (call_body c fn_addr args).

  (* call/mod.rs:488 call_fn, after the cache look-up gave (fn_addr, param types) *)
  Definition call_fn (fn_addr : N) (tys : list ty) (lits : list lit) : M unit :=
    match call_args_new lits tys with
    | Ok args => call_fn_raw fn_addr args
    | Err e => merr e
    | Panic p => fun s => (s, Panic p)
    | OutOfFuel => fun s => (s, OutOfFuel)
    end.
End Call.

(* ------------------------------------------------------------------ *)
(* breakpoints around the call: call/mod.rs:444 with_disabled_brkpts.
   Only what matters for the error paths: which breakpoints are armed afterwards. *)

Definition bp_set := list (N * bool).                     (* (address, armed) *)

Section Brk.
  Variable dis_fails : N -> bool.                         (* brkpt.disable() fails for this address *)
  Variable en_fails : N -> bool.

  (* `for b in active { b.disable()? }`: the first failure returns, the ones already disabled
     stay disabled, the callback and the re-enabling loop are skipped *)
  Fixpoint disable_all (bs : bp_set) : bp_set * res unit :=
    match bs with
    | [] => ([], Ok tt)
    | (a, e) :: t =>
        if dis_fails a then ((a, e) :: t, Err 200)
        else let (t', r) := disable_all t in ((a, false) :: t', r)
    end.

  (* `for b in active { b.enable().expect(..) }`: Panic 2 *)
  Fixpoint enable_all (bs : bp_set) : bp_set * res unit :=
    match bs with
    | [] => ([], Ok tt)
    | (a, e) :: t =>
        if en_fails a then ((a, e) :: t, Panic 2)
        else let (t', r) := enable_all t in ((a, true) :: t', r)
    end.

  Definition with_disabled_brkpts {A} (bs : bp_set) (cb : res A) : bp_set * res A :=
    let (b1, r1) := disable_all bs in
    match r1 with
    | Ok _ =>
        let (b2, r2) := enable_all b1 in
        match r2 with Ok _ => (b2, cb) | Err c => (b2, Err c) | Panic p => (b2, Panic p) | OutOfFuel => (b2, OutOfFuel) end
    | Err c => (b1, Err c)
    | Panic p => (b1, Panic p)
    | OutOfFuel => (b1, OutOfFuel)
    end.
End Brk.

(* ------------------------------------------------------------------ *)
(* CallCache: call/cache.rs:59-95, context.rs:29 (one static per process, never cleared) *)

Definition ckey : Type := (bstr * option bstr)%type.      (* (linkage_name, name) -- nothing else *)
Definition cvalue : Type := (N * list ty)%type.           (* (relocated fn address, param types) *)
Definition ckey_eqb (a b : ckey) : bool :=
  bstr_eqb (fst a) (fst b) &&
  match snd a, snd b with
  | None, None => true
  | Some x, Some y => bstr_eqb x y
  | _, _ => false
  end.
Definition call_cache := list (ckey * cvalue).

(* [resolve] is Debugger::search_fn_to_call + relocation for the debugger/process that asks *)
Definition get_or_insert (c : call_cache) (resolve : ckey -> res cvalue) (k : ckey)
  : call_cache * res cvalue :=
  match alist_get ckey_eqb c k with
  | Some v => (c, Ok v)
  | None => match resolve k with
            | Ok v => (alist_set c k v, Ok v)
            | Err e => (c, Err e)
            | Panic p => (c, Panic p)
            | OutOfFuel => (c, OutOfFuel)
            end
  end.

(* specification: the answer is the one the asking debugger would compute now *)
Definition cache_spec (resolve : ckey -> res cvalue) (k : ckey) : res cvalue := resolve k.

(* ------------------------------------------------------------------ *)
(* specification of a call                                             *)

Definition regs_restored (s0 s : mstate) : Prop := forall r, is_gpr r = true -> rg s r = rg s0 r.
Definition all_regs_restored (s0 s : mstate) : Prop := forall r, rg s r = rg s0 r.
Definition text_restored (s0 s : mstate) : Prop :=
  forall a, rg s0 Rip <= a < rg s0 Rip + 8 -> mm s a = mm s0 a.
(* no trace: memory identical outside what the callee itself may write ([cw]) *)
Definition mem_untouched (cw : N -> bool) (s0 s : mstate) : Prop :=
  forall a, cw a = false -> mm s a = mm s0 a.
(* what the code achieves: the return address slot lies below the red zone (fix_1) *)
Definition mem_untouched_but_slot (cw : N -> bool) (s0 s : mstate) : Prop :=
  forall a, cw a = false -> ~ (call_rsp (rg s0 Rsp) - 8 <= a < call_rsp (rg s0 Rsp)) -> mm s a = mm s0 a.
Definition ran_once (fn_addr : N) (args : list N) (s0 s : mstate) : Prop :=
  exists ev, log s = log s0 ++ [ev] /\ fst (fst ev) = fn_addr /\
             firstn (length args) (snd (fst ev)) = args.

(* ------------------------------------------------------------------ *)
(* correspondence cases                                                *)

Definition res_N_eqb (a b : res N) : bool :=
  match a, b with
  | Ok x, Ok y => x =? y
  | Err x, Err y => x =? y
  | Panic x, Panic y => x =? y
  | OutOfFuel, OutOfFuel => true
  | _, _ => false
  end.

(* (literal, parameter type, what the real liter_to_arg_bin_repr returned: Ok image / Err code) *)
Definition marg_case : Type := (lit * ty * res N)%type.
Definition marg_check (c : marg_case) : N :=
  let '(l, t, real) := c in
  let model_ok := res_N_eqb (liter_to_arg l t) real in
  let spec_ok := match arg_spec l t, real with
                 | Some v, Ok w => v =? w
                 | None, Err _ => true
                 | _, _ => false
                 end in
  verdict model_ok spec_ok.

(* a real `call`: the 27 registers before and after, the stopped rsp, and memory windows
   (base, bytes before, bytes after) -- code at pc, the stack around rsp, globals *)
Record call_case := {
  cc_regs_before : list N;
  cc_regs_after : list N;
  cc_rsp : N;
  cc_windows : list (N * list N * list N)
}.
Definition bytes_eqb := list_eqb N.eqb.
(* bytes of a window at addresses >= lim *)
Fixpoint above_eqb (lim a : N) (b1 b2 : list N) : bool :=
  match b1, b2 with
  | [], [] => true
  | x :: t1, y :: t2 => (if lim <=? a then x =? y else true) && above_eqb lim (a + 1) t1 t2
  | _, _ => false
  end.
Definition call_check (c : call_case) : N :=
  let regs_ok := bytes_eqb (cc_regs_before c) (cc_regs_after c) in
  (* the model leaves everything at or above rsp - 128 alone (fix_1); below that it does not *)
  let model_ok := regs_ok && forallb (fun w => let '(a, b1, b2) := w in above_eqb (cc_rsp c - 128) a b1 b2) (cc_windows c) in
  let spec_ok := regs_ok && forallb (fun w => let '(a, b1, b2) := w in bytes_eqb b1 b2) (cc_windows c) in
  verdict model_ok spec_ok.
