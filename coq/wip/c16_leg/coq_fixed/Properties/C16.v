(* C16 -- Injected calls run once and leave no trace: headline theorems *)
From BS Require Import Model.Base Model.Mem.
From BS Require Import Model.Call Proofs.CallProofs.
Open Scope N_scope.

Theorem C16_args : forall l t,
  match arg_spec l t with
  | Some v => liter_to_arg l t = Ok v
  | None => exists e, liter_to_arg l t = Err e
  end.
Proof. exact CallProofs.C16_args. Qed.

Theorem C16_args_regs : forall r args r',
  prepare_registers r arg_regs args = Ok r' ->
  map r' (firstn (length args) arg_regs) = args /\ (forall x, ~ In x arg_regs -> r' x = r x).
Proof. exact CallProofs.C16_args_regs. Qed.

Theorem C16_restore_regs_text : forall fails mmap_ret munmap_ret callee other_insn fn args s0 s' r,
  bytes_ok (mm s0) ->
  call_fn_raw fails mmap_ret munmap_ret callee other_insn fn args s0 = (s', r) ->
  (forall p, r <> Panic p) ->
  regs_restored s0 s' /\ text_restored s0 s'.
Proof. exact CallProofs.C16_restore_regs_text. Qed.

Theorem C16_error_restores : forall fails mmap_ret munmap_ret callee other_insn fn args s0 s' e,
  bytes_ok (mm s0) ->
  call_fn_raw fails mmap_ret munmap_ret callee other_insn fn args s0 = (s', Err e) ->
  regs_restored s0 s' /\ text_restored s0 s'.
Proof. exact CallProofs.C16_error_restores. Qed.

Theorem C16_stack_partial : forall callee other_insn cw s,
  callee_frame callee cw ->
  mm s (rg s Rip) = Some 255 -> mm s (rg s Rip + 1) = Some 208 ->
  forall a, cw a = false -> ~ (rg s Rsp - 8 <= a < rg s Rsp - 8 + 8) ->
            mm (fst (exec_cont callee other_insn s)) a = mm s a.
Proof. exact (CallProofs.C16_stack_partial (fun _ => false)). Qed.

(* fix_1: with the stack pointer h_call_fn installs, the red zone and everything above survive *)
Theorem C16_redzone_kept : forall callee other_insn cw s sp0,
  callee_frame callee cw ->
  mm s (rg s Rip) = Some 255 -> mm s (rg s Rip + 1) = Some 208 ->
  256 <= sp0 < WORD -> rg s Rsp = call_rsp sp0 ->
  forall a, cw a = false -> sp0 - 128 <= a ->
            mm (fst (exec_cont callee other_insn s)) a = mm s a.
Proof. exact CallProofs.C16_redzone_kept. Qed.

Theorem C16_call_rsp : forall sp,
  128 <= sp < WORD -> call_rsp sp <= sp - 128 /\ sp - 128 < call_rsp sp + 16 /\ call_rsp sp mod 16 = 0.
Proof. exact CallProofs.call_rsp_spec. Qed.

Theorem C16_aligned :
  let out := W_call no_fail leaf in
  snd out = Ok tt /\ exists ev, log (fst out) = [ev] /\ (snd ev + 8) mod 16 = 0.
Proof. exact CallProofs.C16_aligned. Qed.

Theorem C16_fpregs_refuted :
  let out := W_call no_fail leaf_sse in
  snd out = Ok tt /\ list_of_regs (rg (fst out)) = list_of_regs (rg W_s0) /\
  ~ all_regs_restored W_s0 (fst out).
Proof. exact CallProofs.C16_fpregs_refuted. Qed.

Theorem C16_error_no_leak :
  forallb (fun k =>
    let out := W_call (fun j => j =? k) leaf in
    match snd out, mm (fst out) W_page with
    | Err _, None =>
        list_eqb N.eqb (list_of_regs (rg (fst out))) (list_of_regs (rg W_s0)) &&
        list_eqb N.eqb (get_bytes (mm (fst out)) 0x401010 8) (get_bytes (mm W_s0) 0x401010 8)
    | _, _ => false
    end) [7; 8; 9; 10; 11; 12; 13; 14; 15] = true.
Proof. exact CallProofs.C16_error_no_leak. Qed.

Theorem C16_dealloc_error_leak_refuted :
  exists fails e,
    let out := W_call fails leaf in
    snd out = Err e /\ mm W_s0 W_page = None /\ mm (fst out) W_page <> None.
Proof. exact CallProofs.C16_dealloc_error_leak_refuted. Qed.

Theorem C16_signal_reported :
  let out := W_call no_fail faulting in
  snd out = Err E_INTERRUPTED /\
  list_of_regs (rg (fst out)) = list_of_regs (rg W_s0) /\
  get_bytes (mm (fst out)) 0x401010 8 = get_bytes (mm W_s0) 0x401010 8 /\
  mm (fst out) W_page = None.
Proof. exact CallProofs.C16_signal_reported. Qed.

Theorem C16_cache_partial : forall c resolve k c' v,
  cache_consistent c resolve ->
  get_or_insert c resolve k = (c', Ok v) -> cache_spec resolve k = Ok v.
Proof. exact CallProofs.C16_cache_partial. Qed.

Theorem C16_cache_refuted :
  exists (resolve1 resolve2 : ckey -> res cvalue) k v1 v2 c1,
    get_or_insert [] resolve1 k = (c1, Ok v1) /\
    cache_spec resolve2 k = Ok v2 /\ v1 <> v2 /\
    snd (get_or_insert c1 resolve2 k) = Ok v1.
Proof. exact CallProofs.C16_cache_refuted. Qed.

(* non-vacuity: a call that succeeds on a concrete machine *)
Example C16_nonvacuous :
  snd (W_call no_fail leaf) = Ok tt /\
  log (fst (W_call no_fail leaf)) = [(0x402000, [0xFFFFFFFE; 44; 0; 0; 0; 0], 0x7ffd778)].
Proof. split; vm_compute; reflexivity. Qed.

Print Assumptions C16_args.
Print Assumptions C16_restore_regs_text.
Print Assumptions C16_stack_partial.
Print Assumptions C16_redzone_kept.
Print Assumptions C16_error_no_leak.
Print Assumptions C16_signal_reported.
Print Assumptions C16_cache_refuted.
