(* C15, clause "DAP setVariable and setExpression make a later read of that variable return the written value and
   leave neighbouring data untouched" - headline statements (proofs in ProofsSetValue.v). *)
From BS Require Import Model.Base.
From BS Require Import Model.Decode.
From BS Require Model.Mem Proofs.MemProofs.
From W Require Import ModelSetValue ProofsSetValue.
Open Scope N_scope.

(* --- the code at 7fbf91e ------------------------------------------------------------------------------------ *)

(* Every integer kind (8 .. 128 bits, isize/usize), every value of the type, decimal or hex: the request is accepted
   and the bytes written read back as that value. *)
Theorem C15set_int_roundtrip : forall k t minus z,
  is_int k = true -> tx_int t = Some (minus, z) -> representableb k z = true ->
  (kind_class k = CUnsigned -> minus = false) ->
  exists bs, parse_set_value k t = Ok bs /\ stores k bs z.
Proof. exact set_int_roundtrip. Qed.

(* What happens to every other number: accepted as long as the 128-bit parser takes it, stored modulo 2^bits. *)
Theorem C15set_int_exact : forall k t minus z,
  is_int k = true -> tx_int t = Some (minus, z) -> parser_accepts k minus z = true ->
  exists bs, parse_set_value k t = Ok bs /\ stores k bs (wrap_kind k z).
Proof. exact set_int_exact. Qed.

Theorem C15set_int_truncates : forall k t bs r v,
  is_int k = true -> parse_set_value k t = Ok bs -> requested k t = Some r -> stores k bs v ->
  v = wrap_kind k r /\ (v = r <-> representableb k r = true).
Proof. exact set_int_truncates. Qed.

(* "a successful request stores the requested number" is false of 7fbf91e: u8 := 300 stores 44 *)
Theorem C15set_int_truncation_refuted_old :
  exists k t r bs v, is_int k = true /\ requested k t = Some r /\ representableb k r = false /\
                     parse_set_value k t = Ok bs /\ stores k bs v /\ v <> r.
Proof. exact set_int_truncation_refuted. Qed.

(* "what a successful request stores in a char is a char" is false of 7fbf91e: 0xD800 is accepted *)
Theorem C15set_char_invalid_refuted_old :
  exists t bs v, parse_set_value KChar t = Ok bs /\ stores KChar bs v /\ representableb KChar v = false.
Proof. exact set_char_invalid_refuted. Qed.

Theorem C15set_bool_exact : forall t,
  match requested KBool t with
  | Some r => exists bs, parse_set_value KBool t = Ok bs /\ stores KBool bs r /\ representableb KBool r = true
  | None => parse_set_value KBool t = Err E_PARSE
  end.
Proof. exact set_bool_exact. Qed.

Theorem C15set_char_literal : forall t c,
  (tx_char t = CtQuoted [c] \/ tx_char t = CtSingle c) -> c < 2 ^ 32 ->
  requested KChar t = Some (Z.of_N c) /\
  exists bs, parse_set_value KChar t = Ok bs /\ stores KChar bs (Z.of_N c).
Proof. exact set_char_literal. Qed.

Theorem C15set_char_numeric_roundtrip : forall t z,
  tx_char t = CtOther -> tx_int t = Some (false, z) -> representableb KChar z = true ->
  exists bs, parse_set_value KChar t = Ok bs /\ stores KChar bs z.
Proof. exact set_char_numeric_roundtrip. Qed.

Theorem C15set_f32_exact : forall t,
  match tx_f32 t with
  | Some b => b < 2 ^ 32 -> exists bs, parse_set_value KF32 t = Ok bs /\ stores KF32 bs (Z.of_N b)
  | None => parse_set_value KF32 t = Err E_PARSE
  end.
Proof. exact set_f32_exact. Qed.

Theorem C15set_f64_exact : forall t,
  match tx_f64 t with
  | Some b => b < 2 ^ 64 -> exists bs, parse_set_value KF64 t = Ok bs /\ stores KF64 bs (Z.of_N b)
  | None => parse_set_value KF64 t = Err E_PARSE
  end.
Proof. exact set_f64_exact. Qed.

(* Neighbouring data: an accepted request writes exactly size_of(type) bytes, so (write_bytes_exact) only the
   variable's own bytes change, and they become the computed bytes. *)
Theorem C15set_touches_only_the_variable : forall k t bs (m : Mem.mem) a,
  parse_set_value k t = Ok bs ->
  MemProofs.word_granular m -> a + N.of_nat (kind_size k) < 2 ^ 64 -> Mem.all_mapped m a (kind_size k) = true ->
  exists m', Mem.write_bytes m a bs = Ok m' /\
    (forall x, x < a \/ a + N.of_nat (kind_size k) <= x -> m' x = m x) /\
    (forall i, (i < kind_size k)%nat -> m' (a + N.of_nat i) = Some (nth i bs 0)).
Proof. exact set_value_touches_only_the_variable. Qed.

(* --- the code with fix_2.patch ---------------------------------------------------------------------------------- *)

(* integers: an accepted request stores exactly the requested value, which is a value of the type *)
Theorem C15set_fix2_int_exact : forall k t bs,
  is_int k = true -> parse_set_value_fix2 k t = Ok bs ->
  exists r, requested k t = Some r /\ representableb k r = true /\ stores k bs r.
Proof. exact fix2_int_exact. Qed.

(* char: the same (a Rust `char` coming from the text is a scalar value: hypothesis on the literal forms) *)
Theorem C15set_fix2_char_exact : forall t bs,
  (forall c, (tx_char t = CtQuoted [c] \/ tx_char t = CtSingle c) -> representableb KChar (Z.of_N c) = true) ->
  parse_set_value_fix2 KChar t = Ok bs ->
  exists r, requested KChar t = Some r /\ representableb KChar r = true /\ stores KChar bs r.
Proof. exact fix2_char_exact. Qed.

(* the repair does not change any request that asked for a value of the type *)
Theorem C15set_fix2_agrees_on_representable : forall k t r,
  requested k t = Some r -> representableb k r = true ->
  parse_set_value_fix2 k t = parse_set_value k t.
Proof. exact fix2_agrees_on_representable. Qed.

Theorem C15set_fix2_touches_only_the_variable : forall k t bs (m : Mem.mem) a,
  parse_set_value_fix2 k t = Ok bs ->
  MemProofs.word_granular m -> a + N.of_nat (kind_size k) < 2 ^ 64 -> Mem.all_mapped m a (kind_size k) = true ->
  exists m', Mem.write_bytes m a bs = Ok m' /\
    (forall x, x < a \/ a + N.of_nat (kind_size k) <= x -> m' x = m x) /\
    (forall i, (i < kind_size k)%nat -> m' (a + N.of_nat i) = Some (nth i bs 0)).
Proof. exact fix2_touches_only_the_variable. Qed.

(* --- the checker ------------------------------------------------------------------------------------------------ *)
Theorem C15set_check_sound : forall parse shown c,
  setvalue_check_gen parse shown c = 0 -> setvalue_spec_ok c = true.
Proof. exact setvalue_check_sound. Qed.

Theorem C15set_spec_meaning : forall c v,
  setvalue_spec_ok c = true -> c_success c = true -> decode_value (c_kind c) (c_after c) = Ok v ->
  c_canaries c = true /\ c_program_canaries c = true /\ c_program c = v /\
  c_reply c = Some v /\ c_reread c = Some v /\ c_refetch c = Some v /\
  requested (c_kind c) (c_text c) = Some v /\ representableb (c_kind c) v = true.
Proof. exact setvalue_spec_meaning. Qed.

(* non-vacuity: i128 := i128::MIN in hex is impossible (the i128 hex parser has no sign bit) but in decimal it is
   stored exactly; and one observed case of the leg (i16 := 0x7fff through setExpression on the repaired tree) *)
Example C15set_example_i128_min :
  parse_set_value KI128 (text_of_int (- 2 ^ 127)) = Ok (repeat 0 15 ++ [128]) /\
  decode_value KI128 (repeat 0 15 ++ [128]) = Ok (- 2 ^ 127)%Z /\
  parse_set_value KI128 (text_of_int (2 ^ 127)) = Err E_PARSE.
Proof. repeat split; vm_compute; reflexivity. Qed.

Example C15set_example_case :
  setvalue_check (SvCase KI16 ViaSetExpression (SvText (Some (false, 0x7fff%Z)) None None BtOther CtOther) true
                         [212; 254] [255; 127] true (Some 32767%Z) (Some 32767%Z) (Some 32767%Z) 32767%Z true) = 0 /\
  setvalue_check_head (SvCase KU8 ViaSetVariable (SvText (Some (false, 300%Z)) (Some 1133903872) (Some 4643985272004935680) BtOther CtOther) true
                         [200] [44] true (Some 300%Z) (Some 300%Z) (Some 300%Z) 44%Z true) = 2.
Proof. split; vm_compute; reflexivity. Qed.
