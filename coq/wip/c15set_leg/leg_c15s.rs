//! C15 setVariable / setExpression leg (`c15-setvar`): "DAP setVariable and setExpression make a later read of that
//! variable return the written value and leave neighbouring data untouched".
//!
//! A debuggee holds, in `main`, one local of every scalar kind twice: plain (`p_<kind>`, a top-level entry of the
//! Locals scope) and wrapped between two 16-byte canary arrays in a `#[repr(C)]` struct (`c_<kind>.v`, a child entry,
//! so the adapter has to compute the address of a nested value).  The program prints the address of every variable
//! first, stops on a breakpoint line, and after `continue` prints every variable and whether its canaries are intact.
//! At the stop each variable gets exactly one request (`setVariable` or `setExpression`) with a seeded text: a
//! representable value in one of the accepted spellings, a non-representable number, or a malformed text.  Around the
//! request the harness reads the variable and 16 bytes on each side through /proc/<pid>/mem (independent of the
//! debugger), re-reads the variable through a new `variables` request and through scopes + variables (what a client
//! does on `invalidated`).  Every case is decided inside Coq by `setvalue_check` (ModelSetValue.v).
use crate::coqfmt::{self as cf, CasesFile};
use crate::dap;
use crate::e2e;
use crate::rng::Rng;
use serde_json::{Value, json};
use std::collections::{BTreeMap, HashMap, HashSet};

#[derive(Clone, Copy, PartialEq, Eq, Debug)]
pub enum Kind {
    I8, I16, I32, I64, I128, Isize, U8, U16, U32, U64, U128, Usize, F32, F64, Bool, Char,
}
use Kind::*;
pub const KINDS: [Kind; 16] = [I8, I16, I32, I64, I128, Isize, U8, U16, U32, U64, U128, Usize, F32, F64, Bool, Char];

impl Kind {
    fn rust(self) -> &'static str {
        match self {
            I8 => "i8", I16 => "i16", I32 => "i32", I64 => "i64", I128 => "i128", Isize => "isize", U8 => "u8", U16 => "u16",
            U32 => "u32", U64 => "u64", U128 => "u128", Usize => "usize", F32 => "f32", F64 => "f64", Bool => "bool", Char => "char",
        }
    }
    fn coq(self) -> &'static str {
        match self {
            I8 => "KI8", I16 => "KI16", I32 => "KI32", I64 => "KI64", I128 => "KI128", Isize => "KIsize", U8 => "KU8", U16 => "KU16",
            U32 => "KU32", U64 => "KU64", U128 => "KU128", Usize => "KUsize", F32 => "KF32", F64 => "KF64", Bool => "KBool", Char => "KChar",
        }
    }
    fn size(self) -> usize {
        match self {
            I8 | U8 | Bool => 1,
            I16 | U16 => 2,
            I32 | U32 | F32 | Char => 4,
            I64 | U64 | Isize | Usize | F64 => 8,
            I128 | U128 => 16,
        }
    }
    fn signed(self) -> bool {
        matches!(self, I8 | I16 | I32 | I64 | I128 | Isize)
    }
    fn unsigned(self) -> bool {
        matches!(self, U8 | U16 | U32 | U64 | U128 | Usize)
    }
    fn init(self) -> &'static str {
        match self {
            I8 => "-5", I16 => "-300", I32 => "-70000", I64 => "-5000000000", I128 => "-170141183460469231731687303715884105000", Isize => "-77",
            U8 => "200", U16 => "60000", U32 => "4000000000", U64 => "18000000000000000000", U128 => "340282366920938463463374607431768211000",
            Usize => "12345678901", F32 => "1.5", F64 => "-2.25", Bool => "true", Char => "'q'",
        }
    }
}

pub fn debuggee_src() -> String {
    let mut s = String::new();
    s.push_str("use std::hint::black_box;\n#[repr(C)]\nstruct Cell<T> { lo: [u8; 16], v: T, hi: [u8; 16] }\n");
    s.push_str("fn mk<T>(v: T) -> Cell<T> { Cell { lo: [0xA5; 16], v, hi: [0x5A; 16] } }\n");
    s.push_str("fn ok<T>(c: &Cell<T>) -> bool { black_box(c.lo) == [0xA5u8; 16] && black_box(c.hi) == [0x5Au8; 16] }\n");
    s.push_str("fn raw<T>(p: &T) -> u128 { let n = std::mem::size_of::<T>(); let mut b = [0u8; 16]; unsafe { std::ptr::copy_nonoverlapping(p as *const T as *const u8, b.as_mut_ptr(), n); } u128::from_le_bytes(b) }\n");
    s.push_str("fn main() {\n");
    for k in KINDS {
        s.push_str(&format!("    let mut c_{r} = mk::<{r}>({i});\n    let mut p_{r}: {r} = {i};\n", r = k.rust(), i = k.init()));
    }
    for k in KINDS {
        s.push_str(&format!("    println!(\"ADDR c_{r} {{:p}}\", &c_{r}.v);\n    println!(\"ADDR p_{r} {{:p}}\", &p_{r});\n", r = k.rust()));
    }
    for k in KINDS {
        s.push_str(&format!("    black_box(&mut c_{r}); black_box(&mut p_{r});\n", r = k.rust()));
    }
    s.push_str("    println!(\"ADDR_END\");\n");
    s.push_str("    let rounds: u32 = std::env::args().nth(1).and_then(|s| s.parse().ok()).unwrap_or(1);\n");
    s.push_str("    for round in 0..rounds {\n");
    s.push_str("    let stop = black_box(round); // @STOP\n");
    s.push_str("    black_box(&stop);\n");
    for k in KINDS {
        let r = k.rust();
        match k {
            F32 | F64 | Char | Bool => {
                // the raw pattern, read by the program from its own memory (an invalid char / bool must not be formatted)
                s.push_str(&format!("    println!(\"FIN {{round}} c_{r} {{}} {{}}\", raw(black_box(&c_{r}.v)), ok(&c_{r}));\n"));
                s.push_str(&format!("    println!(\"FIN {{round}} p_{r} {{}} true\", raw(black_box(&p_{r})));\n"));
            }
            _ => {
                s.push_str(&format!("    println!(\"FIN {{round}} c_{r} {{:?}} {{}}\", black_box(&c_{r}).v, ok(&c_{r}));\n"));
                s.push_str(&format!("    println!(\"FIN {{round}} p_{r} {{:?}} true\", *black_box(&p_{r}));\n"));
            }
        }
    }
    s.push_str("    println!(\"FIN_END {round}\");\n    }\n}\n");
    s
}

// ------------------------------------------------------------------------------------------------------------
// request texts and their views
// ------------------------------------------------------------------------------------------------------------
/// the integer view of a (trimmed) text: Some((minus, literal as a Coq Z term)) for `[+-]digits` / `0x[+-]hexdigits`
fn int_view(s: &str) -> Option<(bool, String)> {
    let (hex, body) = match s.strip_prefix("0x").or_else(|| s.strip_prefix("0X")) {
        Some(r) => (true, r),
        None => (false, s),
    };
    let (minus, digits) = match body.as_bytes().first() {
        Some(b'-') => (true, &body[1..]),
        Some(b'+') => (false, &body[1..]),
        _ => (false, body),
    };
    if digits.is_empty() || !digits.chars().all(|c| if hex { c.is_ascii_hexdigit() } else { c.is_ascii_digit() }) {
        return None;
    }
    let lit = if hex { format!("0x{}", digits.to_ascii_lowercase()) } else { digits.to_string() };
    Some((minus, if minus { format!("(-{lit})%Z") } else { format!("{lit}%Z") }))
}

fn bool_view(s: &str) -> &'static str {
    match s {
        "true" | "True" | "TRUE" => "BtTrue",
        "false" | "False" | "FALSE" => "BtFalse",
        "1" => "BtOne",
        "0" => "BtZero",
        _ => "BtOther",
    }
}

enum CharView {
    Quoted(Vec<u32>),
    Single(u32),
    Other,
}
fn char_view(s: &str) -> CharView {
    // a text is "quoted" when a leading and (after removing it) a trailing apostrophe can be removed
    if s.len() >= 2 && s.starts_with('\'') && s.ends_with('\'') {
        return CharView::Quoted(s[1..s.len() - 1].chars().map(|c| c as u32).collect());
    }
    let mut it = s.chars();
    match (it.next(), it.next()) {
        (Some(c), None) => CharView::Single(c as u32),
        _ => CharView::Other,
    }
}
fn char_view_term(v: &CharView) -> String {
    match v {
        CharView::Quoted(cs) => format!("(CtQuoted {})", cf::list(cs, |c| cf::n(*c as u128))),
        CharView::Single(c) => format!("(CtSingle {})", cf::n(*c as u128)),
        CharView::Other => "CtOther".into(),
    }
}

fn text_term(text: &str) -> String {
    let s = text.trim();
    let iv = match int_view(s) {
        Some((m, z)) => format!("(Some ({}, {}))", cf::boolean(m), z),
        None => "None".into(),
    };
    let f32v = s.parse::<f32>().ok().map(|f| f.to_bits() as u128);
    let f64v = s.parse::<f64>().ok().map(|f| f.to_bits() as u128);
    format!(
        "(SvText {} {} {} {} {})",
        iv,
        cf::option(&f32v, |b| cf::n(*b)),
        cf::option(&f64v, |b| cf::n(*b)),
        bool_view(s),
        char_view_term(&char_view(s))
    )
}

/// a value text shown by the adapter (or printed by the program), read as a number of the kind's domain (a Coq Z term)
fn shown_value(k: Kind, text: &str) -> Option<String> {
    if k == Char && text.chars().count() == 1 {
        return text.chars().next().map(|c| cf::z(c as u32 as i128)); // a rendered char, possibly white space
    }
    let s = text.trim();
    match k {
        F32 => s.parse::<f32>().ok().map(|f| cf::z(f.to_bits() as i128)),
        F64 => s.parse::<f64>().ok().map(|f| cf::z(f.to_bits() as i128)),
        Bool => match bool_view(s) {
            "BtTrue" | "BtOne" => Some("1%Z".into()),
            "BtFalse" | "BtZero" => Some("0%Z".into()),
            _ => None,
        },
        Char => match char_view(s) {
            CharView::Quoted(cs) if cs.len() == 1 => Some(cf::z(cs[0] as i128)),
            CharView::Quoted(_) => None,
            CharView::Single(c) => Some(cf::z(c as i128)),
            CharView::Other => int_view(s).map(|(_, z)| z),
        },
        _ => int_view(s).map(|(_, z)| z),
    }
}

fn pad(rng: &mut Rng, s: String) -> String {
    match rng.below(12) {
        0 => format!(" {s}"),
        1 => format!("{s}  "),
        2 => format!("\t{s} "),
        _ => s,
    }
}

fn bits(k: Kind) -> u32 {
    (k.size() * 8) as u32
}

/// (stream, text): stream is "representable" / "nonrepresentable" / "malformed"
fn gen_text(rng: &mut Rng, k: Kind) -> (&'static str, String) {
    let roll = rng.below(100);
    let stream = if roll < 70 { "representable" } else if roll < 88 { "nonrepresentable" } else { "malformed" };
    if stream == "malformed" {
        let pool: &[&str] = match k {
            Bool => &["tRue", "2", "yes", "", "falsE", "-1", "0x1", "truee", "'1'"],
            Char => &["''", "'ab'", "ab", "", "-5", "0x", "'a", "a'b", "1e3"],
            F32 | F64 => &["abc", "0x10", "", "1,5", "1.5.2", "--1", "e5", "'1'"],
            _ => &["", "abc", "1.5", "0x", "--1", "1_000", "'a'", "12a", "0xg1", "-0x5", "+", "-", "1e3", "0b101", "5u8"],
        };
        let mut t = rng.pick(pool).to_string();
        if k.unsigned() && rng.chance(1, 5) {
            t = "-0".into(); // a representable value the unsigned parser refuses
        }
        return (stream, t);
    }
    match k {
        Bool => {
            if stream == "representable" {
                { let t = rng.pick(&["true", "True", "TRUE", "false", "False", "FALSE", "1", "0"]).to_string(); ("representable", pad(rng, t)) }
            } else {
                ("nonrepresentable", rng.pick(&["2", "255", "256", "-1", "10", "01"]).to_string())
            }
        }
        Char => {
            if stream == "representable" {
                let c = *rng.pick(&['a', 'Z', '0', '7', ' ', '~', 'é', 'ß', '€', '中', '😀', '\u{10FFFF}', '\u{D7FF}', '\u{E000}', '\'', '"', '\\', 'x']);
                let t = match rng.below(5) {
                    0 | 1 => format!("'{c}'"),
                    2 if c != ' ' => format!("{c}"),
                    3 => format!("{}", c as u32),
                    _ => format!("0x{:x}", c as u32),
                };
                // a one-digit number is the digit character for the adapter: keep the decimal form to codes >= 10
                let t = if t.chars().count() == 1 && t != format!("{c}") { format!("'{c}'") } else { t };
                ("representable", pad(rng, t))
            } else {
                ("nonrepresentable", rng.pick(&["0xD800", "0xDFFF", "55296", "0x110000", "1114112", "4294967295", "4294967393", "0x100000061", "18446744073709551713", "340282366920938463463374607431768211455"]).to_string())
            }
        }
        F32 | F64 => {
            // every text the float parser accepts denotes a value of the kind (overflow becomes inf): no non-representable stream
            let pool = ["0", "-0.0", "1.5", "-2.25", "1e10", "1E-7", "inf", "-inf", "NaN", "3.4028235e38", "1e40", "1e-50", "0.1", "123456789.125", "+7", ".5", "5.",
                "1.7976931348623157e308", "1e400", "4.9e-324", "16777217", "9007199254740993", "infinity"];
            { let t = rng.pick(&pool).to_string(); ("representable", pad(rng, t)) }
        }
        _ => {
            let b = bits(k);
            let signed = k.signed();
            // magnitude limits
            let umax: u128 = if b == 128 { u128::MAX } else { (1u128 << b) - 1 };
            let smax: u128 = umax >> 1; // 2^(b-1) - 1
            if stream == "representable" {
                // (negative, magnitude)
                let (neg, mag): (bool, u128) = if signed {
                    match rng.below(12) {
                        0 => (true, smax + 1),
                        1 => (false, smax),
                        2 => (false, 0),
                        3 => (true, 1),
                        4 => (false, 1),
                        5 => (false, 1u128 << rng.below((b - 1) as u64)),
                        6 => (true, 1u128 << rng.below((b - 1) as u64)),
                        7 => (true, smax),
                        8 => (false, smax - 1),
                        _ => {
                            let m = (((rng.next() as u128) << 64) | rng.next() as u128) & smax;
                            (rng.chance(1, 2), m >> rng.below(b as u64 - 1))
                        }
                    }
                } else {
                    match rng.below(10) {
                        0 => (false, umax),
                        1 => (false, 0),
                        2 => (false, 1),
                        3 => (false, 1u128 << rng.below(b as u64)),
                        4 => (false, umax - 1),
                        5 => (false, smax + 1),
                        _ => {
                            let m = (((rng.next() as u128) << 64) | rng.next() as u128) & umax;
                            (false, m >> rng.below(b as u64))
                        }
                    }
                };
                let form = rng.below(10);
                let t = if !neg && form < 2 {
                    format!("0x{:x}", mag)
                } else if !neg && form == 2 {
                    format!("0X{:X}", mag)
                } else if !neg && form == 3 {
                    format!("+{}", mag)
                } else if neg && mag == 0 {
                    "0".to_string()
                } else {
                    format!("{}{}", if neg { "-" } else { "" }, mag)
                };
                ("representable", pad(rng, t))
            } else {
                // numbers outside the kind
                let mut pool: Vec<String> = vec![];
                if signed {
                    if b < 128 {
                        pool.push(format!("{}", smax + 1));
                        pool.push(format!("-{}", smax + 2));
                        pool.push(format!("{}", umax));
                        pool.push(format!("0x{:x}", umax)); // all ones: -1 as a bit pattern
                        pool.push(format!("0x{:x}", smax + 1));
                        pool.push(format!("{}", umax + 1));
                        pool.push(format!("{}", (umax + 1) * 3 + 7));
                        pool.push(format!("-{}", umax + 1));
                        pool.push("170141183460469231731687303715884105727".into());
                    }
                    pool.push("170141183460469231731687303715884105728".into()); // 2^127: the i128 parser overflows
                    pool.push("-170141183460469231731687303715884105729".into());
                    pool.push("0x80000000000000000000000000000000".into());
                    pool.push("0xffffffffffffffffffffffffffffffff".into());
                    pool.push("999999999999999999999999999999999999999999".into());
                } else {
                    if b < 128 {
                        pool.push(format!("{}", umax + 1));
                        pool.push(format!("{}", umax + 2));
                        pool.push(format!("0x{:x}", umax + 1));
                        pool.push(format!("{}", (umax + 1) * 5 + 3));
                        pool.push("340282366920938463463374607431768211455".into());
                    }
                    pool.push("-1".into());
                    pool.push(format!("-{}", smax));
                    pool.push("340282366920938463463374607431768211456".into()); // 2^128: the u128 parser overflows
                    pool.push("0x100000000000000000000000000000000".into());
                    pool.push("999999999999999999999999999999999999999999".into());
                }
                { let t = rng.pick(&pool).clone(); ("nonrepresentable", pad(rng, t)) }
            }
        }
    }
}

// ------------------------------------------------------------------------------------------------------------
// DAP driving
// ------------------------------------------------------------------------------------------------------------
struct Dap {
    c: dap::Client,
}
impl Dap {
    fn req(&mut self, cmd: &str, args: Value) -> Option<Value> {
        let seq = self.c.send(cmd, args);
        self.c.wait_response(seq, 90000)
    }
    fn ok(&mut self, cmd: &str, args: Value) -> Option<Value> {
        self.req(cmd, args).filter(|r| r["success"] == true)
    }
    fn stdout_lines(&self) -> Vec<String> {
        let mut all = String::new();
        for m in self.c.transcript() {
            if m["type"] == "event" && m["event"] == "output" && m["body"]["category"] == "stdout" {
                all.push_str(m["body"]["output"].as_str().unwrap_or(""));
            }
        }
        all.lines().map(|l| l.to_string()).collect()
    }
    /// The adapter's output-forwarding thread can only write while the session is not blocked reading the next
    /// request (it shares the transport lock), so program output is delivered between requests: keep the session
    /// busy with `threads` requests while waiting for a line.
    fn wait_stdout(&mut self, needle: &str, ms: u64) -> bool {
        let t0 = std::time::Instant::now();
        loop {
            if self.stdout_lines().iter().any(|l| l == needle) {
                return true;
            }
            if t0.elapsed().as_millis() as u64 > ms {
                return false;
            }
            let _ = self.req("threads", json!({}));
            std::thread::sleep(std::time::Duration::from_millis(5));
        }
    }
    fn finish(mut self) -> (bool, bool) {
        let _ = self.req("disconnect", json!({"terminateDebuggee": true}));
        self.c.close(20000)
    }
}

/// the live child of this process that runs `bin`
fn child_running(bin: &std::path::Path) -> Option<nix::unistd::Pid> {
    let me = std::process::id();
    for e in std::fs::read_dir("/proc").ok()?.flatten() {
        let name = e.file_name().to_string_lossy().to_string();
        let Ok(pid) = name.parse::<i32>() else { continue };
        let Ok(stat) = std::fs::read_to_string(format!("/proc/{pid}/stat")) else { continue };
        let Some(rp) = stat.rfind(')') else { continue };
        let fields: Vec<&str> = stat[rp + 1..].split_whitespace().collect();
        if fields.get(1).and_then(|p| p.parse::<u32>().ok()) != Some(me) || fields.first() == Some(&"Z") {
            continue;
        }
        if std::fs::read_link(format!("/proc/{pid}/exe")).ok().as_deref() == Some(bin) {
            return Some(nix::unistd::Pid::from_raw(pid));
        }
    }
    None
}

fn find_var<'a>(vars: &'a Value, name: &str) -> Option<&'a Value> {
    vars["body"]["variables"].as_array()?.iter().find(|v| v["name"] == name)
}

/// Locals reference of the frame, through `scopes`
fn locals_ref(d: &mut Dap, frame_id: i64) -> Option<i64> {
    let sc = d.ok("scopes", json!({"frameId": frame_id}))?;
    sc["body"]["scopes"].as_array()?.iter().find(|s| s["name"] == "Locals").and_then(|s| s["variablesReference"].as_i64())
}

/// the value text of variable `var` (`p_x`, or `c_x` + child `v`) starting from a Locals reference; also the reference
/// that directly contains the entry
fn read_var(d: &mut Dap, lref: i64, var: &str, wrapped: bool) -> Option<(i64, String)> {
    let vs = d.ok("variables", json!({"variablesReference": lref}))?;
    let top = find_var(&vs, var)?.clone();
    if !wrapped {
        return Some((lref, top["value"].as_str()?.to_string()));
    }
    let cref = top["variablesReference"].as_i64().filter(|r| *r > 0)?;
    let cs = d.ok("variables", json!({"variablesReference": cref}))?;
    let v = find_var(&cs, "v")?;
    Some((cref, v["value"].as_str()?.to_string()))
}

struct VarSpec {
    kind: Kind,
    wrapped: bool,
    top: String, // name of the local
}

pub fn run(args: &[String]) -> i32 {
    let seed: u64 = args.first().and_then(|s| s.parse().ok()).unwrap_or(1);
    let count: usize = args.get(1).and_then(|s| s.parse().ok()).unwrap_or(96);
    let out_dir = args.get(2).cloned().unwrap_or_else(|| "../coq/cases".into());
    let scratch = args.get(3).cloned().unwrap_or_else(|| "/verif/.scratch/c15s".into());
    let probe = args.get(4).map(|s| s == "probe").unwrap_or(false);
    // argument 8: stops per launched session (the program loops over the breakpoint line)
    let rounds: u64 = args.get(7).and_then(|s| s.parse().ok()).unwrap_or(8).max(1);
    let mut rng = Rng::new(seed ^ 0xC155);
    let src_text = debuggee_src();
    let bin = match e2e::compile(&scratch, "setvardebuggee", &src_text, &[], None) {
        Ok(b) => b,
        Err(e) => {
            eprintln!("compile failed: {e}");
            return 3;
        }
    };
    let src_path = std::path::Path::new(&scratch).join("setvardebuggee.rs").to_string_lossy().to_string();
    let stop_line = src_text.lines().position(|l| l.contains("@STOP")).unwrap() as u64 + 1;
    let bin_s = bin.to_string_lossy().to_string();

    let mut specs: Vec<VarSpec> = vec![];
    for k in KINDS {
        specs.push(VarSpec { kind: k, wrapped: true, top: format!("c_{}", k.rust()) });
        specs.push(VarSpec { kind: k, wrapped: false, top: format!("p_{}", k.rust()) });
    }

    // argument 7: the checker (`setvalue_check` = the code with fix_1 + fix_2, `setvalue_check_head` = 7fbf91e)
    let checker = args.get(6).cloned().unwrap_or_else(|| "setvalue_check".into());
    let mut cases = CasesFile::new(&[], "sv_case", &checker);
    // where the checker lives: the development's Model/SetValue.v, or (argument 6) another Require line
    cases.prelude = args.get(5).cloned().unwrap_or_else(|| "From BS Require Import Model.SetValue.".into());
    let mut hist: BTreeMap<String, u64> = BTreeMap::new();
    let mut seen = HashSet::new();
    let mut nontrivial = 0usize;
    let mut samples: Vec<Value> = vec![];
    let mut errors: Vec<String> = vec![];
    let mut case_meta: Vec<Value> = vec![];
    let mut sessions = 0u64;
    let (mut ms_setup, mut ms_requests, mut ms_end) = (0u64, 0u64, 0u64);
    let t_start = std::time::Instant::now();

    while cases.cases.len() < count && sessions < (count as u64 / 8 + 6) {
        sessions += 1;
        let t_sess = std::time::Instant::now();
        let mut d = Dap { c: dap::Client::start() };
        let mut okk = d.ok("initialize", json!({"adapterID": "bs", "linesStartAt1": true, "columnsStartAt1": true})).is_some();
        okk &= d.ok("launch", json!({"program": bin_s, "args": [rounds.to_string()]})).is_some();
        okk &= d.ok("setBreakpoints", json!({"source": {"path": src_path}, "breakpoints": [{"line": stop_line}]})).is_some();
        let from = d.c.log_len();
        okk &= d.req("configurationDone", json!({})).is_some();
        let stop_at = d.c.wait_event("stopped", from, 90000);
        if !okk || stop_at.is_none() {
            errors.push(format!("session {sessions}: could not reach the stop"));
            let _ = d.finish();
            continue;
        }
        let thread_id = d.c.transcript()[stop_at.unwrap()]["body"]["threadId"].as_i64().unwrap_or(0);
        let Some(cpid) = child_running(&bin) else {
            errors.push(format!("session {sessions}: debuggee process not found"));
            let _ = d.finish();
            continue;
        };
        if !d.wait_stdout("ADDR_END", 30000) {
            errors.push(format!("session {sessions}: the program's address lines did not arrive"));
            let _ = d.finish();
            continue;
        }
        let mut addr: HashMap<String, u64> = HashMap::new();
        for l in d.stdout_lines() {
            let p: Vec<&str> = l.split_whitespace().collect();
            if p.len() == 3 && p[0] == "ADDR" {
                if let Ok(a) = u64::from_str_radix(p[2].trim_start_matches("0x"), 16) {
                    addr.insert(p[1].to_string(), a);
                }
            }
        }
        let mut session_dead = false;
        'rounds: for round in 0..rounds {
            let frame_id = d
                .ok("stackTrace", json!({"threadId": thread_id}))
                .and_then(|r| r["body"]["stackFrames"].as_array().and_then(|a| a.first().cloned()))
                .and_then(|f| f["id"].as_i64());
            let Some(frame_id) = frame_id else {
                errors.push(format!("session {sessions}: no stack frame"));
                break 'rounds;
            };
            let Some(lref) = locals_ref(&mut d, frame_id) else {
                errors.push(format!("session {sessions}: no Locals scope"));
                break 'rounds;
            };
            if probe {
                let vs = d.ok("variables", json!({"variablesReference": lref}));
                eprintln!("{}", serde_json::to_string_pretty(&vs).unwrap_or_default());
                for sp in &specs {
                    eprintln!("{} -> {:?}", sp.top, read_var(&mut d, lref, &sp.top, sp.wrapped));
                }
            }
            // the reference that contains each entry (valid for the whole stop)
            let mut holder: HashMap<String, i64> = HashMap::new();
            for sp in &specs {
                if let Some((r, _)) = read_var(&mut d, lref, &sp.top, sp.wrapped) {
                    holder.insert(sp.top.clone(), r);
                }
            }
            let t_ready = std::time::Instant::now();
            if round == 0 {
                ms_setup += t_ready.duration_since(t_sess).as_millis() as u64;
            }
            // one request per variable, in a seeded order
            let mut order: Vec<usize> = (0..specs.len()).collect();
            for i in (1..order.len()).rev() {
                let j = rng.below(i as u64 + 1) as usize;
                order.swap(i, j);
            }
            struct Pending {
                top: String,
                kind: Kind,
                head: String, // the case up to (not including) c_program
                meta: Value,
                nontrivial: bool,
            }
            let mut pending: Vec<Pending> = vec![];
            for vi in order {
                let sp = &specs[vi];
                let k = sp.kind;
                let Some(&a) = addr.get(&sp.top) else {
                    errors.push(format!("session {sessions}: no address for {}", sp.top));
                    continue;
                };
                let (stream, text) = gen_text(&mut rng, k);
                let via_expr = rng.chance(2, 5);
                let win_before = e2e::proc_mem_read(cpid, a - 16, k.size() + 32).unwrap_or_default();
                let Some(&cref) = holder.get(&sp.top) else {
                    errors.push(format!("session {sessions}: {} not listed", sp.top));
                    continue;
                };
                let from = d.c.log_len();
                let resp = if via_expr {
                    let expr = if sp.wrapped { format!("{}.v", sp.top) } else { sp.top.clone() };
                    d.req("setExpression", json!({"expression": expr, "value": text, "frameId": frame_id}))
                } else {
                    let name = if sp.wrapped { "v".to_string() } else { sp.top.clone() };
                    d.req("setVariable", json!({"variablesReference": cref, "name": name, "value": text}))
                };
                let Some(resp) = resp else {
                    errors.push(format!("session {sessions}: no response for {} := {:?}", sp.top, text));
                    break;
                };
                let success = resp["success"] == true;
                let win_after = e2e::proc_mem_read(cpid, a - 16, k.size() + 32).unwrap_or_default();
                if win_before.len() != k.size() + 32 || win_after.len() != k.size() + 32 {
                    errors.push(format!("session {sessions}: could not read the debuggee's memory at {}", sp.top));
                    continue;
                }
                let n = k.size();
                let before = &win_before[16..16 + n];
                let after = &win_after[16..16 + n];
                let canaries = win_before[..16] == win_after[..16] && win_before[16 + n..] == win_after[16 + n..];
                    let reply = if success { resp["body"]["value"].as_str().and_then(|v| shown_value(k, v)) } else { None };
                // (a) the same reference again
                let reread_text = d
                    .ok("variables", json!({"variablesReference": cref}))
                    .and_then(|vs| find_var(&vs, if sp.wrapped { "v" } else { sp.top.as_str() }).and_then(|v| v["value"].as_str().map(|s| s.to_string())));
                let reread = reread_text.as_deref().and_then(|t| shown_value(k, t));
                // (b) what a client does on `invalidated`: scopes, then variables down to the entry
                let refetch_text = locals_ref(&mut d, frame_id).and_then(|l2| read_var(&mut d, l2, &sp.top, sp.wrapped)).map(|x| x.1);
                let refetch = refetch_text.as_deref().and_then(|t| shown_value(k, t));
            // (the event is written after the response: look for it once the following requests have been answered)
            let invalidated = d.c.transcript().iter().skip(from).any(|m| m["type"] == "event" && m["event"] == "invalidated");
                let head = format!(
                    "SvCase {} {} {} {} {} {} {} {} {} {}",
                    k.coq(),
                    if via_expr { "ViaSetExpression" } else { "ViaSetVariable" },
                    text_term(&text),
                    cf::boolean(success),
                    cf::bytes(before),
                    cf::bytes(after),
                    cf::boolean(canaries),
                    cf::option(&reply, |z| z.clone()),
                    cf::option(&reread, |z| z.clone()),
                    cf::option(&refetch, |z| z.clone()),
                );
                *hist.entry(format!("kind:{}", k.rust())).or_default() += 1;
                *hist.entry(format!("via:{}", if via_expr { "setExpression" } else { "setVariable" })).or_default() += 1;
                *hist.entry(format!("place:{}", if sp.wrapped { "struct-field" } else { "local" })).or_default() += 1;
                *hist.entry(format!("stream:{stream}")).or_default() += 1;
                *hist.entry(format!("outcome:{}", if success { "written" } else { "refused" })).or_default() += 1;
                *hist.entry(format!("changed:{}", before != after)).or_default() += 1;
                if success {
                    *hist.entry(format!("invalidated-event:{invalidated}")).or_default() += 1;
                }
                let meta = json!({"kind": k.rust(), "via": if via_expr { "setExpression" } else { "setVariable" }, "place": if sp.wrapped { "struct-field" } else { "local" },
                    "stream": stream, "text": text, "success": success, "reply": resp["body"]["value"], "reread": reread_text, "refetch": refetch_text,
                    "before": before, "after": after, "message": resp["message"]});
                pending.push(Pending { top: sp.top.clone(), kind: k, head, meta, nontrivial: success && before != after });
            }
            ms_requests += t_ready.elapsed().as_millis() as u64;
            let t_run = std::time::Instant::now();
            // let the program speak
            let from = d.c.log_len();
            let cont = d.req("continue", json!({"threadId": thread_id}));
            let last = round + 1 == rounds;
            let ended = cont.is_some() && (d.c.wait_event(if last { "terminated" } else { "stopped" }, from, 60000).is_some());
            let got_fin = d.wait_stdout(&format!("FIN_END {round}"), 20000);
            if !ended || !got_fin {
                let tr = d.c.transcript();
                let exit = tr.iter().find(|m| m["type"] == "event" && m["event"] == "exited").map(|m| m["body"]["exitCode"].clone());
                let tail: Vec<String> = tr.iter().rev().take(6).map(|m| m.to_string().chars().take(160).collect()).collect();
                errors.push(format!("session {sessions}: round {round}: the program did not reach the next stop / its end after the writes (ended={ended}, output complete={got_fin}, exit={exit:?}, last messages={tail:?})"));
            }
            let mut fin: HashMap<String, (String, bool)> = HashMap::new();
            for l in d.stdout_lines() {
                let p: Vec<&str> = l.split_whitespace().collect();
                if p.len() == 5 && p[0] == "FIN" && p[1] == round.to_string() {
                    fin.insert(p[2].to_string(), (p[3].to_string(), p[4] == "true"));
                }
            }
            ms_end += t_run.elapsed().as_millis() as u64;
            for p in pending {
                let Some((txt, can_ok)) = fin.get(&p.top) else {
                    errors.push(format!("session {sessions}: the program printed nothing for {}", p.top));
                    continue;
                };
                // the program prints integers with {:?}; floats, bool and char as the raw pattern it reads from its own memory
                let prog = match int_view(txt) {
                    Some((_, z)) => z,
                    None => {
                        errors.push(format!("session {sessions}: unreadable program output for {}: {txt}", p.top));
                        continue;
                    }
                };
                let _ = p.kind;
                let case = format!("{} {} {}", p.head, prog, cf::boolean(*can_ok));
                if seen.insert(case.clone()) && p.nontrivial {
                    nontrivial += 1;
                }
                if samples.len() < 3 && p.nontrivial {
                    let mut m = p.meta.clone();
                    m["program_printed"] = json!(txt);
                    m["program_canaries_intact"] = json!(can_ok);
                    samples.push(m);
                }
                let mut m = p.meta;
                m["program_printed"] = json!(txt);
                case_meta.push(m);
                cases.push(case);
                if cases.cases.len() >= count {
                    break;
                }
            }
            if !ended || !got_fin || cases.cases.len() >= count {
                break 'rounds;
            }
        }
        let t_fin = std::time::Instant::now();
        let (finished, no_panic) = d.finish();
        ms_end += t_fin.elapsed().as_millis() as u64;
        if !finished || !no_panic {
            errors.push(format!("session {sessions}: session thread finished={finished} without panic={no_panic}"));
            if !finished {
                session_dead = true;
            }
        }
        if session_dead {
            break;
        }
        if t_start.elapsed().as_secs() > 3000 {
            errors.push("time limit".into());
            break;
        }
    }
    let shard = 400usize;
    let files = cases.write(&out_dir, "cases_C15_setvar", shard);
    println!(
        "{}",
        json!({"leg": "c15-setvar", "seed": seed, "cases": cases.cases.len(), "distinct_nontrivial": nontrivial, "histogram": hist, "samples": samples,
            "files": files, "errors": errors, "sessions": sessions, "case_meta": case_meta, "shard": shard,
            "seconds": t_start.elapsed().as_secs(), "ms_setup": ms_setup, "ms_requests": ms_requests, "ms_end": ms_end})
    );
    0
}
