# Additions to /verif/checks/C15.py for the clause
#   "DAP setVariable and setExpression make a later read of that variable return the written value and leave
#    neighbouring data untouched"   (all writable scalar variables x representable values)
#
# Files to install first (from /verif/coq/wip/c15set_leg):
#   ModelSetValue.v     -> coq/theories/Model/SetValue.v          (imports: BS.Model.Base, BS.Model.Decode)
#   ProofsSetValue.v    -> coq/theories/Proofs/SetValueProofs.v   (replace `From W Require Import ModelSetValue.` by
#                                                                  `From BS Require Import Model.SetValue.`)
#   PropertiesC15set.v  -> append its theorems to coq/theories/Properties/C15.v (same replacement of the W imports)
#   leg_c15s.rs         -> harness/src/leg_c15s.rs, main.rs lines in main_rs.txt
#   fix_1.patch, fix_2.patch -> /repo (git am); known_findings.txt lines below if they are NOT applied.
from legs import run_classified_leg

# 1. extra COQ_FILES (Decode.v / DecodeProofs.v are C06's files; SetValue.v reuses le_encode / scalar_signed and the
#    round-trip lemmas int_unsigned_roundtrip / int_signed_roundtrip)
EXTRA_COQ_FILES = ["Model/Decode.v", "Proofs/DecodeProofs.v", "Model/SetValue.v", "Proofs/SetValueProofs.v"]
# COQ_FILES = COQ_FILES[:-1] + EXTRA_COQ_FILES + ["Properties/C15.v"]

# 2. text to append to RULES["C15"]
RULES_APPEND = (
    " setvar leg: a debuggee holds in main one local of every scalar kind (i8..i128, u8..u128, isize, usize, f32, f64, bool, char) twice: "
    "plain (a top-level entry of the Locals scope) and as field v of a #[repr(C)] struct between two 16-byte canary arrays (a child entry: nested "
    "address); it prints every address, then loops over a breakpoint line and prints every variable ({:?}; floats, bool, char as the raw pattern read "
    "from its own memory) and the state of its canaries after each stop. At each stop every variable gets exactly one request, setVariable (60%) or "
    "setExpression (40%), with a seeded text: 70% a value of the type (min, max, 0, +-1, powers of two, max-1, random magnitudes; decimal, 0x / 0X hex, "
    "'+' sign, blank / tab padding; bool table words; char as 'c', c, decimal and hex code incl. U+D7FF, U+E000, U+10FFFF, quote, backslash; floats incl. "
    "inf, NaN, subnormal, overflow, 2^24+1), 18% a number outside the type (max+1, min-1, 2^bits, all-ones hex for signed kinds, multiples of 2^bits, "
    "beyond 128 bits, -1 for unsigned, surrogates and > 0x10FFFF and > 2^32 for char, 2 / 255 / -1 for bool), 12% malformed texts (empty, words, "
    "'1.5', '0x', '--1', '1_000', \"'ab'\", '-0x5', '-0' for unsigned kinds ...). Around each request the harness reads the variable and 16 bytes on each "
    "side through /proc/<pid>/mem, re-reads the entry through `variables` on the same reference and through scopes + variables (what a client does on "
    "`invalidated`), and takes the program's own print after `continue` as ground truth. The case (kind, views of the text, via, success, bytes before / "
    "after, canaries, reply / reread / refetch as numbers, program value, program canaries) is decided in Coq by setvalue_check: model = "
    "parse_set_value (bytes exact, refusal exact) + what the adapter shows afterwards; spec = success implies memory holds the requested value of the "
    "type, every later read and the program agree with memory, neighbours untouched, a refused request changes nothing. Non-trivial: the request "
    "succeeded and changed the bytes; distinct by case text.")

# 3. classification of failing cases.  With fix_1.patch and fix_2.patch applied nothing is expected to fail; on 7fbf91e
#    (checker setvalue_check_head) exactly these three causes occur:
def classify_setvar(gi, meta, v):
    changed = meta.get("before") != meta.get("after")
    if v < 2:
        return ("c15-setvar:model", False, "implementation differs from the model of parse_set_value / of the variables cache")
    if meta.get("success") and meta.get("stream") == "nonrepresentable":
        return ("c15-setvar:out-of-range-accepted", True,
                "a number that does not fit the variable's type was accepted and stored modulo 2^bits (or as an invalid char)")
    if meta.get("success") and meta.get("via") == "setExpression" and changed:
        return ("c15-setvar:stale-after-setExpression", True,
                "after setExpression the Locals listing (same reference, and after scopes again) still shows the value read before the write")
    if (not meta.get("success")) and meta.get("kind") == "char" and meta.get("reread") == "<unavailable>" and not changed:
        return ("c15-setvar:invalid-char-unavailable", True,
                "the char holds an invalid code (written earlier by an accepted out-of-range request): the adapter shows <unavailable> and refuses writes")
    return ("c15-setvar:spec", True, "a later read / the program / the neighbours disagree with the write")

# known_findings.txt lines (only if the fix patches are NOT applied to /repo):
# finding: property=C15 key=c15-setvar:out-of-range-accepted DAP setVariable/setExpression with a number outside the variable's type (u8 := 300, i16 := 65535, usize := 2^64, char := 0xD800 / 0x110000) succeeds and stores the value modulo 2^bits (data.rs parse_set_value `as` casts); setVariable then shows the request text instead of the stored value
# finding: property=C15 key=c15-setvar:stale-after-setExpression after a successful setExpression the session's cached scope listing is not refreshed: `variables` on the Locals reference, and scopes + variables again, keep showing the old value until the next stop (data.rs handle_set_expression / frame.rs scope_cache)
# finding: property=C15 key=c15-setvar:invalid-char-unavailable a char variable that holds an invalid code (only reachable through c15-setvar:out-of-range-accepted) is shown as <unavailable> and cannot be written any more

# 4. inside run(tier, seed), after the c15-disasm leg:
def run_setvar(ctx, tier, seed, fixes_applied=True):
    # quick: 1 launched session x 8 stops x 32 variables = 256 cases, 35-80 s of leg time on the loaded machine (launch ~27 s,
    #        ~60 ms per case), evaluation in Coq ~15 s; thorough: 8 sessions x 16 stops = 4096 cases, ~10-15 min + ~3 min Coq
    n, stops = (256, 8) if tier == "quick" else (4096, 16)
    checker = "setvalue_check" if fixes_applied else "setvalue_check_head"
    s = run_classified_leg(ctx, "c15-setvar",
                           [seed, n, ctx.cases_dir, ctx.scratch + "/s", "-", "From BS Require Import Model.SetValue.", checker, stops],
                           "after a DAP setVariable / setExpression the variable does not hold the requested value, a later read (same reference, "
                           "scopes + variables again, or the program itself) disagrees with memory, or bytes next to the variable changed",
                           classify_setvar)
    return s

# 5. ctx.refuted entries
REFUTED = [
    {"theorem": "C15set_int_truncation_refuted_old", "witness": "u8 := \"300\" stores 44",
     "status": "describes 7fbf91e; repaired by fix_2.patch (C15set_fix2_int_exact); the setvar leg replays it against the current code"},
    {"theorem": "C15set_char_invalid_refuted_old", "witness": "char := \"0xD800\" is accepted",
     "status": "describes 7fbf91e; repaired by fix_2.patch (C15set_fix2_char_exact); the setvar leg replays it against the current code"},
]
# assumptions to add to ctx.finish([...]):
#   "the reading of a request text as a number (str::parse::<i128/u128/f32/f64>, from_str_radix, the char/bool word classes) enters the model as
#    the views computed by the harness from the same text; composite values (serialize_dap_value) are not covered by the setvar leg"
