(* C15 (setVariable / setExpression clause) - proofs about parse_set_value (ModelSetValue.v). *)
From BS Require Import Model.Base.
From BS Require Import Model.Decode.
From BS Require Import Proofs.DecodeProofs.
From W Require Import ModelSetValue.
From Coq Require Import Lia.
Open Scope N_scope.
Local Ltac Zify.zify_post_hook ::= Z.to_euclidean_division_equations.

(* ========================================================================================== *)
(* 0. The casts                                                                                *)
(* ========================================================================================== *)
Lemma pow8_pos : forall w, 0 < 2 ^ (8 * N.of_nat w).
Proof. intros. apply N.neq_0_lt_0, N.pow_nonzero. lia. Qed.

Lemma pow8_half : forall w, (0 < w)%nat -> 2 ^ (8 * N.of_nat w) = 2 * 2 ^ (8 * N.of_nat w - 1).
Proof.
  intros w Hw. replace (8 * N.of_nat w) with (N.succ (8 * N.of_nat w - 1)) at 1 by lia.
  now rewrite N.pow_succ_r'.
Qed.

Lemma cast_u_lt : forall w z, cast_u w z < 2 ^ (8 * N.of_nat w).
Proof.
  intros w z. unfold cast_u. pose proof (pow8_pos w) as HP.
  set (M := 2 ^ (8 * N.of_nat w)) in *.
  assert (0 <= z mod Z.of_N M < Z.of_N M)%Z by (apply Z.mod_pos_bound; lia). lia.
Qed.

Lemma cast_u_id : forall w z, (0 <= z < Z.of_N (2 ^ (8 * N.of_nat w)))%Z -> cast_u w z = Z.to_N z.
Proof. intros w z H. unfold cast_u. now rewrite Z.mod_small. Qed.

Lemma cast_s_range : forall w z, (0 < w)%nat ->
  (- Z.of_N (2 ^ (8 * N.of_nat w - 1)) <= cast_s w z < Z.of_N (2 ^ (8 * N.of_nat w - 1)))%Z.
Proof.
  intros w z Hw. unfold cast_s, to_signed. pose proof (cast_u_lt w z) as HU.
  rewrite (pow8_half w Hw) in *.
  destruct (N.ltb_spec (cast_u w z) (2 ^ (8 * N.of_nat w - 1))); lia.
Qed.

Lemma cast_s_id : forall w z, (0 < w)%nat ->
  (- Z.of_N (2 ^ (8 * N.of_nat w - 1)) <= z < Z.of_N (2 ^ (8 * N.of_nat w - 1)))%Z -> cast_s w z = z.
Proof.
  intros w z Hw Hz. unfold cast_s, to_signed, cast_u. rewrite (pow8_half w Hw).
  set (H := 2 ^ (8 * N.of_nat w - 1)) in *.
  assert (HH : 0 < H) by (subst H; apply N.neq_0_lt_0, N.pow_nonzero; lia).
  destruct (Z.neg_nonneg_cases z) as [Hneg|Hpos].
  - assert (Hm : (z mod Z.of_N (2 * H) = z + Z.of_N (2 * H))%Z).
    { symmetry. apply (Z.mod_unique _ _ (-1)); lia. }
    rewrite Hm. destruct (N.ltb_spec (Z.to_N (z + Z.of_N (2 * H))) H); lia.
  - assert (Hm : (z mod Z.of_N (2 * H) = z)%Z) by (apply Z.mod_small; lia).
    rewrite Hm. destruct (N.ltb_spec (Z.to_N z) H); lia.
Qed.

(* `as iN` / `as uN` keep the value modulo 2^(8w): they are *the* representative of z in the type's range *)
Lemma cast_u_congr : forall w z, exists q : Z, (Z.of_N (cast_u w z) = z + q * Z.of_N (2 ^ (8 * N.of_nat w)))%Z.
Proof.
  intros w z. unfold cast_u. pose proof (pow8_pos w) as HP. set (M := 2 ^ (8 * N.of_nat w)) in *.
  exists (- (z / Z.of_N M))%Z.
  assert (0 <= z mod Z.of_N M < Z.of_N M)%Z by (apply Z.mod_pos_bound; lia).
  rewrite Z2N.id by lia. pose proof (Z.div_mod z (Z.of_N M)). lia.
Qed.

Lemma cast_s_congr : forall w z, exists q : Z, (cast_s w z = z + q * Z.of_N (2 ^ (8 * N.of_nat w)))%Z.
Proof.
  intros w z. destruct (cast_u_congr w z) as [q Hq]. unfold cast_s, to_signed.
  destruct (N.ltb_spec (cast_u w z) (2 ^ (8 * N.of_nat w - 1))).
  - exists q. exact Hq.
  - exists (q - 1)%Z. lia.
Qed.

(* ========================================================================================== *)
(* 1. Bytes of one value                                                                       *)
(* ========================================================================================== *)
Lemma signed_bytes : forall w x, (0 < w)%nat ->
  (- Z.of_N (2 ^ (8 * N.of_nat w - 1)) <= x < Z.of_N (2 ^ (8 * N.of_nat w - 1)))%Z ->
  length (to_le_bytes_s w x) = w /\ scalar_signed w (to_le_bytes_s w x) = Ok x.
Proof.
  intros w x Hw Hx. split.
  - unfold to_le_bytes_s. apply le_encode_length.
  - rewrite <- (app_nil_r (to_le_bytes_s w x)). now apply int_signed_roundtrip.
Qed.

Lemma unsigned_bytes : forall w v, v < 2 ^ (8 * N.of_nat w) ->
  length (to_le_bytes_u w v) = w /\ scalar_unsigned w (to_le_bytes_u w v) = Ok v.
Proof.
  intros w v Hv. split.
  - unfold to_le_bytes_u. apply le_encode_length.
  - rewrite <- (app_nil_r (to_le_bytes_u w v)). now apply int_unsigned_roundtrip.
Qed.

(* vec![x as u8] is to_le_bytes of the byte *)
Lemma one_byte : forall v, v < 256 -> [v] = to_le_bytes_u 1 v.
Proof.
  intros v Hv. unfold to_le_bytes_u. cbn [le_encode]. now rewrite N.mod_small.
Qed.

Lemma cast_u_1_lt : forall z, cast_u 1 z < 256.
Proof. intros z. exact (cast_u_lt 1 z). Qed.

(* vec![(x as i8) as u8] is (x as i8).to_le_bytes() *)
Lemma one_byte_s : forall x, [cast_u 1 x] = to_le_bytes_s 1 x.
Proof.
  intros x. unfold to_le_bytes_s. fold (cast_u 1 x). cbn [le_encode].
  rewrite N.mod_small by apply cast_u_1_lt. reflexivity.
Qed.

(* ========================================================================================== *)
(* 2. Integers: exact characterisation for every text                                          *)
(* ========================================================================================== *)
Definition is_int (k : skind) : bool :=
  match kind_class k with CSigned | CUnsigned => true | _ => false end.

(* the value `as` produces for kind k *)
Definition wrap_kind (k : skind) (z : Z) : Z :=
  match kind_class k with
  | CSigned => cast_s (kind_size k) z
  | _ => Z.of_N (cast_u (kind_size k) z)
  end.

(* the 128-bit parser in front of the cast accepts the literal *)
Definition parser_accepts (k : skind) (minus : bool) (z : Z) : bool :=
  match kind_class k with
  | CSigned => in_i128 z
  | _ => negb minus && in_u128 z
  end.

Ltac norm_consts :=
  repeat match goal with
  | |- context [Z.of_N (2 ^ ?e)] =>
      let c := eval vm_compute in (Z.of_N (2 ^ e)) in change (Z.of_N (2 ^ e)) with c
  | H : context [Z.of_N (2 ^ ?e)] |- _ =>
      let c := eval vm_compute in (Z.of_N (2 ^ e)) in change (Z.of_N (2 ^ e)) with c in H
  end.

Lemma in_i128_spec : forall z, in_i128 z = true <-> (- 2 ^ 127 <= z < 2 ^ 127)%Z.
Proof. intros. unfold in_i128. rewrite Bool.andb_true_iff, Z.leb_le, Z.ltb_lt. tauto. Qed.
Lemma in_u128_spec : forall z, in_u128 z = true <-> (0 <= z < 2 ^ 128)%Z.
Proof. intros. unfold in_u128. rewrite Bool.andb_true_iff, Z.leb_le, Z.ltb_lt. tauto. Qed.

Lemma stores_signed : forall k w z, kind_class k = CSigned -> kind_size k = w -> (0 < w)%nat ->
  stores k (to_le_bytes_s w (cast_s w z)) (cast_s w z).
Proof.
  intros k w z Hc Hs Hw. unfold stores, decode_value. rewrite Hc, Hs.
  apply signed_bytes; [exact Hw | now apply cast_s_range].
Qed.

Lemma stores_unsigned : forall k w z, kind_class k <> CSigned -> kind_size k = w ->
  stores k (to_le_bytes_u w (cast_u w z)) (Z.of_N (cast_u w z)).
Proof.
  intros k w z Hc Hs. unfold stores, decode_value. rewrite Hs.
  destruct (unsigned_bytes w (cast_u w z) (cast_u_lt w z)) as [HL HD].
  split; [exact HL|]. destruct (kind_class k); try congruence; rewrite HD; reflexivity.
Qed.

(* Every integer kind, every literal the 128-bit parser accepts: the request succeeds and the variable then
   holds the literal's value *cast* to the type - not necessarily the literal's value. *)
Theorem set_int_exact : forall k t minus z,
  is_int k = true -> tx_int t = Some (minus, z) -> parser_accepts k minus z = true ->
  exists bs, parse_set_value k t = Ok bs /\ stores k bs (wrap_kind k z).
Proof.
  intros k t minus z Hk Ht Hp.
  destruct k; try discriminate Hk; unfold parser_accepts, wrap_kind in *; cbn [kind_class kind_size] in *;
    cbn [parse_set_value]; unfold parse_int_i128, parse_int_u128; rewrite Ht;
    try (apply Bool.andb_true_iff in Hp; destruct Hp as [Hm Hp]; apply Bool.negb_true_iff in Hm; subst minus);
    rewrite Hp; cbn [bind]; eexists; (split; [reflexivity|]).
  - (* i8 *) rewrite one_byte_s. apply stores_signed; [reflexivity | reflexivity | lia].
  - apply stores_signed; [reflexivity | reflexivity | lia].
  - apply stores_signed; [reflexivity | reflexivity | lia].
  - apply stores_signed; [reflexivity | reflexivity | lia].
  - (* i128: no cast *)
    apply in_i128_spec in Hp.
    assert (Hid : cast_s 16 z = z) by (apply cast_s_id; [lia | norm_consts; lia]).
    rewrite <- Hid at 1. apply stores_signed; [reflexivity | reflexivity | lia].
  - apply stores_signed; [reflexivity | reflexivity | lia].
  - (* u8 *) rewrite (one_byte _ (cast_u_1_lt z)). apply stores_unsigned; [discriminate | reflexivity].
  - apply stores_unsigned; [discriminate | reflexivity].
  - apply stores_unsigned; [discriminate | reflexivity].
  - apply stores_unsigned; [discriminate | reflexivity].
  - (* u128: no cast *)
    apply in_u128_spec in Hp.
    assert (Hid : cast_u 16 z = Z.to_N z) by (apply cast_u_id; norm_consts; lia).
    rewrite <- Hid. apply stores_unsigned; [discriminate | reflexivity].
  - apply stores_unsigned; [discriminate | reflexivity].
Qed.

(* ... and every other text is refused *)
Theorem set_int_refused : forall k t,
  is_int k = true ->
  match tx_int t with Some (minus, z) => parser_accepts k minus z = false | None => True end ->
  parse_set_value k t = Err E_PARSE.
Proof.
  intros k t Hk Ht.
  destruct k; try discriminate Hk; unfold parser_accepts in *; cbn [kind_class] in *;
    cbn [parse_set_value]; unfold parse_int_i128, parse_int_u128;
    destruct (tx_int t) as [[minus z]|]; try reflexivity;
    try (rewrite Ht; reflexivity);
    destruct minus; cbn [negb andb] in Ht; try reflexivity; rewrite Ht; reflexivity.
Qed.

(* the cast is the identity exactly on the values of the type *)
Theorem wrap_kind_id : forall k z, is_int k = true -> representableb k z = true -> wrap_kind k z = z.
Proof.
  intros k z Hk Hr. unfold wrap_kind, representableb in *.
  destruct (kind_class k) eqn:Hc; try (unfold is_int in Hk; rewrite Hc in Hk; discriminate Hk).
  - apply Bool.andb_true_iff in Hr. destruct Hr as [H1 H2]. apply Z.leb_le in H1. apply Z.ltb_lt in H2.
    apply cast_s_id; [destruct k; cbn [kind_size]; try lia; discriminate Hc | lia].
  - apply Bool.andb_true_iff in Hr. destruct Hr as [H1 H2]. apply Z.leb_le in H1. apply Z.ltb_lt in H2.
    rewrite cast_u_id by lia. lia.
Qed.

Theorem wrap_kind_representable : forall k z, is_int k = true -> representableb k (wrap_kind k z) = true.
Proof.
  intros k z Hk. unfold wrap_kind, representableb.
  destruct (kind_class k) eqn:Hc; try (unfold is_int in Hk; rewrite Hc in Hk; discriminate Hk).
  - assert (Hw : (0 < kind_size k)%nat) by (destruct k; cbn [kind_size]; lia).
    pose proof (cast_s_range (kind_size k) z Hw) as [H1 H2].
    apply Bool.andb_true_iff. split; [apply Z.leb_le | apply Z.ltb_lt]; lia.
  - pose proof (cast_u_lt (kind_size k) z).
    apply Bool.andb_true_iff. split; [apply Z.leb_le | apply Z.ltb_lt]; lia.
Qed.

Theorem wrap_kind_congr : forall k z, is_int k = true ->
  exists q : Z, (wrap_kind k z = z + q * Z.of_N (2 ^ (8 * N.of_nat (kind_size k))))%Z.
Proof.
  intros k z Hk. unfold wrap_kind.
  destruct (kind_class k); try apply cast_s_congr; apply cast_u_congr.
Qed.

(* every value of an integer type is accepted by the parser in front (128 bits are enough) *)
Lemma representable_accepted : forall k z, is_int k = true -> representableb k z = true ->
  parser_accepts k false z = true.
Proof.
  intros k z Hk Hr.
  destruct k; try discriminate Hk; unfold representableb, parser_accepts in *; cbn [kind_class kind_size negb andb] in *;
    apply Bool.andb_true_iff in Hr; destruct Hr as [H1 H2]; apply Z.leb_le in H1; apply Z.ltb_lt in H2;
    norm_consts; (apply in_i128_spec || apply in_u128_spec); lia.
Qed.

(* HEADLINE (integers): every representable value, written without a '-0' oddity, is stored exactly. *)
Theorem set_int_roundtrip : forall k t minus z,
  is_int k = true -> tx_int t = Some (minus, z) -> representableb k z = true ->
  (kind_class k = CUnsigned -> minus = false) ->
  exists bs, parse_set_value k t = Ok bs /\ stores k bs z.
Proof.
  intros k t minus z Hk Ht Hr Hm.
  assert (Hp : parser_accepts k minus z = true).
  { pose proof (representable_accepted k z Hk Hr) as Ha. unfold parser_accepts in *.
    destruct (kind_class k) eqn:Hc; try exact Ha; rewrite (Hm eq_refl) || (unfold is_int in Hk; rewrite Hc in Hk; discriminate Hk);
    exact Ha. }
  destruct (set_int_exact k t minus z Hk Ht Hp) as [bs [H1 H2]].
  exists bs. split; [exact H1|]. now rewrite (wrap_kind_id k z Hk Hr) in H2.
Qed.

(* The same as one statement about [requested]: whenever the request is accepted, what the variable then
   holds is the requested value iff that value is one of the type's. *)
Theorem set_int_truncates : forall k t bs r v,
  is_int k = true -> parse_set_value k t = Ok bs -> requested k t = Some r -> stores k bs v ->
  v = wrap_kind k r /\ (v = r <-> representableb k r = true).
Proof.
  intros k t bs r v Hk Hok Hreq Hst.
  assert (Hreq' : option_map snd (tx_int t) = Some r) by (destruct k; try discriminate Hk; exact Hreq).
  destruct (tx_int t) as [[minus z]|] eqn:Ht; [|discriminate Hreq'].
  cbn [option_map snd] in Hreq'. injection Hreq' as ->.
  destruct (parser_accepts k minus r) eqn:Hp.
  - destruct (set_int_exact k t minus r Hk Ht Hp) as [bs' [H1 [_ H2]]].
    rewrite Hok in H1. injection H1 as <-. destruct Hst as [_ Hd]. rewrite H2 in Hd. injection Hd as <-.
    split; [reflexivity|]. split.
    + intros He. rewrite <- He. now apply wrap_kind_representable.
    + now apply wrap_kind_id.
  - rewrite (set_int_refused k t Hk) in Hok; [discriminate Hok | rewrite Ht; exact Hp].
Qed.

(* REFUTED: "a successful request stores the requested number".  u8 := 300 is accepted and stores 44;
   i8 := 0xff stores -1; usize := 2^64 stores 0.
   Reproduction on the real debugger (7fbf91e): stop in a frame with `let mut p_u8: u8`, DAP
   setVariable {variablesReference: <Locals>, name: "p_u8", value: "300"} -> success, body.value "300",
   the process holds 44 (the program prints 44 after continue). *)
Definition text_of_int (z : Z) : sv_text := SvText (Some ((z <? 0)%Z, z)) None None BtOther CtOther.

Theorem set_int_truncation_refuted :
  exists k t r bs v, is_int k = true /\ requested k t = Some r /\ representableb k r = false /\
                     parse_set_value k t = Ok bs /\ stores k bs v /\ v <> r.
Proof.
  exists KU8, (text_of_int 300), 300%Z, [44], 44%Z. repeat split; try (vm_compute; reflexivity). discriminate.
Qed.

(* ========================================================================================== *)
(* 3. bool, char, floats                                                                       *)
(* ========================================================================================== *)
(* the bool table is total and exact *)
Theorem set_bool_exact : forall t,
  match requested KBool t with
  | Some r => exists bs, parse_set_value KBool t = Ok bs /\ stores KBool bs r /\ representableb KBool r = true
  | None => parse_set_value KBool t = Err E_PARSE
  end.
Proof.
  intros t. cbn [requested parse_set_value]. destruct (tx_bool t); try reflexivity;
    eexists; (split; [reflexivity|]); split; try reflexivity; split; reflexivity.
Qed.

(* floats: the bytes are the bit pattern the standard library's parser returned *)
Theorem set_f32_exact : forall t,
  match tx_f32 t with
  | Some b => b < 2 ^ 32 -> exists bs, parse_set_value KF32 t = Ok bs /\ stores KF32 bs (Z.of_N b)
  | None => parse_set_value KF32 t = Err E_PARSE
  end.
Proof.
  intros t. cbn [parse_set_value]. destruct (tx_f32 t) as [b|]; [|reflexivity].
  intros Hb. eexists. split; [reflexivity|]. unfold stores, decode_value. cbn [kind_class kind_size].
  destruct (unsigned_bytes 4 b Hb) as [HL HD]. split; [exact HL|]. rewrite HD. reflexivity.
Qed.

Theorem set_f64_exact : forall t,
  match tx_f64 t with
  | Some b => b < 2 ^ 64 -> exists bs, parse_set_value KF64 t = Ok bs /\ stores KF64 bs (Z.of_N b)
  | None => parse_set_value KF64 t = Err E_PARSE
  end.
Proof.
  intros t. cbn [parse_set_value]. destruct (tx_f64 t) as [b|]; [|reflexivity].
  intros Hb. eexists. split; [reflexivity|]. unfold stores, decode_value. cbn [kind_class kind_size].
  destruct (unsigned_bytes 8 b Hb) as [HL HD]. split; [exact HL|]. rewrite HD. reflexivity.
Qed.

(* char, literal forms ('c' and a bare c): the code point of the character is stored *)
Theorem set_char_literal : forall t c,
  (tx_char t = CtQuoted [c] \/ tx_char t = CtSingle c) -> c < 2 ^ 32 ->
  requested KChar t = Some (Z.of_N c) /\
  exists bs, parse_set_value KChar t = Ok bs /\ stores KChar bs (Z.of_N c).
Proof.
  intros t c Ht Hc. cbn [requested parse_set_value].
  destruct (unsigned_bytes 4 c Hc) as [HL HD].
  destruct Ht as [Ht|Ht]; rewrite Ht; (split; [reflexivity|]); eexists; (split; [reflexivity|]);
    unfold stores, decode_value; cbn [kind_class kind_size]; (split; [exact HL|]); rewrite HD; reflexivity.
Qed.

Theorem set_char_literal_refused : forall t cs,
  tx_char t = CtQuoted cs -> length cs <> 1%nat -> parse_set_value KChar t = Err E_PARSE.
Proof.
  intros t cs Ht Hl. cbn [parse_set_value]. rewrite Ht. destruct cs as [|c [|c' r]]; try reflexivity.
  cbn [length] in Hl. lia.
Qed.

(* char, numeric form: u128 parse, then `as u32` *)
Theorem set_char_numeric : forall t z,
  tx_char t = CtOther -> tx_int t = Some (false, z) -> in_u128 z = true ->
  exists bs, parse_set_value KChar t = Ok bs /\ stores KChar bs (Z.of_N (cast_u 4 z)).
Proof.
  intros t z Hc Ht Hz. cbn [parse_set_value]. rewrite Hc. unfold parse_int_u128. rewrite Ht, Hz. cbn [bind].
  eexists. split; [reflexivity|]. apply stores_unsigned; [discriminate | reflexivity].
Qed.

Theorem set_char_numeric_roundtrip : forall t z,
  tx_char t = CtOther -> tx_int t = Some (false, z) -> representableb KChar z = true ->
  exists bs, parse_set_value KChar t = Ok bs /\ stores KChar bs z.
Proof.
  intros t z Hc Ht Hr.
  assert (Hz : (0 <= z <= 1114111)%Z).
  { unfold representableb in Hr. cbn [kind_class] in Hr. lia. }
  destruct (set_char_numeric t z Hc Ht) as [bs [H1 H2]]; [apply in_u128_spec; lia|].
  exists bs. split; [exact H1|]. rewrite cast_u_id in H2 by (norm_consts; lia).
  now rewrite Z2N.id in H2 by lia.
Qed.

(* REFUTED: "what a successful request stores in a char is a char".  The numeric form accepts surrogates and
   numbers above 0x10FFFF (and wraps above 2^32).  Reproduction (7fbf91e): setVariable on a `char` local with
   value "0xD800" -> success; the debuggee then holds an invalid char (undefined behaviour when it is used). *)
Theorem set_char_invalid_refuted :
  exists t bs v, parse_set_value KChar t = Ok bs /\ stores KChar bs v /\ representableb KChar v = false.
Proof.
  exists (SvText (Some (false, 55296%Z)) None None BtOther CtOther), [0; 216; 0; 0], 55296%Z.
  repeat split; vm_compute; reflexivity.
Qed.

(* a one-character text is that character, also when it is a digit: "7" stores '7' (55), not code point 7 *)
Example set_char_digit :
  parse_set_value KChar (SvText (Some (false, 7%Z)) (Some 1088421888) (Some 4619567317775286272) BtOther (CtSingle 55))
  = Ok [55; 0; 0; 0].
Proof. reflexivity. Qed.

(* ========================================================================================== *)
(* 4. All kinds: the size of what is written                                                   *)
(* ========================================================================================== *)
Lemma le_s_len : forall w z, length (to_le_bytes_s w z) = w.
Proof. intros. unfold to_le_bytes_s. apply le_encode_length. Qed.
Lemma le_u_len : forall w v, length (to_le_bytes_u w v) = w.
Proof. intros. unfold to_le_bytes_u. apply le_encode_length. Qed.

Lemma bind_ok : forall {A B} (r : res A) (f : A -> res B) b, (x <- r ;; f x) = Ok b -> exists a, r = Ok a /\ f a = Ok b.
Proof. intros A B r f b H. destruct r; try discriminate H. eexists. split; [reflexivity | exact H]. Qed.

(* HEADLINE: whatever the text, an accepted request writes exactly size_of(type) bytes - with write_bytes'
   exactness (Proofs/MemProofs.v write_bytes_exact) nothing outside the variable changes. *)
Ltac len_tac := first [apply le_s_len | apply le_u_len | reflexivity].

Theorem set_value_length : forall k t bs, parse_set_value k t = Ok bs -> length bs = kind_size k.
Proof.
  intros k t bs H. destruct k; cbn [parse_set_value kind_size] in *;
    try (apply bind_ok in H; destruct H as [z [_ H]]; inversion H; len_tac).
  - destruct (tx_f32 t); [|discriminate H]. inversion H. len_tac.
  - destruct (tx_f64 t); [|discriminate H]. inversion H. len_tac.
  - destruct (tx_bool t); try discriminate H; inversion H; reflexivity.
  - destruct (tx_char t) as [[|c [|c' r]]|c|]; try discriminate H.
    + inversion H. len_tac.
    + inversion H. len_tac.
    + apply bind_ok in H. destruct H as [z [_ H]]. inversion H. len_tac.
Qed.

(* ========================================================================================== *)
(* 5. The repaired function (fix_2.patch): exact or refused, for every kind and every text      *)
(* ========================================================================================== *)
Lemma fits_s_repr : forall k w z, kind_class k = CSigned -> kind_size k = w -> fits_s w z = representableb k z.
Proof. intros k w z Hc Hs. unfold fits_s, representableb. rewrite Hc, Hs. reflexivity. Qed.
Lemma fits_u_repr : forall k w z, kind_class k = CUnsigned -> kind_size k = w -> fits_u w z = representableb k z.
Proof. intros k w z Hc Hs. unfold fits_u, representableb. rewrite Hc, Hs. reflexivity. Qed.

Lemma try_s_sound : forall k w z bs, kind_class k = CSigned -> kind_size k = w -> (0 < w)%nat ->
  try_s w z = Ok bs -> representableb k z = true /\ stores k bs z.
Proof.
  intros k w z bs Hc Hs Hw H. unfold try_s in H. rewrite (fits_s_repr k w z Hc Hs) in H.
  destruct (representableb k z) eqn:Hr; [|discriminate H]. injection H as <-. split; [reflexivity|].
  unfold representableb in Hr. rewrite Hc, Hs in Hr.
  apply Bool.andb_true_iff in Hr. destruct Hr as [H1 H2]. apply Z.leb_le in H1. apply Z.ltb_lt in H2.
  unfold stores, decode_value. rewrite Hc, Hs. apply signed_bytes; [exact Hw | lia].
Qed.

Lemma try_u_sound : forall k w z bs, kind_class k = CUnsigned -> kind_size k = w ->
  try_u w z = Ok bs -> representableb k z = true /\ stores k bs z.
Proof.
  intros k w z bs Hc Hs H. unfold try_u in H. rewrite (fits_u_repr k w z Hc Hs) in H.
  destruct (representableb k z) eqn:Hr; [|discriminate H]. injection H as <-. split; [reflexivity|].
  unfold representableb in Hr. rewrite Hc, Hs in Hr.
  apply Bool.andb_true_iff in Hr. destruct Hr as [H1 H2]. apply Z.leb_le in H1. apply Z.ltb_lt in H2.
  unfold stores, decode_value. rewrite Hc, Hs.
  destruct (unsigned_bytes w (Z.to_N z)) as [HL HD]; [lia|]. split; [exact HL|]. rewrite HD. cbn [bind].
  now rewrite Z2N.id.
Qed.

Lemma parse_i128_val : forall t z, parse_int_i128 t = Ok z -> option_map snd (tx_int t) = Some z /\ in_i128 z = true.
Proof.
  intros t z H. unfold parse_int_i128 in H. destruct (tx_int t) as [[m z']|]; [|discriminate H].
  destruct (in_i128 z') eqn:Hi; [|discriminate H]. injection H as <-. split; [reflexivity | exact Hi].
Qed.
Lemma parse_u128_val : forall t z, parse_int_u128 t = Ok z -> option_map snd (tx_int t) = Some z /\ in_u128 z = true.
Proof.
  intros t z H. unfold parse_int_u128 in H. destruct (tx_int t) as [[m z']|]; [|discriminate H].
  destruct m; [discriminate H|]. destruct (in_u128 z') eqn:Hi; [|discriminate H]. injection H as <-.
  split; [reflexivity | exact Hi].
Qed.

(* HEADLINE (integers and char, repaired code): an accepted request stores exactly the requested value, and
   that value is one of the type's.  No truncation is left. *)
Theorem fix2_int_exact : forall k t bs,
  is_int k = true -> parse_set_value_fix2 k t = Ok bs ->
  exists r, requested k t = Some r /\ representableb k r = true /\ stores k bs r.
Proof.
  intros k t bs Hk H.
  destruct k; try discriminate Hk; cbn [parse_set_value_fix2 requested] in *;
    apply bind_ok in H; destruct H as [z [Hp H]];
    (apply parse_i128_val in Hp || apply parse_u128_val in Hp); destruct Hp as [Hreq Hin];
    exists z; (split; [exact Hreq|]).
  - eapply try_s_sound in H; [exact H | reflexivity | reflexivity | lia].
  - eapply try_s_sound in H; [exact H | reflexivity | reflexivity | lia].
  - eapply try_s_sound in H; [exact H | reflexivity | reflexivity | lia].
  - eapply try_s_sound in H; [exact H | reflexivity | reflexivity | lia].
  - (* i128 *) injection H as <-. apply in_i128_spec in Hin. split.
    + unfold representableb. cbn [kind_class kind_size]. norm_consts. apply Bool.andb_true_iff.
      split; [apply Z.leb_le | apply Z.ltb_lt]; lia.
    + unfold stores, decode_value. cbn [kind_class kind_size]. apply signed_bytes; [lia | norm_consts; lia].
  - eapply try_s_sound in H; [exact H | reflexivity | reflexivity | lia].
  - eapply try_u_sound in H; [exact H | reflexivity | reflexivity].
  - eapply try_u_sound in H; [exact H | reflexivity | reflexivity].
  - eapply try_u_sound in H; [exact H | reflexivity | reflexivity].
  - eapply try_u_sound in H; [exact H | reflexivity | reflexivity].
  - (* u128 *) assert (Hb : bs = to_le_bytes_u 16 (Z.to_N z)) by congruence. subst bs. clear H.
    apply in_u128_spec in Hin. split.
    + unfold representableb. cbn [kind_class kind_size]. norm_consts. apply Bool.andb_true_iff.
      split; [apply Z.leb_le | apply Z.ltb_lt]; lia.
    + unfold stores, decode_value. cbn [kind_class kind_size].
      destruct (unsigned_bytes 16 (Z.to_N z)) as [HL HD]; [norm_consts; lia|]. split; [exact HL|].
      rewrite HD. cbn [bind]. now rewrite Z2N.id by lia.
  - eapply try_u_sound in H; [exact H | reflexivity | reflexivity].
Qed.

Theorem fix2_char_exact : forall t bs,
  (forall c, (tx_char t = CtQuoted [c] \/ tx_char t = CtSingle c) -> representableb KChar (Z.of_N c) = true) ->
  parse_set_value_fix2 KChar t = Ok bs ->
  exists r, requested KChar t = Some r /\ representableb KChar r = true /\ stores KChar bs r.
Proof.
  intros t bs Hvalid H. cbn [parse_set_value_fix2 requested] in *.
  assert (Hlit : forall c, representableb KChar (Z.of_N c) = true -> stores KChar (to_le_bytes_u 4 c) (Z.of_N c)).
  { intros c Hr. unfold representableb in Hr. cbn [kind_class] in Hr.
    destruct (unsigned_bytes 4 c) as [HL HD]; [norm_consts; lia|].
    unfold stores, decode_value. cbn [kind_class kind_size]. split; [exact HL|]. rewrite HD. reflexivity. }
  destruct (tx_char t) as [[|c [|c' r]]|c|] eqn:Ht; cbn [parse_set_value] in H; try rewrite Ht in H; try discriminate H.
  - injection H as <-. exists (Z.of_N c). pose proof (Hvalid c (or_introl eq_refl)) as Hr.
    split; [reflexivity|]. split; [exact Hr | now apply Hlit].
  - injection H as <-. exists (Z.of_N c). pose proof (Hvalid c (or_intror eq_refl)) as Hr.
    split; [reflexivity|]. split; [exact Hr | now apply Hlit].
  - apply bind_ok in H. destruct H as [z [Hp H]]. apply parse_u128_val in Hp. destruct Hp as [Hreq Hin].
    destruct (is_scalar_value z) eqn:Hs; [|discriminate H]. injection H as <-.
    exists z. split; [exact Hreq|]. split; [exact Hs|].
    assert (Hz : (0 <= z <= 1114111)%Z) by (unfold is_scalar_value in Hs; lia).
    pose proof (Hlit (Z.to_N z)) as HL. rewrite Z2N.id in HL by lia. apply HL. exact Hs.
Qed.

Lemma agree_s : forall w r, (0 < w)%nat -> fits_s w r = true -> try_s w r = Ok (to_le_bytes_s w (cast_s w r)).
Proof.
  intros w r Hw Hf. unfold try_s. rewrite Hf. rewrite cast_s_id; [reflexivity | exact Hw |].
  unfold fits_s in Hf. apply Bool.andb_true_iff in Hf. destruct Hf as [H1 H2].
  apply Z.leb_le in H1. apply Z.ltb_lt in H2. split; assumption.
Qed.

Lemma agree_u : forall w r, fits_u w r = true -> try_u w r = Ok (to_le_bytes_u w (cast_u w r)).
Proof.
  intros w r Hf. unfold try_u. rewrite Hf. rewrite cast_u_id; [reflexivity|].
  unfold fits_u in Hf. apply Bool.andb_true_iff in Hf. destruct Hf as [H1 H2].
  apply Z.leb_le in H1. apply Z.ltb_lt in H2. split; assumption.
Qed.

(* the repair changes nothing for requests that were right before: on representable values both agree *)
Theorem fix2_agrees_on_representable : forall k t r,
  requested k t = Some r -> representableb k r = true ->
  parse_set_value_fix2 k t = parse_set_value k t.
Proof.
  intros k t r Hreq Hr.
  destruct k; cbn [parse_set_value_fix2 parse_set_value requested] in *; try reflexivity.
  all: try (destruct (parse_int_i128 t) as [z| | |] eqn:Hp; cbn [bind]; try reflexivity;
            apply parse_i128_val in Hp; destruct Hp as [Hv _]; rewrite Hv in Hreq;
            assert (Hzr : z = r) by congruence; subst z;
            rewrite agree_s; [ try rewrite one_byte_s; reflexivity | lia | exact Hr ]).
  all: try (destruct (parse_int_u128 t) as [z| | |] eqn:Hp; cbn [bind]; try reflexivity;
            apply parse_u128_val in Hp; destruct Hp as [Hv _]; rewrite Hv in Hreq;
            assert (Hzr : z = r) by congruence; subst z;
            rewrite agree_u; [ try rewrite <- (one_byte _ (cast_u_1_lt r)); reflexivity | exact Hr ]).
  (* char *)
  destruct (tx_char t) as [cs|c|] eqn:Ht; try reflexivity.
  destruct (parse_int_u128 t) as [z| | |] eqn:Hp; cbn [bind]; try reflexivity.
  apply parse_u128_val in Hp. destruct Hp as [Hv _]. rewrite Hv in Hreq.
  assert (Hzr : z = r) by congruence. subst z.
  assert (Hs : is_scalar_value r = true) by exact Hr. rewrite Hs.
  rewrite cast_u_id; [reflexivity|]. unfold is_scalar_value in Hs. norm_consts. lia.
Qed.

Theorem fix2_length : forall k t bs, parse_set_value_fix2 k t = Ok bs -> length bs = kind_size k.
Proof.
  intros k t bs H.
  assert (Hts : forall w z, try_s w z = Ok bs -> length bs = w).
  { intros w z Ht. unfold try_s in Ht. destruct (fits_s w z); [|discriminate Ht]. inversion Ht. apply le_s_len. }
  assert (Htu : forall w z, try_u w z = Ok bs -> length bs = w).
  { intros w z Ht. unfold try_u in Ht. destruct (fits_u w z); [|discriminate Ht]. inversion Ht. apply le_u_len. }
  destruct k; cbn [parse_set_value_fix2] in H; try (now apply set_value_length in H);
    try (apply bind_ok in H; destruct H as [z [_ H]]; cbn [kind_size];
         first [ now apply Hts in H | now apply Htu in H | (inversion H; len_tac) ]).
  destruct (tx_char t) eqn:Ht; try (now apply set_value_length in H).
  apply bind_ok in H. destruct H as [z [_ H]]. destruct (is_scalar_value z); [|discriminate H].
  inversion H. len_tac.
Qed.

(* ========================================================================================== *)
(* 6. The checker                                                                              *)
(* ========================================================================================== *)
(* verdict 0 of either checker implies the specification of the request *)
Theorem setvalue_check_sound : forall parse shown c,
  setvalue_check_gen parse shown c = 0 -> setvalue_spec_ok c = true.
Proof.
  intros parse shown c H. unfold setvalue_check_gen in H. destruct (shown c) as [[rp rr] rf].
  unfold verdict in H. destruct (setvalue_spec_ok c); [reflexivity|]. discriminate H.
Qed.

(* what the specification of a request says, in words *)
Theorem setvalue_spec_meaning : forall c v,
  setvalue_spec_ok c = true -> c_success c = true -> decode_value (c_kind c) (c_after c) = Ok v ->
  c_canaries c = true /\ c_program_canaries c = true /\ c_program c = v /\
  c_reply c = Some v /\ c_reread c = Some v /\ c_refetch c = Some v /\
  requested (c_kind c) (c_text c) = Some v /\ representableb (c_kind c) v = true.
Proof.
  intros c v H Hs Hd. unfold setvalue_spec_ok in H. rewrite Hd, Hs in H.
  assert (Hz : forall a z, zopt_is a z = true -> a = Some z).
  { intros [x|] z Hx; cbn [zopt_is] in Hx; [apply Z.eqb_eq in Hx; now subst | discriminate Hx]. }
  repeat match goal with
         | H0 : (_ && _)%bool = true |- _ => apply Bool.andb_true_iff in H0; destruct H0
         end.
  destruct (requested (c_kind c) (c_text c)) as [r|]; [|congruence].
  repeat match goal with
         | H0 : (_ && _)%bool = true |- _ => apply Bool.andb_true_iff in H0; destruct H0
         end.
  repeat match goal with
         | H0 : Z.eqb _ _ = true |- _ => apply Z.eqb_eq in H0
         | H0 : zopt_is _ _ = true |- _ => apply Hz in H0
         end.
  subst r. repeat split; auto.
Qed.

(* ========================================================================================== *)
(* 7. Together with write_bytes (Model/Mem.v, Proofs/MemProofs.v)                              *)
(* ========================================================================================== *)
From BS Require Model.Mem Proofs.MemProofs.

Lemma write_value_exact : forall (n : nat) bs (m : Mem.mem) a,
  length bs = n -> MemProofs.word_granular m -> a + N.of_nat n < 2 ^ 64 -> Mem.all_mapped m a n = true ->
  exists m', Mem.write_bytes m a bs = Ok m' /\
    (forall x, x < a \/ a + N.of_nat n <= x -> m' x = m x) /\
    (forall i, (i < n)%nat -> m' (a + N.of_nat i) = Some (nth i bs 0)).
Proof.
  intros n bs m a Hl Hg Hb Hm. subst n.
  destruct (MemProofs.write_bytes_exact m a bs Hg Hb Hm) as [m' [Hw Hs]].
  exists m'. split; [exact Hw|]. split.
  - intros x Hx. rewrite Hs. unfold Mem.spec_write.
    destruct (N.leb_spec a x); destruct (N.ltb_spec x (a + N.of_nat (length bs))); cbn [andb]; try reflexivity; lia.
  - intros i Hi. rewrite Hs. unfold Mem.spec_write.
    destruct (N.leb_spec a (a + N.of_nat i)); [|lia].
    destruct (N.ltb_spec (a + N.of_nat i) (a + N.of_nat (length bs))); [|lia]. cbn [andb].
    replace (N.to_nat (a + N.of_nat i - a)) with i by lia. reflexivity.
Qed.

(* HEADLINE: an accepted setVariable / setExpression request on a mapped variable at address a changes the bytes
   [a, a + size_of(type)) to the bytes computed from the text and no other byte of the process. *)
Theorem set_value_touches_only_the_variable : forall k t bs (m : Mem.mem) a,
  parse_set_value k t = Ok bs ->
  MemProofs.word_granular m -> a + N.of_nat (kind_size k) < 2 ^ 64 -> Mem.all_mapped m a (kind_size k) = true ->
  exists m', Mem.write_bytes m a bs = Ok m' /\
    (forall x, x < a \/ a + N.of_nat (kind_size k) <= x -> m' x = m x) /\
    (forall i, (i < kind_size k)%nat -> m' (a + N.of_nat i) = Some (nth i bs 0)).
Proof. intros k t bs m a H. apply write_value_exact. now apply set_value_length in H. Qed.

Theorem fix2_touches_only_the_variable : forall k t bs (m : Mem.mem) a,
  parse_set_value_fix2 k t = Ok bs ->
  MemProofs.word_granular m -> a + N.of_nat (kind_size k) < 2 ^ 64 -> Mem.all_mapped m a (kind_size k) = true ->
  exists m', Mem.write_bytes m a bs = Ok m' /\
    (forall x, x < a \/ a + N.of_nat (kind_size k) <= x -> m' x = m x) /\
    (forall i, (i < kind_size k)%nat -> m' (a + N.of_nat i) = Some (nth i bs 0)).
Proof. intros k t bs m a H. apply write_value_exact. now apply fix2_length in H. Qed.
