(* C15, clause "DAP setVariable and setExpression make a later read of that variable return the written
   value and leave neighbouring data untouched".

   Modelled code (BugStalker, /repo at 7fbf91e):
     src/dap/yadap/session/data.rs:601-672   parse_set_value  (text of the request -> bytes to store)
     src/dap/yadap/session/data.rs:604-618   parse_int_i128 / parse_int_u128
     src/dap/yadap/session/data.rs:141-145   handle_set_variable,  WriteMeta::Scalar arm: parse, then write_bytes
     src/dap/yadap/session/data.rs:345-349   handle_set_expression, WriteMeta::Scalar arm: the same two calls
   write_bytes itself is Model/Mem.v (proved exact in Proofs/MemProofs.v): it changes exactly
   [addr, addr + length bytes).  So what this file adds is: which bytes, and how many.

   What enters from outside (Rust's standard library, not modelled): the reading of a text as a number.
   A request text is represented by its *views* ([sv_text]): what `str::parse::<i128/u128>` /
   `from_str_radix(_, 16)` see in it (an integer literal denoting z, with or without a minus sign), what
   `str::parse::<f32>` / `<f64>` return (the bit pattern), which row of the bool table it is, which of the
   three char forms it is.  Everything after that - range of the 128-bit parse, the `as iN` / `as uN`
   truncations, the little-endian bytes - is modelled.  No proofs in this file. *)
From BS Require Import Model.Base.
From BS Require Import Model.Decode.
Open Scope N_scope.

(* data.rs:27  enum ScalarKind *)
Inductive skind :=
| KI8 | KI16 | KI32 | KI64 | KI128 | KIsize
| KU8 | KU16 | KU32 | KU64 | KU128 | KUsize
| KF32 | KF64 | KBool | KChar.

Inductive kclass := CSigned | CUnsigned | CFloat | CBool | CChar.

Definition kind_class (k : skind) : kclass :=
  match k with
  | KI8 | KI16 | KI32 | KI64 | KI128 | KIsize => CSigned
  | KU8 | KU16 | KU32 | KU64 | KU128 | KUsize => CUnsigned
  | KF32 | KF64 => CFloat
  | KBool => CBool
  | KChar => CChar
  end.

(* size of the Rust type in the debuggee (x86-64: isize/usize are 8 bytes, char is 4, bool is 1) *)
Definition kind_size (k : skind) : nat :=
  match k with
  | KI8 | KU8 | KBool => 1
  | KI16 | KU16 => 2
  | KI32 | KU32 | KF32 | KChar => 4
  | KI64 | KU64 | KIsize | KUsize | KF64 => 8
  | KI128 | KU128 => 16
  end%nat.

(* ------------------------------------------------------------------------------------------ *)
(* The views of a request text (after `input.trim()`, data.rs:602)                              *)
(* ------------------------------------------------------------------------------------------ *)
(* data.rs:644-650: the five rows of the bool table *)
Inductive bool_text :=
| BtTrue    (* "true" | "True" | "TRUE" *)
| BtFalse   (* "false" | "False" | "FALSE" *)
| BtOne     (* "1" *)
| BtZero    (* "0" *)
| BtOther.  (* anything else *)

(* data.rs:655-669: the three char forms, tried in this order *)
Inductive char_text :=
| CtQuoted (content : list N)  (* s = 'content' : strip_prefix('\'') and strip_suffix('\'') both succeed; the code points between *)
| CtSingle (c : N)             (* not quoted, s.chars().count() == 1 : that char *)
| CtOther.                     (* anything else: handed to parse_int_u128 *)

Record sv_text := SvText {
  (* Some (minus, z): s is an integer literal `[+-]digits` or `0x[+-]hexdigits` / `0X...` denoting z, written
     with a '-' sign iff [minus];  None: s is not such a literal (both 128-bit parsers fail on it) *)
  tx_int : option (bool * Z);
  tx_f32 : option N;          (* s.parse::<f32>() : Some (to_bits) | None = Err *)
  tx_f64 : option N;          (* s.parse::<f64>() *)
  tx_bool : bool_text;
  tx_char : char_text
}.

Definition E_PARSE : N := 22.   (* every `?` / bail! of parse_set_value: the request fails, nothing is written *)

Definition in_i128 (z : Z) : bool := ((- 2 ^ 127 <=? z) && (z <? 2 ^ 127))%Z.
Definition in_u128 (z : Z) : bool := ((0 <=? z) && (z <? 2 ^ 128))%Z.

(* data.rs:604  parse_int_i128: i128::from_str_radix(hex, 16) / s.parse::<i128>() : Err on overflow *)
Definition parse_int_i128 (t : sv_text) : res Z :=
  match tx_int t with
  | Some (_, z) => if in_i128 z then Ok z else Err E_PARSE
  | None => Err E_PARSE
  end.

(* data.rs:612  parse_int_u128: an unsigned parse rejects a '-' sign (even "-0"), and overflow *)
Definition parse_int_u128 (t : sv_text) : res Z :=
  match tx_int t with
  | Some (minus, z) => if minus then Err E_PARSE else if in_u128 z then Ok z else Err E_PARSE
  | None => Err E_PARSE
  end.

(* Rust `x as uN` for an integer x: the low 8w bits *)
Definition cast_u (w : nat) (z : Z) : N := Z.to_N (z mod Z.of_N (2 ^ (8 * N.of_nat w))).
(* Rust `x as iN`: the low 8w bits, read as two's complement *)
Definition cast_s (w : nat) (z : Z) : Z := to_signed w (cast_u w z).

(* data.rs:601-672  parse_set_value *)
Definition parse_set_value (k : skind) (t : sv_text) : res (list N) :=
  match k with
  | KI8 => z <- parse_int_i128 t ;; Ok [cast_u 1 (cast_s 1 z)]                 (* vec![(x as i8) as u8] *)
  | KU8 => z <- parse_int_u128 t ;; Ok [cast_u 1 z]                            (* vec![x as u8] *)
  | KI16 => z <- parse_int_i128 t ;; Ok (to_le_bytes_s 2 (cast_s 2 z))
  | KU16 => z <- parse_int_u128 t ;; Ok (to_le_bytes_u 2 (cast_u 2 z))
  | KI32 => z <- parse_int_i128 t ;; Ok (to_le_bytes_s 4 (cast_s 4 z))
  | KU32 => z <- parse_int_u128 t ;; Ok (to_le_bytes_u 4 (cast_u 4 z))
  | KI64 => z <- parse_int_i128 t ;; Ok (to_le_bytes_s 8 (cast_s 8 z))
  | KU64 => z <- parse_int_u128 t ;; Ok (to_le_bytes_u 8 (cast_u 8 z))
  | KI128 => z <- parse_int_i128 t ;; Ok (to_le_bytes_s 16 z)
  | KU128 => z <- parse_int_u128 t ;; Ok (to_le_bytes_u 16 (Z.to_N z))
  | KIsize => z <- parse_int_i128 t ;; Ok (to_le_bytes_s 8 (cast_s 8 z))
  | KUsize => z <- parse_int_u128 t ;; Ok (to_le_bytes_u 8 (cast_u 8 z))
  | KF32 => match tx_f32 t with Some b => Ok (to_le_bytes_u 4 b) | None => Err E_PARSE end
  | KF64 => match tx_f64 t with Some b => Ok (to_le_bytes_u 8 b) | None => Err E_PARSE end
  | KBool =>
      match tx_bool t with
      | BtTrue | BtOne => Ok [1]
      | BtFalse | BtZero => Ok [0]
      | BtOther => Err E_PARSE
      end
  | KChar =>
      match tx_char t with
      | CtQuoted [] => Err E_PARSE                 (* "char parse: empty literal" *)
      | CtQuoted [c] => Ok (to_le_bytes_u 4 c)     (* ch as u32 *)
      | CtQuoted _ => Err E_PARSE                  (* "expected single char literal" *)
      | CtSingle c => Ok (to_le_bytes_u 4 c)
      | CtOther => z <- parse_int_u128 t ;; Ok (to_le_bytes_u 4 (cast_u 4 z))   (* parse_int_u128(s)? as u32 *)
      end
  end.

(* ------------------------------------------------------------------------------------------ *)
(* The same function after fix_2.patch ("numbers that do not fit the type are refused"):       *)
(* every `as iN` / `as uN` became `iN::try_from` / `uN::try_from` (Err when out of range), and *)
(* the numeric char form goes through u32::try_from + char::from_u32.                          *)
(* ------------------------------------------------------------------------------------------ *)
Definition E_RANGE : N := 34.

Definition fits_s (w : nat) (z : Z) : bool :=
  ((- Z.of_N (2 ^ (8 * N.of_nat w - 1)) <=? z) && (z <? Z.of_N (2 ^ (8 * N.of_nat w - 1))))%Z.
Definition fits_u (w : nat) (z : Z) : bool :=
  ((0 <=? z) && (z <? Z.of_N (2 ^ (8 * N.of_nat w))))%Z.
Definition is_scalar_value (z : Z) : bool :=
  (((0 <=? z) && (z <? 55296)) || ((57344 <=? z) && (z <=? 1114111)))%Z.

Definition try_s (w : nat) (z : Z) : res (list N) := if fits_s w z then Ok (to_le_bytes_s w z) else Err E_RANGE.
Definition try_u (w : nat) (z : Z) : res (list N) := if fits_u w z then Ok (to_le_bytes_u w (Z.to_N z)) else Err E_RANGE.

Definition parse_set_value_fix2 (k : skind) (t : sv_text) : res (list N) :=
  match k with
  | KI8 => z <- parse_int_i128 t ;; try_s 1 z
  | KU8 => z <- parse_int_u128 t ;; try_u 1 z
  | KI16 => z <- parse_int_i128 t ;; try_s 2 z
  | KU16 => z <- parse_int_u128 t ;; try_u 2 z
  | KI32 => z <- parse_int_i128 t ;; try_s 4 z
  | KU32 => z <- parse_int_u128 t ;; try_u 4 z
  | KI64 => z <- parse_int_i128 t ;; try_s 8 z
  | KU64 => z <- parse_int_u128 t ;; try_u 8 z
  | KI128 => z <- parse_int_i128 t ;; Ok (to_le_bytes_s 16 z)
  | KU128 => z <- parse_int_u128 t ;; Ok (to_le_bytes_u 16 (Z.to_N z))
  | KIsize => z <- parse_int_i128 t ;; try_s 8 z
  | KUsize => z <- parse_int_u128 t ;; try_u 8 z
  | KChar =>
      match tx_char t with
      | CtOther => z <- parse_int_u128 t ;;
                   if is_scalar_value z then Ok (to_le_bytes_u 4 (Z.to_N z)) else Err E_RANGE
      | _ => parse_set_value k t
      end
  | _ => parse_set_value k t
  end.

(* ------------------------------------------------------------------------------------------ *)
(* Specification                                                                                *)
(* ------------------------------------------------------------------------------------------ *)
(* How the debuggee (and any later read) understands the bytes of a variable of kind k: integers by
   their sign, everything else by its raw little-endian pattern (float bits, bool 0/1, char code point). *)
Definition decode_value (k : skind) (bs : list N) : res Z :=
  match kind_class k with
  | CSigned => scalar_signed (kind_size k) bs
  | _ => u <- scalar_unsigned (kind_size k) bs ;; Ok (Z.of_N u)
  end.

(* the values a variable of kind k can hold *)
Definition representableb (k : skind) (z : Z) : bool :=
  match kind_class k with
  | CSigned => ((- Z.of_N (2 ^ (8 * N.of_nat (kind_size k) - 1)) <=? z) && (z <? Z.of_N (2 ^ (8 * N.of_nat (kind_size k) - 1))))%Z
  | CUnsigned | CFloat => ((0 <=? z) && (z <? Z.of_N (2 ^ (8 * N.of_nat (kind_size k)))))%Z
  | CBool => ((z =? 0) || (z =? 1))%Z
  | CChar => (((0 <=? z) && (z <? 55296)) || ((57344 <=? z) && (z <=? 1114111)))%Z   (* a Unicode scalar value *)
  end.

(* the value the user asks for with this text, for a variable of kind k *)
Definition requested (k : skind) (t : sv_text) : option Z :=
  match k with
  | KF32 => option_map Z.of_N (tx_f32 t)
  | KF64 => option_map Z.of_N (tx_f64 t)
  | KBool =>
      match tx_bool t with
      | BtTrue | BtOne => Some 1%Z
      | BtFalse | BtZero => Some 0%Z
      | BtOther => None
      end
  | KChar =>
      match tx_char t with
      | CtQuoted [c] => Some (Z.of_N c)
      | CtQuoted _ => None
      | CtSingle c => Some (Z.of_N c)
      | CtOther => option_map snd (tx_int t)
      end
  | _ => option_map snd (tx_int t)
  end.

(* SPEC of parse_set_value: bytes [bs] are a correct answer for (k, t) when they are exactly one value of
   the kind's size and read back as the requested value. *)
Definition stores (k : skind) (bs : list N) (v : Z) : Prop :=
  length bs = kind_size k /\ decode_value k bs = Ok v.

(* ------------------------------------------------------------------------------------------ *)
(* Correspondence cases                                                                         *)
(* ------------------------------------------------------------------------------------------ *)
Inductive via := ViaSetVariable | ViaSetExpression.

Record sv_case := SvCase {
  c_kind : skind;
  c_via : via;
  c_text : sv_text;
  c_success : bool;            (* the response's "success" *)
  c_before : list N;           (* /proc/<pid>/mem at the variable before the request, kind_size bytes *)
  c_after : list N;            (* the same bytes after the response *)
  c_canaries : bool;           (* the 16 bytes below and the 16 bytes above the variable are the same before and after *)
  c_reply : option Z;          (* the response's body.value, read as a value of the kind (None: unreadable) *)
  c_reread : option Z;         (* the variable in a new `variables` response for the same reference *)
  c_refetch : option Z;        (* the variable after scopes + variables again (what a client does on `invalidated`) *)
  c_program : Z;               (* what the program itself printed for the variable after `continue` *)
  c_program_canaries : bool    (* the program found every canary intact *)
}.

Definition zopt_is (a : option Z) (z : Z) : bool := match a with Some x => Z.eqb x z | None => false end.
Definition zopt_eqb (a b : option Z) : bool :=
  match a, b with Some x, Some y => Z.eqb x y | None, None => true | _, _ => false end.
Definition res_opt (r : res Z) : option Z := match r with Ok v => Some v | _ => None end.

(* What the adapter shows after the request: (reply, reread, refetch).
   At 7fbf91e: setVariable stores the *text of the request* as the entry's value (data.rs:177) and answers with
   it; setExpression answers with a fresh read (data.rs:365-376) but leaves the listing of the scope as it was
   read before the write (frame.rs:126-138 scope_cache; nothing refreshes it). *)
Definition shown_head (c : sv_case) : option Z * option Z * option Z :=
  let bv := res_opt (decode_value (c_kind c) (c_before c)) in
  let av := res_opt (decode_value (c_kind c) (c_after c)) in
  if c_success c then
    match c_via c with
    | ViaSetVariable => let r := requested (c_kind c) (c_text c) in (r, r, r)
    | ViaSetExpression => (av, bv, bv)
    end
  else (None, bv, bv).

(* after fix_1.patch: every listing that belongs to a scope is read again after a write *)
Definition shown_fix1 (c : sv_case) : option Z * option Z * option Z :=
  let bv := res_opt (decode_value (c_kind c) (c_before c)) in
  let av := res_opt (decode_value (c_kind c) (c_after c)) in
  if c_success c then (av, av, av) else (None, bv, bv).

(* SPEC of one request, over what was observed from outside the debugger *)
Definition setvalue_spec_ok (c : sv_case) : bool :=
  let k := c_kind c in
  c_canaries c && c_program_canaries c && Nat.eqb (length (c_after c)) (kind_size k) &&
  match decode_value k (c_after c) with
  | Ok v =>
      Z.eqb (c_program c) v                                   (* the program sees what memory holds *)
      && zopt_is (c_reread c) v && zopt_is (c_refetch c) v     (* a later read returns what memory holds *)
      && (if c_success c
          then zopt_is (c_reply c) v
               && match requested k (c_text c) with
                  | Some r => representableb k r && Z.eqb v r  (* ... and that is the value that was asked for *)
                  | None => false
                  end
          else list_eqb N.eqb (c_after c) (c_before c))        (* a refused request changes nothing *)
  | _ => false
  end.

Definition setvalue_check_gen (parse : skind -> sv_text -> res (list N))
                              (shown : sv_case -> option Z * option Z * option Z) (c : sv_case) : N :=
  let '(rp, rr, rf) := shown c in
  let model_ok :=
    match parse (c_kind c) (c_text c) with
    | Ok bs => c_success c && list_eqb N.eqb (c_after c) bs
    | Err _ => negb (c_success c) && list_eqb N.eqb (c_after c) (c_before c)
    | _ => false
    end
    && zopt_eqb (c_reply c) rp && zopt_eqb (c_reread c) rr && zopt_eqb (c_refetch c) rf in
  verdict model_ok (setvalue_spec_ok c).

(* the code at 7fbf91e *)
Definition setvalue_check_head : sv_case -> N := setvalue_check_gen parse_set_value shown_head.
(* the code with fix_1.patch and fix_2.patch *)
Definition setvalue_check : sv_case -> N := setvalue_check_gen parse_set_value_fix2 shown_fix1.
