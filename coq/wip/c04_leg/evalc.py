#!/usr/bin/env python3
"""evalc.py <summary.json> <theories dir> [jobs]: coqc every cases file, print mismatches with their meta"""
import json, sys, re, subprocess, os, time
from concurrent.futures import ThreadPoolExecutor
summ = json.load(open(sys.argv[1]))
th = sys.argv[2]
jobs = int(sys.argv[3]) if len(sys.argv) > 3 else 6
shard = summ["shard"]; metas = summ["case_meta"]
def one(fn):
    t = time.time()
    p = subprocess.run(["coqc", "-noglob", "-Q", th, "BS", fn], capture_output=True, text=True)
    return fn, p.returncode, p.stdout + p.stderr, time.time() - t
def case_lines(fn):
    lines = []; inside = False
    for l in open(fn):
        if not inside:
            if l.rstrip().endswith(":= ["): inside = True
            continue
        if l.strip() == "].": break
        lines.append(l.strip().rstrip(";"))
    return lines
t0 = time.time()
tot = 0
with ThreadPoolExecutor(max_workers=jobs) as ex:
    for fn, rc, out, dt in ex.map(one, summ["files"]):
        if rc != 0:
            print("EVAL ERROR", fn, out[-800:]); continue
        m = re.search(r"bad\s*=\s*(.*?)\s*:\s*list", out, re.S)
        pairs = re.findall(r"\((\d+)(?:%N)?\s*,\s*(\d+)(?:%N)?\)", m.group(1))
        k = int(os.path.basename(fn).rsplit("_", 1)[1].split(".")[0])
        print("%s: %.1fs, %d mismatches" % (os.path.basename(fn), dt, len(pairs)))
        cl = case_lines(fn) if pairs else []
        for i, v in pairs:
            i = int(i); tot += 1
            print("   v=%s %s\n      meta=%s" % (v, cl[i].split("us pg ")[1][:300], json.dumps(metas[k * shard + i])[:400]))
print("total mismatches", tot, "wall %.1fs" % (time.time() - t0))
