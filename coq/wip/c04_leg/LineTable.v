(* C04 - Address <-> source look-ups of BugStalker (line rows, function ranges).

   Model of
     src/debugger/debugee/dwarf/unit/mod.rs    (LineRow, BsUnit::find_place_by_idx / find_place_by_pc /
                                                find_exact_place_by_pc, PlaceDescriptor::next)
     src/debugger/debugee/dwarf/mod.rs         (find_unit_by_pc, find_place_from_pc, find_exact_place_from_pc,
                                                find_function_by_pc, find_closest_place)
     src/debugger/debugee/dwarf/unit/die_ref.rs(start_instruction, end_instruction, prolog_start_place,
                                                prolog_end_place)
     core::slice::binary_search_by             (Rust 1.89, library/core/src/slice/mod.rs:2971)

   The input of the model is what the parser leaves in memory: `BsUnit.lines` AFTER
   `lines.sort_unstable_by_key(|x| x.address)` (parser.rs:60), `BsUnit.ranges` AFTER
   `ranges.sort_unstable_by_key(|r| r.begin)` (parser.rs:66) and `fn_ranges` AFTER
   `fn_ranges.sort_unstable_by_key(|dr| dr.range.begin)` (parser.rs:292).  The order of equal keys is
   not determined by the code; it is part of the input here.

   No proofs in this file. *)
From BS Require Import Model.Base.

Local Open Scope N_scope.

(* ------------------------------------------------------------------------------------------ *)
(* Data                                                                                      *)
(* ------------------------------------------------------------------------------------------ *)

(* unit/mod.rs:35 LineRow; the four flag bits are four booleans *)
Record row := R {
  r_addr : N;      (* address *)
  r_file : N;      (* file_index *)
  r_line : N;      (* line (0 = none) *)
  r_col  : N;      (* column (0 = left edge) *)
  r_stmt : bool;   (* IS_STMT *)
  r_pe   : bool;   (* PROLOG_END *)
  r_eb   : bool;   (* EPILOG_BEGIN *)
  r_es   : bool    (* END_SEQUENCE *)
}.

Definition row_eqb (a b : row) : bool :=
  (r_addr a =? r_addr b) && (r_file a =? r_file b) && (r_line a =? r_line b) && (r_col a =? r_col b)
  && Bool.eqb (r_stmt a) (r_stmt b) && Bool.eqb (r_pe a) (r_pe b)
  && Bool.eqb (r_eb a) (r_eb b) && Bool.eqb (r_es a) (r_es b).

(* Notations, not Definitions: lia/congruence must see one [length] atom *)
Notation range := (N * N)%type (only parsing).     (* gimli::Range { begin, end } *)
Notation die_range := (N * N * N)%type (only parsing). (* DieRange: (range.begin, range.end, die_off) *)
Definition dr_begin (d : die_range) : N := fst (fst d).
Definition dr_end (d : die_range) : N := snd (fst d).
Definition dr_off (d : die_range) : N := snd d.

(* FunctionInfo (only the field find_closest_place looks at) + the ranges of the DIE
   (`Die::ranges()`, what `FatDieRef::<Function>::ranges()` returns) *)
Record fn_info := F {
  f_off : N;                  (* UnitOffset of the subprogram DIE *)
  f_name : option bstr;       (* FunctionInfo.name *)
  f_ranges : list range       (* die.ranges(), DIE order *)
}.

(* BsUnit, the parts the look-ups read *)
Record unit := U {
  u_ranges : list range;           (* BsUnit.ranges, sorted by begin *)
  u_nfiles : N;                    (* BsUnit.files.len() *)
  u_rows : list row;               (* BsUnit.lines, sorted by address *)
  u_die_ranges : list die_range;   (* UnitLazyPart.fn_ranges, sorted by begin *)
  u_fns : list fn_info             (* UnitLazyPart.function_index (a HashMap keyed by die offset) *)
}.

(* a PlaceDescriptor is identified by (pos_in_unit, row); every other field is a copy of the row *)
Notation place := (nat * row)%type (only parsing).

(* ------------------------------------------------------------------------------------------ *)
(* core::slice::binary_search_by_key, Rust 1.89                                               *)
(* ------------------------------------------------------------------------------------------ *)

Inductive bsr := Found (i : nat) | NotFound (i : nat).   (* Result<usize, usize> *)

(* the `while size > 1` loop.  [fuel] only makes the recursion structural; ProofsLineTable shows
   that [length keys] is always enough and that [get_unchecked(mid)] is in range ([Panic 1] is
   unreachable).  `cmp == Greater` for key [k] means [pc < k]. *)
Fixpoint bs_loop (fuel : nat) (keys : list N) (pc : N) (base size : nat) : res nat :=
  if (size <=? 1)%nat then Ok base else
  match fuel with
  | O => OutOfFuel
  | S fuel' =>
      let half := (size / 2)%nat in
      let mid := (base + half)%nat in
      match nth_error keys mid with
      | None => Panic 1
      | Some k => bs_loop fuel' keys pc (if pc <? k then base else mid) (size - half)%nat
      end
  end.

Definition bsearch (keys : list N) (pc : N) : res bsr :=
  match keys with
  | [] => Ok (NotFound 0)
  | _ =>
      base <- bs_loop (length keys) keys pc 0%nat (length keys) ;;
      match nth_error keys base with
      | None => Panic 1
      | Some k =>
          if k =? pc then Ok (Found base)
          else let inc := if k <? pc then 1%nat else 0%nat in Ok (NotFound (base + inc)%nat)
      end
  end.

(* ------------------------------------------------------------------------------------------ *)
(* unit/mod.rs : look-ups in one unit                                                         *)
(* ------------------------------------------------------------------------------------------ *)

(* `From<(&BsUnit, usize, &LineRow)> for PlaceDescriptor` (unit/mod.rs:103):
   `unit.files.get(file_index).expect("file should exists")` -> [Panic 2] *)
Definition mk_place (u : unit) (i : nat) (r : row) : res place :=
  if r_file r <? u_nfiles u then Ok (i, r) else Panic 2.

(* unit/mod.rs:421 find_place_by_idx *)
Definition find_place_by_idx (u : unit) (i : nat) : res (option place) :=
  match nth_error (u_rows u) i with
  | None => Ok None
  | Some r => p <- mk_place u i r ;; Ok (Some p)
  end.

(* unit/mod.rs:445 find_place_by_pc: `.unwrap_or_else(|p| p.saturating_sub(1))` *)
Definition pc_pos (rows : list row) (pc : N) : res nat :=
  b <- bsearch (map r_addr rows) pc ;;
  Ok (match b with Found i => i | NotFound p => (p - 1)%nat end).

Definition find_place_by_pc (u : unit) (pc : N) : res (option place) :=
  pos <- pc_pos (u_rows u) pc ;;
  find_place_by_idx u pos.

(* unit/mod.rs:483 find_exact_place_by_pc.
   [ovf] = arithmetic overflow checks are compiled in (dev/test profile: yes; release profile of
   /repo/Cargo.toml: no).  State of [exact_back]: about to execute `p -= 1` with the current [p] and
   the current [place].  At p = 0 the subtraction panics with overflow checks ([Panic 3]); without
   them p wraps to usize::MAX, `lines.get(usize::MAX)` is None and the loop ends. *)
Fixpoint exact_back (ovf : bool) (u : unit) (pc : N) (p : nat) (pl : option place) : res (option place) :=
  match p with
  | O => if ovf then Panic 3 else Ok pl
  | S p' =>
      n <- find_place_by_idx u p' ;;
      match n with
      | Some q => if r_addr (snd q) =? pc then exact_back ovf u pc p' (Some q) else Ok pl
      | None => Ok pl
      end
  end.

Definition find_exact_place_by_pc (ovf : bool) (u : unit) (pc : N) : res (option place) :=
  b <- bsearch (map r_addr (u_rows u)) pc ;;
  match b with
  | Found p => pl <- find_place_by_idx u p ;; exact_back ovf u pc p pl
  | NotFound _ => Ok None
  end.

(* ------------------------------------------------------------------------------------------ *)
(* dwarf/mod.rs : unit and function by pc                                                     *)
(* ------------------------------------------------------------------------------------------ *)

(* address.rs:111 GlobalAddress::in_range *)
Definition in_range (pc : N) (r : range) : bool := (fst r <=? pc) && (pc <? snd r).

(* the closure of find_unit_by_pc (dwarf/mod.rs:244): `Ok(_) => true` without looking at `end`;
   `unit.ranges()[..pos]` -> [Panic 4] if pos > len (unreachable) *)
Definition unit_has_pc (u : unit) (pc : N) : res bool :=
  b <- bsearch (map fst (u_ranges u)) pc ;;
  match b with
  | Found _ => Ok true
  | NotFound pos =>
      if (length (u_ranges u) <? pos)%nat then Panic 4
      else Ok (existsb (in_range pc) (firstn pos (u_ranges u)))
  end.

(* `units.iter().find(..)`: the first unit, in registry order, that claims the pc *)
Fixpoint find_unit_from (i : nat) (units : list unit) (pc : N) : res (option (nat * unit)) :=
  match units with
  | [] => Ok None
  | u :: t => b <- unit_has_pc u pc ;;
              if b then Ok (Some (i, u)) else find_unit_from (S i) t pc
  end.
Definition find_unit_by_pc (units : list unit) (pc : N) : res (option (nat * unit)) :=
  find_unit_from 0 units pc.

(* dwarf/mod.rs:259, 268 *)
Definition find_place_from_pc (units : list unit) (pc : N) : res (option (nat * place)) :=
  uo <- find_unit_by_pc units pc ;;
  match uo with
  | None => Ok None
  | Some (ui, u) => p <- find_place_by_pc u pc ;; Ok (option_map (pair ui) p)
  end.

Definition find_exact_place_from_pc (ovf : bool) (units : list unit) (pc : N) : res (option (nat * place)) :=
  uo <- find_unit_by_pc units pc ;;
  match uo with
  | None => Ok None
  | Some (ui, u) => p <- find_exact_place_by_pc ovf u pc ;; Ok (option_map (pair ui) p)
  end.

(* `while idx < die_ranges.len() && die_ranges[idx].range.begin == pc { idx += 1 }` started at
   [idx] on the list suffix [l] = die_ranges[idx..] *)
Fixpoint skip_eq (l : list die_range) (pc : N) (idx : nat) : nat :=
  match l with
  | [] => idx
  | d :: t => if dr_begin d =? pc then skip_eq t pc (S idx) else idx
  end.

Definition fn_find_pos (drs : list die_range) (pc : N) : res nat :=
  b <- bsearch (map dr_begin drs) pc ;;
  match b with
  | Found pos => Ok (skip_eq (skipn (S pos) drs) pc (S pos))
  | NotFound pos => Ok pos
  end.

(* `function_index.get(&off)` *)
Definition fn_lookup (u : unit) (off : N) : option fn_info :=
  find (fun f => f_off f =? off) (u_fns u).

Fixpoint first_some {A B} (f : A -> option B) (l : list A) : option B :=
  match l with
  | [] => None
  | x :: t => match f x with Some y => Some y | None => first_some f t end
  end.

Definition fn_hit (u : unit) (pc : N) (d : die_range) : option (die_range * fn_info) :=
  match fn_lookup u (dr_off d) with
  | Some info => if (dr_begin d <=? pc) && (pc <? dr_end d) then Some (d, info) else None
  | None => None
  end.

(* the body of the `and_then` closure of find_function_by_pc (dwarf/mod.rs:286-311);
   `die_ranges[..find_pos]` -> [Panic 5] if find_pos > len (unreachable) *)
Definition find_function_in_unit (u : unit) (pc : N) : res (option (die_range * fn_info)) :=
  fp <- fn_find_pos (u_die_ranges u) pc ;;
  if (length (u_die_ranges u) <? fp)%nat then Panic 5
  else Ok (first_some (fn_hit u pc) (rev (firstn fp (u_die_ranges u)))).

(* dwarf/mod.rs:281 find_function_by_pc: (unit index, die range that matched, function info) *)
Definition find_function_by_pc (units : list unit) (pc : N) : res (option (nat * die_range * fn_info)) :=
  uo <- find_unit_by_pc units pc ;;
  match uo with
  | None => Ok None
  | Some (ui, u) =>
      r <- find_function_in_unit u pc ;;
      Ok (match r with Some (d, info) => Some (ui, d, info) | None => None end)
  end.

(* ------------------------------------------------------------------------------------------ *)
(* dwarf/mod.rs:346 find_closest_place                                                        *)
(* ------------------------------------------------------------------------------------------ *)

(* unit/mod.rs:657 file_path_with_lines_pairs: the indices of the rows of file [f], in the order
   of `lines` (i.e. by ADDRESS - the doc comment of `files_index` says "ordered by line number,
   column number and address", the code does not sort) *)
Fixpoint file_lines_from (i : nat) (rows : list row) (f : N) : list nat :=
  match rows with
  | [] => []
  | r :: t => if r_file r =? f then i :: file_lines_from (S i) t f else file_lines_from (S i) t f
  end.
Definition file_lines (u : unit) (f : N) : list nat := file_lines_from 0 (u_rows u) f.

(* unit/mod.rs:436 `line(index)` = `&self.lines[index]` -> [Panic 6] out of range *)
Definition line_at (u : unit) (i : nat) : res row :=
  match nth_error (u_rows u) i with Some r => Ok r | None => Panic 6 end.

(* the look-ahead loop (dwarf/mod.rs:391-408) over the entries of file_lines that follow the
   first hit: continue while they are is_stmt rows of the same line, stop at the first one that is
   a prologue end.  Result: Some (its row index, its row, the entries after it). *)
Fixpoint lookahead (u : unit) (line : N) (rest : list nat) : res (option (nat * row * list nat)) :=
  match rest with
  | [] => Ok None
  | a :: rest' =>
      r <- line_at u a ;;
      if negb (r_line r =? line) || negb (r_stmt r) then Ok None
      else if r_pe r then Ok (Some (a, r, rest'))
      else lookahead u line rest'
  end.

(* the `else` branch (dwarf/mod.rs:413-440) *)
Definition same_shape (p0 r : row) : bool :=
  (r_line r =? r_line p0) && (r_col r =? r_col p0) && Bool.eqb (r_pe r) (r_pe p0)
  && Bool.eqb (r_eb r) (r_eb p0) && Bool.eqb (r_es r) (r_es p0) && r_stmt r.

Fixpoint scan_rest (u : unit) (p0 : row) (fl : list nat) : res (list place) :=
  match fl with
  | [] => Ok []
  | i :: t =>
      r <- line_at u i ;;
      if same_shape p0 r then
        p <- mk_place u i r ;; tl <- scan_rest u p0 t ;; Ok (p :: tl)
      else scan_rest u p0 t
  end.

(* the `while i < file_lines.len()` loop, as a recursion over the remaining entries of file_lines
   (the loop index only moves forward).  `find_place_by_idx(line_idx)` is applied to an index for
   which `unit.line(line_idx)` has just succeeded, so it cannot return None; the model builds the
   place from the row already fetched ([mk_place] keeps the `expect`). *)
Fixpoint scan_first (u : unit) (needle : N) (fl : list nat) : res (list place) :=
  match fl with
  | [] => Ok []
  | i :: t =>
      r <- line_at u i ;;
      if negb (r_line r =? needle) || negb (r_stmt r) then scan_first u needle t
      else
        la <- lookahead u (r_line r) t ;;
        match la with
        | Some (a, ra, rest') => p <- mk_place u a ra ;; tl <- scan_rest u ra rest' ;; Ok (p :: tl)
        | None => p <- mk_place u i r ;; tl <- scan_rest u r t ;; Ok (p :: tl)
        end
  end.

(* the HashSet key: (FunctionInfo.name, func.ranges()) *)
Notation fkey := (option bstr * list (N * N))%type (only parsing).
Definition range_eqb (a b : range) : bool := (fst a =? fst b) && (snd a =? snd b).
Definition oname_eqb (a b : option bstr) : bool :=
  match a, b with
  | None, None => true
  | Some x, Some y => bstr_eqb x y
  | _, _ => false
  end.
Definition fkey_eqb (a b : fkey) : bool :=
  oname_eqb (fst a) (fst b) && list_eqb range_eqb (snd a) (snd b).
Definition fkey_of (info : fn_info) : fkey := (f_name info, f_ranges info).

(* dwarf/mod.rs:445-461; a found place is (unit index, place) *)
Fixpoint filter_unique (units : list unit) (ui : nat) (seen : list fkey) (ps : list place)
  : res (list fkey * list (nat * place)) :=
  match ps with
  | [] => Ok (seen, [])
  | p :: t =>
      fo <- find_function_by_pc units (r_addr (snd p)) ;;
      match fo with
      | Some (_, _, info) =>
          let k := fkey_of info in
          if existsb (fkey_eqb k) seen then filter_unique units ui seen t
          else
            r <- filter_unique units ui (k :: seen) t ;;
            Ok (fst r, (ui, p) :: snd r)
      | None =>
          r <- filter_unique units ui seen t ;;
          Ok (fst r, (ui, p) :: snd r)
      end
  end.

(* `for (unit_idx, file_lines) in &files`; [files] is the answer of `files_index.get(file_tpl)`
   (PathSearchIndex, property C17) as (unit index, file index) pairs; `unit_ensure(idx)` = `units[idx]`
   -> [Panic 7] *)
Fixpoint closest_units (units : list unit) (needle : N) (files : list (nat * N)) (seen : list fkey)
  : res (list fkey * list (nat * place)) :=
  match files with
  | [] => Ok (seen, [])
  | (ui, f) :: t =>
      match nth_error units ui with
      | None => Panic 7
      | Some u =>
          sp <- scan_first u needle (file_lines u f) ;;
          r1 <- filter_unique units ui seen sp ;;
          r2 <- closest_units units needle t (fst r1) ;;
          Ok (fst r2, snd r1 ++ snd r2)
      end
  end.

Definition U64_MAX : N := 18446744073709551615.

(* `let possible_lines = &[line, line + 1];` is evaluated before the loops: with overflow checks
   `line = u64::MAX` panics ([Panic 8]), without them it wraps to 0 *)
Definition find_closest_place (ovf : bool) (units : list unit) (files : list (nat * N)) (line : N)
  : res (list (nat * place)) :=
  line1 <- (if line =? U64_MAX then (if ovf then Panic 8 else Ok 0) else Ok (line + 1)) ;;
  r1 <- closest_units units line files [] ;;
  match snd r1 with
  | _ :: _ => Ok (snd r1)
  | [] => r2 <- closest_units units line1 files (fst r1) ;; Ok (snd r2)
  end.

(* ------------------------------------------------------------------------------------------ *)
(* unit/die_ref.rs : function breakpoint address                                              *)
(* ------------------------------------------------------------------------------------------ *)

(* Iterator::min_by keeps the first of equal minima, max_by the last of equal maxima *)
Fixpoint min_begin (cur : range) (l : list range) : range :=
  match l with
  | [] => cur
  | r :: t => min_begin (if fst r <? fst cur then r else cur) t
  end.
Fixpoint max_begin (cur : range) (l : list range) : range :=
  match l with
  | [] => cur
  | r :: t => max_begin (if fst r <? fst cur then cur else r) t
  end.

(* die_ref.rs:365, 379; [Err 1] = NoFunctionRanges *)
Definition start_instruction (f : fn_info) : res N :=
  match f_ranges f with [] => Err 1 | r :: t => Ok (fst (min_begin r t)) end.
Definition end_instruction (f : fn_info) : res N :=
  match f_ranges f with [] => Err 1 | r :: t => Ok (snd (max_begin r t)) end.

(* die_ref.rs:392; the place is looked up through ALL units (find_place_from_pc), not in the unit
   the function DIE belongs to; [Err 2] = FunctionNotFound *)
Definition prolog_start_place (units : list unit) (f : fn_info) : res (nat * place) :=
  low <- start_instruction f ;;
  p <- find_place_from_pc units low ;;
  match p with None => Err 2 | Some q => Ok q end.

(* die_ref.rs:401 `while !place.prolog_end { match place.next() {None => break, Some(n) => place = n} }`;
   nothing stops the walk at the end of the function or of the sequence.  The row index grows at
   every step, so [length rows] steps are enough (proved); [OutOfFuel] is kept explicit. *)
Fixpoint prolog_walk (u : unit) (fuel : nat) (p : place) : res place :=
  if r_pe (snd p) then Ok p else
  match fuel with
  | O => OutOfFuel
  | S fuel' =>
      n <- find_place_by_idx u (S (fst p)) ;;
      match n with
      | None => Ok p
      | Some q => prolog_walk u fuel' q
      end
  end.

Definition prolog_end_place (units : list unit) (f : fn_info) : res (nat * place) :=
  s <- prolog_start_place units f ;;
  match nth_error units (fst s) with
  | None => Panic 7
  | Some u => p <- prolog_walk u (length (u_rows u)) (snd s) ;; Ok (fst s, p)
  end.

(* ------------------------------------------------------------------------------------------ *)
(* Specification (independent of the algorithms)                                              *)
(* ------------------------------------------------------------------------------------------ *)

(* A line table in PROGRAM ORDER is a list of rows; a sequence is a maximal run of rows ending with
   an end_sequence row.  The row that follows a non-end_sequence row in the list is therefore the
   next row of the same sequence. *)
Fixpoint seq_pairs (prog : list row) : list (row * row) :=
  match prog with
  | r :: ((r' :: _) as t) => if r_es r then seq_pairs t else (r, r') :: seq_pairs t
  | _ => []
  end.

(* pc -> row: a non-end_sequence row r with r.addr <= pc < (address of the next row of its sequence) *)
Definition covers (pc : N) (p : row * row) : Prop := r_addr (fst p) <= pc /\ pc < r_addr (snd p).
Definition place_of (prog : list row) (pc : N) (r : row) : Prop :=
  exists r', In (r, r') (seq_pairs prog) /\ covers pc (r, r').

Definition coversb (pc : N) (p : row * row) : bool := (r_addr (fst p) <=? pc) && (pc <? r_addr (snd p)).
Definition place_ofb (prog : list row) (pc : N) (r : row) : bool :=
  existsb (fun p => row_eqb (fst p) r && coversb pc p) (seq_pairs prog).
Definition no_placeb (prog : list row) (pc : N) : bool :=
  negb (existsb (coversb pc) (seq_pairs prog)).

(* pc -> function: a function one of whose ranges contains pc *)
Definition dr_contains (pc : N) (d : die_range) : Prop := dr_begin d <= pc /\ pc < dr_end d.
Definition dr_containsb (pc : N) (d : die_range) : bool := (dr_begin d <=? pc) && (pc <? dr_end d).
Definition function_of (drs : list die_range) (pc : N) (off : N) : Prop :=
  exists d, In d drs /\ dr_off d = off /\ dr_contains pc d.

(* unit of a pc *)
Definition unit_covers (u : unit) (pc : N) : Prop := exists r, In r (u_ranges u) /\ in_range pc r = true.

(* file:line -> rows: the is_stmt rows of line L of file f of unit u *)
Definition stmt_row (f line : N) (r : row) : bool := (r_file r =? f) && (r_line r =? line) && r_stmt r.
Definition line_has_code (units : list unit) (files : list (nat * N)) (line : N) : Prop :=
  exists ui f u r, In (ui, f) files /\ nth_error units ui = Some u /\ In r (u_rows u) /\ stmt_row f line r = true.
Definition line_has_codeb (units : list unit) (files : list (nat * N)) (line : N) : bool :=
  existsb (fun uf => match nth_error units (fst uf) with
                     | Some u => existsb (stmt_row (snd uf) line) (u_rows u)
                     | None => false end) files.
(* a returned (unit, row index, row) is a statement of [line] in one of the files *)
Definition is_line_place (units : list unit) (files : list (nat * N)) (line : N) (p : nat * place) : Prop :=
  exists f u, In (fst p, f) files /\ nth_error units (fst p) = Some u /\
              nth_error (u_rows u) (fst (snd p)) = Some (snd (snd p)) /\ stmt_row f line (snd (snd p)) = true.
Definition is_line_placeb (units : list unit) (files : list (nat * N)) (line : N) (p : nat * place) : bool :=
  match nth_error units (fst p) with
  | None => false
  | Some u =>
      match nth_error (u_rows u) (fst (snd p)) with
      | None => false
      | Some r => row_eqb r (snd (snd p)) &&
                  existsb (fun uf => Nat.eqb (fst uf) (fst p) && stmt_row (snd uf) line r) files
      end
  end.

(* the answers to `break file:L` allowed by the property: statements of L, or of L+1 only if L has none *)
Definition line_places_ok (units : list unit) (files : list (nat * N)) (line : N) (ps : list (nat * place)) : Prop :=
  (forall p, In p ps -> is_line_place units files line p) \/
  (~ line_has_code units files line /\ forall p, In p ps -> is_line_place units files (line + 1) p).

(* function instance g "contains the line" when a statement row of the line lies in its ranges *)
Definition addr_in_fn (g : fn_info) (a : N) : bool := existsb (in_range a) (f_ranges g).
(* an end_sequence row is not an instruction: its address is the first byte AFTER the sequence and
   may be the first byte of the next function (functions are emitted back to back when the size of
   the previous one is a multiple of the alignment), so it does not make that function "contain" the line *)
Definition fn_has_line (u : unit) (f line : N) (g : fn_info) : bool :=
  existsb (fun r => stmt_row f line r && negb (r_es r) && addr_in_fn g (r_addr r)) (u_rows u).

(* function -> breakpoint address: inside the function, the prologue_end row when it has one *)
Definition fn_pe_rows (u : unit) (g : fn_info) : list row :=
  filter (fun r => r_pe r && negb (r_es r) && addr_in_fn g (r_addr r)) (u_rows u).
Definition fn_bp_ok (u : unit) (g : fn_info) (r : row) : bool :=
  addr_in_fn g (r_addr r) && negb (r_es r) &&
  match fn_pe_rows u g with [] => true | _ :: _ => r_pe r end.

(* ------------------------------------------------------------------------------------------ *)
(* Correspondence cases                                                                       *)
(* ------------------------------------------------------------------------------------------ *)

Inductive lt_query :=
| QPlace (ui : N) (pc : N)                 (* units[ui].find_place_by_pc(pc) *)
| QExact (ui : N) (pc : N)                 (* units[ui].find_exact_place_by_pc(pc) *)
| QUnit (pc : N)                           (* find_unit_by_pc(pc) *)
| QFunc (pc : N)                           (* find_function_by_pc(pc) *)
| QLine (files : list (N * N)) (line : N)  (* find_closest_place; files = (unit idx, file idx) of files_index.get(tpl) *)
| QFnBp (ui : N) (off : N).                (* FatDieRef::new_func(_, ui, off).prolog_end_place() *)

Inductive lt_answer :=
| ANone                                    (* Ok(None) / empty *)
| ARow (ui idx : N)                        (* a place: unit index, pos_in_unit *)
| AUnit (ui : N)
| AFunc (ui off : N)                       (* unit index, die offset *)
| ARows (l : list (N * N))                 (* places in result order: (unit index, pos_in_unit) *)
| AErr                                     (* Err(_) *)
| APanic.                                  (* the call panicked *)

Record lt_case := LC {
  lc_ovf : bool;                 (* overflow checks compiled in (cfg!(debug_assertions) of the harness build) *)
  lc_units : list unit;          (* the units as the debugger holds them (sorted vectors) *)
  lc_prog : list (list row);     (* per unit: the line rows in program order from an independent
                                    decoder; a missing / empty entry means "use the debugger's vector" *)
  lc_query : lt_query;
  lc_answer : lt_answer
}.

Definition n2 (p : N * N) : nat * N := (N.to_nat (fst p), snd p).
Definition nn (p : N * N) : nat * nat := (N.to_nat (fst p), N.to_nat (snd p)).

Definition opt_eqb {A} (e : A -> A -> bool) (a b : option A) : bool :=
  match a, b with Some x, Some y => e x y | None, None => true | _, _ => false end.
Definition natpair_eqb (a b : nat * nat) : bool := Nat.eqb (fst a) (fst b) && Nat.eqb (snd a) (snd b).

(* model answers, reduced to what an answer records *)
Definition ans_of_place (ui : nat) (r : res (option place)) : lt_answer :=
  match r with
  | Ok None => ANone
  | Ok (Some p) => ARow (N.of_nat ui) (N.of_nat (fst p))
  | Err _ => AErr
  | _ => APanic
  end.

Definition model_answer (c : lt_case) : lt_answer :=
  let us := lc_units c in
  match lc_query c with
  | QPlace ui pc =>
      match nth_error us (N.to_nat ui) with
      | None => APanic
      | Some u => ans_of_place (N.to_nat ui) (find_place_by_pc u pc)
      end
  | QExact ui pc =>
      match nth_error us (N.to_nat ui) with
      | None => APanic
      | Some u => ans_of_place (N.to_nat ui) (find_exact_place_by_pc (lc_ovf c) u pc)
      end
  | QUnit pc =>
      match find_unit_by_pc us pc with
      | Ok None => ANone
      | Ok (Some (ui, _)) => AUnit (N.of_nat ui)
      | Err _ => AErr
      | _ => APanic
      end
  | QFunc pc =>
      match find_function_by_pc us pc with
      | Ok None => ANone
      | Ok (Some (ui, d, _)) => AFunc (N.of_nat ui) (dr_off d)
      | Err _ => AErr
      | _ => APanic
      end
  | QLine files line =>
      match find_closest_place (lc_ovf c) us (map n2 files) line with
      | Ok l => ARows (map (fun p => (N.of_nat (fst p), N.of_nat (fst (snd p)))) l)
      | Err _ => AErr
      | _ => APanic
      end
  | QFnBp ui off =>
      match nth_error us (N.to_nat ui) with
      | None => APanic
      | Some u =>
          match fn_lookup u off with
          | None => AErr
          | Some g =>
              match prolog_end_place us g with
              | Ok (vi, p) => ARow (N.of_nat vi) (N.of_nat (fst p))
              | Err _ => AErr
              | _ => APanic
              end
          end
      end
  end.

Definition NN_eqb (a b : N * N) : bool := (fst a =? fst b) && (snd a =? snd b).
Definition lt_answer_eqb (a b : lt_answer) : bool :=
  match a, b with
  | ANone, ANone => true
  | ARow u i, ARow v j => (u =? v) && (i =? j)
  | AUnit u, AUnit v => u =? v
  | AFunc u o, AFunc v p => (u =? v) && (o =? p)
  | ARows l, ARows m => list_eqb NN_eqb l m
  | AErr, AErr => true
  | APanic, APanic => true
  | _, _ => false
  end.

(* program-order rows of unit [ui] for the specification *)
Definition prog_of (c : lt_case) (ui : nat) : list row :=
  match nth_error (lc_prog c) ui with
  | Some ((_ :: _) as p) => p
  | _ => match nth_error (lc_units c) ui with Some u => u_rows u | None => [] end
  end.

Definition row_at (c : lt_case) (ui idx : N) : option row :=
  match nth_error (lc_units c) (N.to_nat ui) with
  | Some u => nth_error (u_rows u) (N.to_nat idx)
  | None => None
  end.

Definition unit_coversb (u : unit) (pc : N) : bool := existsb (in_range pc) (u_ranges u).
Definition has_fn_info (u : unit) (d : die_range) : bool :=
  match fn_lookup u (dr_off d) with Some _ => true | None => false end.

Fixpoint count_if {A} (f : A -> bool) (l : list A) : nat :=
  match l with [] => O | x :: t => if f x then S (count_if f t) else count_if f t end.

(* every function instance of a unit named in [files] that contains the line gets exactly one of
   the answered addresses *)
Definition one_per_function (us : list unit) (files : list (nat * N)) (line : N) (rows : list (nat * row)) : bool :=
  forallb (fun uf =>
    match nth_error us (fst uf) with
    | None => true
    | Some u =>
        forallb (fun g => negb (fn_has_line u (snd uf) line g) ||
                          Nat.eqb (count_if (fun p => Nat.eqb (fst p) (fst uf) && addr_in_fn g (r_addr (snd p))) rows) 1)
                (u_fns u)
    end) files.

Definition spec_ok (c : lt_case) : bool :=
  let us := lc_units c in
  match lc_query c, lc_answer c with
  | QPlace ui pc, ARow vi idx =>
      (ui =? vi) &&
      match row_at c ui idx with
      | Some r => place_ofb (prog_of c (N.to_nat ui)) pc r
      | None => false
      end
  | QPlace ui pc, ANone => no_placeb (prog_of c (N.to_nat ui)) pc
  | QExact ui pc, ARow vi idx =>
      (ui =? vi) && match row_at c ui idx with Some r => r_addr r =? pc | None => false end
  | QExact ui pc, ANone =>
      match nth_error us (N.to_nat ui) with
      | Some u => negb (existsb (fun r => r_addr r =? pc) (u_rows u))
      | None => false
      end
  | QUnit pc, AUnit ui =>
      match nth_error us (N.to_nat ui) with Some u => unit_coversb u pc | None => false end
  | QUnit pc, ANone => negb (existsb (fun u => unit_coversb u pc) us)
  | QFunc pc, AFunc ui off =>
      match nth_error us (N.to_nat ui) with
      | Some u => existsb (fun d => (dr_off d =? off) && dr_containsb pc d) (u_die_ranges u)
      | None => false
      end
  | QFunc pc, ANone =>
      negb (existsb (fun u => existsb (fun d => dr_containsb pc d && has_fn_info u d) (u_die_ranges u)) us)
  | QLine files line, ARows l =>
      let fs := map n2 files in
      let ps := map nn l in
      let rows := filter_map (fun p => match row_at c (fst p) (snd p) with
                                       | Some r => Some (N.to_nat (fst p), (N.to_nat (snd p), r))
                                       | None => None end) l in
      Nat.eqb (length rows) (length l) &&
      (let chosen := if line_has_codeb us fs line then line else line + 1 in
       forallb (is_line_placeb us fs chosen) rows &&
       one_per_function us fs chosen (map (fun p => (fst p, snd (snd p))) rows))
  | QFnBp ui off, ARow vi idx =>
      match nth_error us (N.to_nat ui), row_at c vi idx with
      | Some u, Some r =>
          match fn_lookup u off with
          | Some g => (ui =? vi) && fn_bp_ok u g r
          | None => false
          end
      | _, _ => false
      end
  | _, _ => false
  end.

Definition lt_check (c : lt_case) : N :=
  verdict (lt_answer_eqb (model_answer c) (lc_answer c)) (spec_ok c).
