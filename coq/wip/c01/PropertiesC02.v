(* C02 — Debugging never changes what the program computes or leaves patches behind. *)
From BS Require Import Model.Base.
From W Require Import ModelBpMachine ProofsBpMachine.
Open Scope N_scope.

(* at every prompt memory = original image (+) 0xCC at the enabled breakpoints of the registry *)
Theorem mem_is_patch_partial : forall code tr s i m, Prompt code tr s i m -> mem_is_patch code s.
Proof. exact mem_is_patch_prompt. Qed.

(* the executed instruction stream is the native one: a prefix of the trace, each instruction once *)
Theorem C02_transparent_partial : forall code tr s i m, Prompt code tr s i m ->
  p_exec (s_proc s) = firstn i tr /\ p_pc (s_proc s) = pc_at tr i /\ p_pos (s_proc s) = i.
Proof. exact C02_transparent_prompt. Qed.

(* core: disable / single-step / enable executes the original instruction exactly once and leaves
   memory as it was *)
Theorem C02_step_over_once :
  forall code tr,
  (forall a, In a tr -> code a <> Some INT3) -> (forall a, In a tr -> code a <> None) ->
  forall bps m i b, no_stutter tr ->
  WF code bps m -> (S i < length tr)%nat -> In b bps -> b_addr b = pc_at tr i ->
  exists m', step_over_core code tr (proc_at tr m i) b = Ok (proc_at tr m' (S i), b, false) /\ WF code bps m' /\
             (forall x, m' x = m x).
Proof. exact (fun code tr => step_over_core_once code tr 0 (fun _ => true)). Qed.

Theorem C02_clean_after_detach_partial :
  forall code tr off s i m, Prompt code tr s i m -> s_detached s = false ->
  let s' := detach off s in
  (forall x, p_mem (s_proc s') x = code x) /\ r_bps (s_reg s') = [] /\ s_fate s' = FReleased /\ s_detached s' = true.
Proof. exact (fun code tr off => C02_clean_after_detach code tr 0 off (fun _ => true)). Qed.

Theorem C02_error_paths_refuted : exists tr ops,
  let s := fst (wrun tr ops) in
  p_mem (s_proc s) 30 = Some INT3 /\ map b_ty (r_bps (s_reg s)) = [TTemp; TLinker; TUser; TEntry] /\
  only_stops (snd (wrun tr (ops ++ [Continue; Continue; Continue]))) =
     [StopBp 20 1; StopTemp 30; StopTemp 30; StopExit 7] /\
  only_stops (wspec tr (ops ++ [Continue; Continue; Continue])) = [StopBp 20 1; StopBp 20 1; StopExit 7].
Proof. exact ProofsBpMachine.C02_error_paths_refuted. Qed.

(* stepping over / continuing from the instruction that ends the process reports the exit with the
   program's code, registry and process as after a normal exit (positive since /repo c0ceee6) *)
Theorem C02_exit_step_reports_exit :
  forall code tr rbrk off has_place exit_code,
  (forall a, In a tr -> code a <> Some INT3) -> (forall a, In a tr -> code a <> None) ->
  no_stutter tr -> forall s i m, Prompt code tr s i m -> S i = length tr ->
  exists s' r, continue_execution code tr rbrk off has_place exit_code s = Ok (s', r) /\
               exit_seen exit_code r /\ ExitedOK tr s'.
Proof. exact C02_continue_from_last. Qed.

Theorem C02_stepi_last_reports_exit :
  forall code tr off exit_code,
  (forall a, In a tr -> code a <> Some INT3) -> (forall a, In a tr -> code a <> None) ->
  forall s i m, Prompt code tr s i m -> S i = length tr ->
  exists s', stepi code tr off exit_code s = (s', OExit exit_code) /\ ExitedOK tr s'.
Proof. exact (fun code tr off => C02_stepi_last code tr 0 off (fun _ => true)). Qed.

Example C02_nonvacuous : trace_okb nop tr_w = true /\ no_stutterb tr_w = true.
Proof. exact hypotheses_nonvacuous. Qed.
