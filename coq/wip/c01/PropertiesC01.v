(* C01 — Breakpoint stops are exactly the projection of the real execution: headline theorems. *)
From BS Require Import Model.Base.
From W Require Import ModelBpMachine ProofsBpMachine.
Open Scope N_scope.

(* `continue` from any prompt (position i of an arbitrary native trace, any well-formed registry)
   stops at the first later position whose address carries a user breakpoint, reports that pc and
   that breakpoint's number, and is again at a prompt (so the statement iterates: loops, recursion,
   every later arrival); with no such position it reports the program's exit code. *)
Theorem C01_projection_partial :
  forall code tr rbrk off has_place exit_code,
  (forall a, In a tr -> code a <> Some INT3) -> (forall a, In a tr -> code a <> None) ->
  no_stutter tr -> forall s i m, Prompt code tr s i m ->
  let bps := r_bps (s_reg s) in
  match next_hit tr (uaddrs bps) (S i) with
  | Some j => exists m' b s', continue_execution code tr rbrk off has_place exit_code s
                                = Ok (s', CStop (StopBp (pc_at tr j) (b_num b))) /\
                find_bp (pc_at tr j) bps = Some b /\ b_ty b = TUser /\
                r_bps (s_reg s') = bps /\ Prompt code tr s' j m' /\ (forall x, m' x = m x) /\
                r_dis (s_reg s') = r_dis (s_reg s)
  | None => exists s' r, continue_execution code tr rbrk off has_place exit_code s = Ok (s', r) /\
                exit_seen exit_code r /\ ExitedOK tr s'
  end.
Proof. exact C01_continue. Qed.

(* `run` from the initial state (after any `break <addr>` commands satisfying H_boundary): the program
   runs to the entry point, every pending user breakpoint is armed there with its number, and the
   first stop is the first later position carrying one (true pc), at a Prompt; or the exit is reported *)
Theorem C01_projection_run_partial :
  forall code tr rbrk off has_place exit_code,
  (forall a, In a tr -> code a <> Some INT3) -> (forall a, In a tr -> code a <> None) ->
  forall entry, off <= entry -> readable code entry -> readable code rbrk -> rbrk <> entry ->
  (forall k k', (k < length tr)%nat -> (k' < length tr)%nat -> pc_at tr k = entry -> pc_at tr k' = entry -> k = k') ->
  no_stutter tr -> (0 < length tr)%nat ->
  forall s, PreStart code rbrk off has_place entry s ->
  let U := pending_addrs off s in
  match next_hit tr [entry] O with
  | None => exists s' r, continue_execution code tr rbrk off has_place exit_code s = Ok (s', r) /\
                         exit_seen exit_code r /\ ExitedOK tr s'
  | Some e =>
      match next_hit tr U (S e) with
      | Some j => exists m' b s', continue_execution code tr rbrk off has_place exit_code s
                                    = Ok (s', CStop (StopBp (pc_at tr j) (b_num b))) /\
                    Prompt code tr s' j m' /\ r_dis (s_reg s') = [] /\
                    find_bp (pc_at tr j) (r_bps (s_reg s')) = Some b /\ b_ty b = TUser /\
                    (forall a, In a (uaddrs (r_bps (s_reg s'))) <-> In a U) /\
                    (exists u, In u (r_dis (s_reg s)) /\ u_key u = Reloc (pc_at tr j) /\ u_num u = b_num b)
      | None => exists s' r, continue_execution code tr rbrk off has_place exit_code s = Ok (s', r) /\
                             exit_seen exit_code r /\ ExitedOK tr s'
      end
  end.
Proof. exact C01_run. Qed.

(* whole histories [Add*; Continue; (Add | RemoveAddr | Continue)*] from init_launched: every state
   reached while the commands stop at breakpoints is a Prompt, so C01_projection_partial,
   C01_removed_silent_partial, mem_is_patch_partial and C02_transparent_partial hold at every step *)
Theorem C01_projection_history_partial :
  forall code tr rbrk off has_place exit_code,
  (forall a, In a tr -> code a <> Some INT3) -> (forall a, In a tr -> code a <> None) ->
  forall entry, off <= entry -> readable code entry -> readable code rbrk -> rbrk <> entry ->
  (forall k k', (k < length tr)%nat -> (k' < length tr)%nat -> pc_at tr k = entry -> pc_at tr k' = entry -> k = k') ->
  no_stutter tr -> (0 < length tr)%nat ->
  forall s, Run code tr rbrk off has_place exit_code entry s ->
  exists i m, Prompt code tr s i m /\ r_dis (s_reg s) = [].
Proof. exact run_is_prompt. Qed.

Theorem C01_pre_is_prestart :
  forall code tr rbrk off has_place entry s, Pre code tr rbrk off has_place entry s ->
  PreStart code rbrk off has_place entry s.
Proof. exact pre_prestart. Qed.

(* a removed breakpoint is out of the registry and out of memory, the prompt invariant survives:
   by C01_projection_partial it cannot be reported again *)
Theorem C01_removed_silent_partial :
  forall code tr,
  forall s i m a, Prompt code tr s i m -> r_dis (s_reg s) = [] ->
  let x := remove_by_addr (Reloc a) (s_reg s) (s_proc s) in
  exists m' v, snd x = Ok v /\ Prompt code tr (with_rp s (fst (fst x)) (snd (fst x))) i m' /\
    r_bps (fst (fst x)) = del_bp a (r_bps (s_reg s)) /\ r_dis (fst (fst x)) = [] /\
    m' a = code a /\ (forall y, y <> a -> m' y = m y).
Proof. exact (fun code tr => remove_prompt code tr 0 (fun _ => true)). Qed.

Theorem C01_remove_zero_refuted : exists tr ops,
  only_stops (snd (wrun tr ops)) = [StopExit 7] /\ only_stops (wspec tr ops) = [StopBp 30 1].
Proof. exact ProofsBpMachine.C01_remove_zero_refuted. Qed.

Theorem C01_removed_silent_refuted : exists tr ops,
  snd (wrun tr ops) = [OAdded 1; OStop (StopBp 50 1); OStop (StopExit 7); ORemoved None; OStop (StopBp 50 1)].
Proof. exact ProofsBpMachine.C01_removed_silent_refuted. Qed.

Theorem C01_self_loop_refuted : exists tr ops,
  only_stops (snd (wrun tr ops)) = [StopBp 20 1; StopExit 7] /\
  only_stops (wspec tr ops) = [StopBp 20 1; StopBp 20 1].
Proof. exact ProofsBpMachine.C01_self_loop_refuted. Qed.

Example C01_nonvacuous :
  let ops := [Add 20; Continue; Continue; Add 30; RemoveAddr 20; Continue; Continue; Restart; Continue] in
  only_stops (snd (wrun tr_w ops)) = only_stops (wspec tr_w ops) /\
  only_stops (snd (wrun tr_w ops)) = [StopBp 20 1; StopBp 20 1; StopBp 30 2; StopExit 7; StopBp 30 2; StopBp 30 2].
Proof. exact C01_session_agrees. Qed.
