(* C03 -- Step commands land where their definition says: headline theorems
   (model of /repo after commits c5c41d3 and c0ceee6) *)
From BS Require Import Model.Base.
From W Require Import ModelStep ProofsStep.
Open Scope N_scope.

(* ---- stepi ---- *)
Theorem C03_stepi_partial : forall tr ec fuel i,
  stepi_hyp tr i -> stepi tr ec (S fuel) i = Ok (S i, WDone).
Proof. exact ProofsStep.C03_stepi_partial. Qed.

Theorem C03_stepi_refuted :
  exists (t : trace) (i : nat), (forall j, t j <> None) /\ forall ec fuel, stepi t ec fuel i = OutOfFuel.
Proof. exact ProofsStep.C03_stepi_refuted. Qed.

Theorem C03_step_selfjump_refuted :
  forall ec fuel, step_in spin [] [] [] false ec fuel O = OutOfFuel.
Proof. exact ProofsStep.C03_step_selfjump_refuted. Qed.

(* the step that ends the process: the real exit status, never a panic *)
Theorem C03_stepi_exit : forall tr ec fuel i p,
  tr i = Some p -> tr (S i) = None -> stepi tr ec (S fuel) i = Err (E_EXIT_CODE ec).
Proof. exact ProofsStep.C03_stepi_exit. Qed.

Theorem C03_stepi_never_panics : forall tr ec fuel i s, stepi tr ec fuel i <> Panic s.
Proof. exact ProofsStep.C03_stepi_never_panics. Qed.

Theorem C03_step_in_exit : forall tr rows funcs units oc ec fuel i p rw0,
  tr i = Some p -> find_place rows units (pc p) = Some rw0 -> tr (S i) = None ->
  step_in tr rows funcs units oc ec (S fuel) i = Err (E_EXIT_CODE ec).
Proof. exact ProofsStep.C03_step_in_exit. Qed.

(* ---- step ---- *)
Theorem C03_step_in : forall tr rows funcs units oc ec fuel i p rw0 s,
  tr i = Some p -> find_place rows units (pc p) = Some rw0 ->
  step_in tr rows funcs units oc ec fuel i = Ok (s, WDone) ->
  (i < s)%nat /\
  (exists q rw, tr s = Some q /\ stmt_at rows (pc q) rw /\
                (cfa q <> cfa p \/ r_file rw <> r_file rw0 \/ r_line rw <> r_line rw0)) /\
  (forall k, (i < k < s)%nat -> ~ candidate tr rows funcs units (r_file rw0) (r_line rw0) (cfa p) k).
Proof. exact ProofsStep.C03_step_in. Qed.

(* ---- finish: no hypothesis about recursion left ---- *)
Theorem C03_finish : forall tr fuel i p R r users s,
  tr i = Some p -> finish_pre tr i R r -> memN r users = false ->
  step_out tr fuel (Some r) users i = Ok (s, WDone) -> s = R.
Proof. exact ProofsStep.C03_finish. Qed.

Theorem C03_finish_complete : forall tr fuel i p R r users,
  tr i = Some p -> finish_pre tr i R r -> memN r users = false ->
  (forall k, (i < k <= R)%nat -> exists q, tr k = Some q /\ sig q = 0) ->
  (R - i <= fuel)%nat ->
  step_out tr fuel (Some r) users i = Ok (R, WDone).
Proof. exact ProofsStep.C03_finish_complete. Qed.

Theorem C03_finish_never_panics : forall tr fuel ra users i s, step_out tr fuel ra users i <> Panic s.
Proof. exact ProofsStep.C03_finish_never_panics. Qed.

(* ---- next: no hypothesis about recursion left ---- *)
Theorem C03_next : forall tr rows fuel i p fn ra users s,
  tr i = Some p ->
  next_temps rows fn ra users <> [] ->
  next_run tr rows fuel ra users fn i p = Ok (s, WBreakpoint) ->
  (i < s)%nat /\
  (exists q, tr s = Some q /\ cfa p <= cfa q /\ memN (pc q) (next_temps rows fn ra users) = true) /\
  (forall k q, (i < k < s)%nat -> tr k = Some q -> arrive tr k ->
               memN (pc q) (next_temps rows fn ra users) = true -> cfa q < cfa p).
Proof. exact ProofsStep.C03_next. Qed.

Theorem C03_next_not_in_callee : forall tr rows funcs units oc ec fuel i p fn ra users s,
  tr i = Some p -> find_func funcs units (pc p) = Some fn -> rows <> [] ->
  next_temps rows fn ra users <> [] ->
  step_over tr rows funcs units oc ec (S fuel) ra users i = Ok (s, WDone) ->
  not_in_callee tr i (s, WDone) \/
  (exists s' q r, tr s' = Some q /\ ra = Some r /\ pc q = r /\ cfa p <= cfa q /\
                  (i < s')%nat /\ step_in tr rows funcs units oc ec (S fuel) s' = Ok (s, WDone)).
Proof. exact ProofsStep.C03_next_not_in_callee. Qed.

(* still false of the code: a user breakpoint on the next line makes `next` skip that line *)
Theorem C03_next_userbp_refuted :
  exists l users i s,
    step_over (trace_of_list l) U_rows [U_g] [(0x3000, 0x3100)] false 0 100 (Some 0x2010) users i = Ok (s, WDone) /\
    (exists q rw, (i < 2 < s)%nat /\ nth_error l 2 = Some q /\ cfa q = 0x7000 /\
                  stmt_at U_rows (pc q) rw /\ r_line rw = 22 /\ arrive (trace_of_list l) 2) /\
    reported_place (trace_of_list l) U_rows [(0x3000, 0x3100)] s
      = Some {| r_addr := 0x3040; r_file := 1; r_line := 23; r_stmt := true |}.
Proof. exact ProofsStep.C03_next_userbp_refuted. Qed.

(* non-vacuity: the recursion witnesses of the old refutations are now positive *)
Example C03_nonvacuous :
  finish_pre_b R_trace 7 17 0x1050 = true /\
  step_out (trace_of_list R_trace) 100 (Some 0x1050) [] 7 = Ok (17%nat, WDone) /\
  step_over (trace_of_list R_trace) R_rows R_funcs R_units false 0 100 (Some 0x2010) [] 3 = Ok (18%nat, WDone) /\
  step_in (trace_of_list R_trace) R_rows R_funcs R_units false 0 100 3 = Ok (6%nat, WDone).
Proof. repeat split; vm_compute; reflexivity. Qed.

Print Assumptions C03_stepi_refuted.
Print Assumptions C03_stepi_exit.
Print Assumptions C03_step_in.
Print Assumptions C03_finish.
Print Assumptions C03_finish_complete.
Print Assumptions C03_next.
Print Assumptions C03_next_not_in_callee.
Print Assumptions C03_next_userbp_refuted.
