(* C03 -- Step commands land where their definition says: headline theorems *)
From BS Require Import Model.Base.
From W Require Import ModelStep ProofsStep.
Open Scope N_scope.

Theorem C03_stepi_partial : forall tr fuel i,
  stepi_hyp tr i -> stepi tr (S fuel) i = Ok (S i, WDone).
Proof. exact ProofsStep.C03_stepi_partial. Qed.

Theorem C03_stepi_refuted :
  exists (t : trace) (i : nat), (forall j, t j <> None) /\ forall fuel, stepi t fuel i = OutOfFuel.
Proof. exact ProofsStep.C03_stepi_refuted. Qed.

Theorem C03_step_in : forall tr rows funcs units oc fuel i p rw0 s,
  tr i = Some p -> find_place rows units (pc p) = Some rw0 ->
  step_in tr rows funcs units oc fuel i = Ok (s, WDone) ->
  (i < s)%nat /\
  (exists q rw, tr s = Some q /\ stmt_at rows (pc q) rw /\
                (cfa q <> cfa p \/ r_file rw <> r_file rw0 \/ r_line rw <> r_line rw0)) /\
  (forall k, (i < k < s)%nat -> ~ candidate tr rows funcs units (r_file rw0) (r_line rw0) (cfa p) k).
Proof. exact ProofsStep.C03_step_in. Qed.

Theorem C03_finish_partial : forall tr fuel i R r users s,
  finish_hyp tr i R r -> memN r users = false ->
  step_out tr fuel (Some r) users i = Ok (s, WDone) -> s = R.
Proof. exact ProofsStep.C03_finish_partial. Qed.

Theorem C03_finish_refuted :
  exists l i r s,
    step_out (trace_of_list l) 100 (Some r) [] i = Ok (s, WDone) /\
    return_point (trace_of_list l) i 17 /\ s <> 17%nat /\
    (exists p q, nth_error l i = Some p /\ nth_error l s = Some q /\ cfa q = cfa p).
Proof. exact ProofsStep.C03_finish_refuted. Qed.

Theorem C03_next_partial : forall tr rows funcs units fuel i p fn ra users s,
  tr i = Some p -> find_func funcs units (pc p) = Some fn ->
  next_temps rows fn ra users <> [] ->
  next_hyp tr i (cfa p) (next_temps rows fn ra users) ->
  next_run tr rows fuel ra users fn i p = Ok (s, WBreakpoint) ->
  (i < s)%nat /\
  (exists q, tr s = Some q /\ cfa p <= cfa q /\ memN (pc q) (next_temps rows fn ra users) = true) /\
  (forall k q, (i < k < s)%nat -> tr k = Some q -> arrive tr k ->
               memN (pc q) (next_temps rows fn ra users) = false).
Proof. exact ProofsStep.C03_next_partial. Qed.

Theorem C03_next_refuted :
  exists l i s p q,
    step_over (trace_of_list l) R_rows R_funcs R_units false 100 (Some 0x2010) [] i = Ok (s, WDone) /\
    nth_error l i = Some p /\ nth_error l s = Some q /\ cfa q < cfa p /\
    ~ not_in_callee (trace_of_list l) i (s, WDone).
Proof. exact ProofsStep.C03_next_refuted. Qed.

Theorem C03_next_userbp_refuted :
  exists l users i s,
    step_over (trace_of_list l) U_rows [U_g] [(0x3000, 0x3100)] false 100 (Some 0x2010) users i = Ok (s, WDone) /\
    (exists q rw, (i < 2 < s)%nat /\ nth_error l 2 = Some q /\ cfa q = 0x7000 /\
                  stmt_at U_rows (pc q) rw /\ r_line rw = 22 /\ arrive (trace_of_list l) 2) /\
    reported_place (trace_of_list l) U_rows [(0x3000, 0x3100)] s
      = Some {| r_addr := 0x3040; r_file := 1; r_line := 23; r_stmt := true |}.
Proof. exact ProofsStep.C03_next_userbp_refuted. Qed.

(* non-vacuity: the partial theorems apply to, and the model completes on, a concrete trace *)
Example C03_nonvacuous :
  finish_hyp_b R_trace 10 13 0x1050 = true /\
  step_out (trace_of_list R_trace) 100 (Some 0x1050) [] 10 = Ok (13%nat, WDone) /\
  step_in (trace_of_list R_trace) R_rows R_funcs R_units false 100 3 = Ok (6%nat, WDone).
Proof. repeat split; vm_compute; reflexivity. Qed.

Print Assumptions C03_stepi_refuted.
Print Assumptions C03_step_in.
Print Assumptions C03_finish_partial.
Print Assumptions C03_next_partial.
Print Assumptions C03_next_refuted.
Print Assumptions C03_next_userbp_refuted.
