import subprocess, json, sys, time, select, os
class Dap:
    def __init__(self):
        self.p = subprocess.Popen(["/repo/target/debug/bs","--dap-local","--dap-oneshot"], stdin=subprocess.PIPE, stdout=subprocess.PIPE, stderr=subprocess.DEVNULL)
        self.seq = 1; self.buf=b""; self.events=[]
    def send(self, cmd, args=None):
        m = {"seq": self.seq, "type":"request", "command":cmd, "arguments": args or {}}
        self.seq += 1
        b = json.dumps(m).encode()
        self.p.stdin.write(b"Content-Length: %d\r\n\r\n" % len(b) + b); self.p.stdin.flush()
        return m["seq"]
    def read_msg(self, timeout=10):
        end = time.time()+timeout
        while True:
            i = self.buf.find(b"\r\n\r\n")
            if i >= 0:
                hdr = self.buf[:i].decode(); n = int([l for l in hdr.split("\r\n") if l.lower().startswith("content-length")][0].split(":")[1])
                if len(self.buf) >= i+4+n:
                    body = self.buf[i+4:i+4+n]; self.buf = self.buf[i+4+n:]
                    return json.loads(body)
            r,_,_ = select.select([self.p.stdout],[],[],max(0,end-time.time()))
            if not r: return None
            d = os.read(self.p.stdout.fileno(), 65536)
            if not d: return None
            self.buf += d
    def req(self, cmd, args=None, timeout=15):
        s = self.send(cmd, args)
        while True:
            m = self.read_msg(timeout)
            if m is None: return None
            if m.get("type")=="response" and m.get("request_seq")==s: return m
            if m.get("type")=="event": self.events.append(m)
    def drain(self, t=2):
        while True:
            m = self.read_msg(t)
            if m is None: return
            if m.get("type")=="event": self.events.append(m)
    def evs(self):
        out = [(e["event"], e.get("body",{}).get("reason"), (e.get("body",{}).get("output") or "")[:60]) for e in self.events if e["event"] in ("stopped","exited","terminated","output")]
        self.events=[]; return out
SRC="/tmp/c13e2e/t.rs"
def start():
    d = Dap(); d.req("initialize", {"adapterID":"x"}); r = d.req("launch", {"program":"/tmp/c13e2e/t"}); assert r and r["success"], r
    d.evs(); return d
def setbp(d, bps):
    r = d.req("setBreakpoints", {"source":{"path":SRC}, "breakpoints":bps}); return [(b["verified"], b["id"]) for b in r["body"]["breakpoints"]]
def run(name, f):
    d = start()
    try: f(d)
    finally:
        try: d.req("disconnect", {"terminateDebuggee": True}, 3)
        except Exception: pass
        d.p.kill()
def t_phase_remove(d):
    print("T1 set before start:", setbp(d, [{"line":2}]))
    d.req("configurationDone"); d.drain(2); print("  after configurationDone:", d.evs())
    print("  setBreakpoints []:", setbp(d, []))
    d.req("continue"); d.drain(2); print("  after continue (expected exited):", d.evs())
def t_phase_cond(d):
    print("T2 cond false before start:", setbp(d, [{"line":2, "condition":"false"}]))
    d.req("configurationDone"); d.drain(2); print("  after configurationDone (expected exited):", d.evs())
def t_after_cond(d):
    print("T3 plain bp line 11 before start:", setbp(d, [{"line":11}]))
    d.req("configurationDone"); d.drain(2); print("  stop:", d.evs())
    print("  cond false after start:", setbp(d, [{"line":2, "condition":"false"}]))
    d.req("continue"); d.drain(2); print("  after continue (expected exited):", d.evs())
def t_after_log(d):
    print("T5 plain bp line 11 before start:", setbp(d, [{"line":11}]))
    d.req("configurationDone"); d.drain(2); print("  stop:", d.evs())
    print("  logpoint after start:", setbp(d, [{"line":2, "logMessage":"hello"}]))
    d.req("continue"); d.drain(2); print("  after continue (expected 3 outputs + exited):", d.evs())
def t_multi(d):
    print("T6 plain bp line 11 before start:", setbp(d, [{"line":11}]))
    d.req("configurationDone"); d.drain(2); print("  stop:", d.evs())
    print("  bp in generic fn line 7:", setbp(d, [{"line":7}]))
    print("  setBreakpoints []:", setbp(d, []))
    d.req("continue"); d.drain(2); print("  after continue (expected exited):", d.evs())
    d.req("continue"); d.drain(2); print("  after 2nd continue:", d.evs())
def t_shared(d):
    print("T7 plain bp line 11 before start:", setbp(d, [{"line":11}]))
    d.req("configurationDone"); d.drain(2); print("  stop:", d.evs())
    print("  source bp line 2:", setbp(d, [{"line":2}]))
    r = d.req("setFunctionBreakpoints", {"breakpoints":[{"name":"tick"}]}); print("  fn bp tick:", [(b["verified"], b["id"]) for b in r["body"]["breakpoints"]])
    r = d.req("setFunctionBreakpoints", {"breakpoints":[]}); print("  fn bps []:", r["body"]["breakpoints"])
    d.req("continue"); d.drain(2); print("  after continue (expected stopped at line 2):", d.evs())
for n,f in [("3",t_after_cond),("5",t_after_log),("6",t_multi),("7",t_shared)]:
    try: run(n,f)
    except Exception as e: print("ERR", n, repr(e))
