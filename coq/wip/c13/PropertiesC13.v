(* C13 -- DAP breakpoint requests replace, and their options are honoured whenever set.
   Model of /repo HEAD (after fixes a630610, 5361f91, 8630d99).  Proofs are in ProofsDapBp.v. *)
From BS Require Import Model.Base.
From W Require Import ModelDapBp ProofsDapBp.
Open Scope N_scope.

(* REPLACE: after any history -- requests before the start, while running, after the exit,
   across restarts, lines with several locations -- the registry's locations are exactly those
   of the latest sets, provided no location is shared by two requested breakpoints (boolean
   guard; its two technical clauses: an instruction breakpoint requested while the debuggee is not
   running names an installable address; the 32-bit breakpoint counter does not wrap). *)
Theorem C13_replace :
  forall rl rf va wo bias n0 h s rs,
    guard rl rf va bias n0 h = true ->
    run rl rf va wo bias (sess_init n0) h = Ok (s, rs) ->
    forall x, In x (reg_locs bias (s_dbg s)) <-> In x (expected_locs rl rf va bias (spec_run h)).
Proof. exact ProofsDapBp.C13_replace. Qed.

(* OPTIONS: a trap at any location of the latest sets finds the record owning the breakpoint
   installed there, in whatever phase it was created ... *)
Theorem C13_options :
  forall rl rf va wo bias n0 h s rs x,
    guard rl rf va bias n0 h = true ->
    run rl rf va wo bias (sess_init n0) h = Ok (s, rs) ->
    d_phase (s_dbg s) = InProgress ->
    In x (expected_locs rl rf va bias (spec_run h)) ->
    exists num s' b, alist_get N.eqb (d_en (s_dbg s)) x = Some num /\
                     record_hit s num = Some (s', b) /\ In num (r_nums b).
Proof. exact ProofsDapBp.C13_options. Qed.

(* ... and the decision taken on a record is the specified option semantics *)
Theorem C13_options_record :
  forall id addrs nums o n cv,
    n + 1 < u64_lim -> (o_cond o = true -> cv <> None) ->
    fst (decide (bump (mk_rec id addrs nums (o_cond o) (parse_hit_opt (o_hit o)) (o_log o) n)) cv)
    = spec_stop o (n + 1) cv.
Proof. exact ProofsDapBp.C13_options_record. Qed.

Theorem C13_verified_source :
  forall rl rf va wo bias s src bps s' l,
    step rl rf va wo bias s (SetSource src bps) = Ok (s', RBps l) ->
    map fst l = map (fun b => nonempty (line_locs rl bias src b)) bps.
Proof. exact ProofsDapBp.C13_verified_source. Qed.

Theorem C13_verified_function :
  forall rl rf va wo bias s bps s' l,
    step rl rf va wo bias s (SetFunction bps) = Ok (s', RBps l) ->
    map fst l = map (fun b => nonempty (fn_locs rf bias b)) bps.
Proof. exact ProofsDapBp.C13_verified_function. Qed.

Theorem C13_verified_instruction_partial :
  forall rl rf va wo bias s bps s' l,
    d_phase (s_dbg s) = InProgress ->
    step rl rf va wo bias s (SetInstruction bps) = Ok (s', RBps l) ->
    map fst l = map (fun b => nonempty (ins_locs va bias b)) bps.
Proof. exact ProofsDapBp.C13_verified_instruction_partial. Qed.

(* STILL REFUTED (open findings) *)
Theorem C13_shared_location_refuted :
  let h := [Start; SetSource 1 [(10, no_opts)]; SetFunction [(Some 7, no_opts)]; SetFunction []] in
  w_exp h = [4196] /\ w_locs (w_run h) = Some [] /\ w_guard h = false.
Proof. exact ProofsDapBp.C13_shared_location_refuted. Qed.

Theorem C13_instr_verified_refuted :
  let h := [SetInstruction [(Some 5, no_opts)]; Start] in
  w_exp h = [] /\ w_locs (w_run h) = Some [] /\ w_guard h = false
  /\ w_last (w_run [SetInstruction [(Some 5, no_opts)]]) = Some (RBps [(true, 1)]).
Proof. exact ProofsDapBp.C13_instr_verified_refuted. Qed.

(* C13_phase_refuted_old, C13_phase_options_refuted_old, C13_multi_location_refuted_old,
   C13_exited_refuted_old: refuted on the pre-fix model (ProofsDapBp_old.v.bak), fixed in /repo;
   the same histories now satisfy the guard and the property: *)
Example C13_formerly_refuted_now_hold :
  (let h := [SetSource 1 [(10, no_opts)]; Start; SetSource 1 []] in
   w_guard h = true /\ w_exp h = [] /\ w_locs (w_run h) = Some [])
  /\ (let h := [Start; SetSource 1 [(20, no_opts)]; SetSource 1 []] in
      w_guard h = true /\ w_exp h = [] /\ w_locs (w_run h) = Some [])
  /\ (let h := [Start; SetSource 1 [(10, no_opts)]; Exit; SetSource 1 []; Restart] in
      w_guard h = true /\ w_exp h = [] /\ w_locs (w_run h) = Some [])
  /\ w_last (w_run [SetSource 1 [(10, o_cond_only)]; Start; Hit 4196 (Some false)]) = Some (RHit false 0)
  /\ w_last (w_run [SetSource 1 [(10, o_log_only)]; Start; Hit 4196 (Some true)]) = Some (RHit false 1)
  /\ w_last (w_run [SetSource 1 [(10, o_hit2)]; Start; Hit 4196 (Some true)]) = Some (RHit false 0)
  /\ w_last (w_run [Start; SetSource 1 [(20, o_log_only)]; Hit 4396 (Some true)]) = Some (RHit false 1).
Proof. exact ProofsDapBp.C13_formerly_refuted_now_hold. Qed.

(* HitCondition: matches (parse s) n is the arithmetic meaning of s; everything outside the
   syntax is Invalid = always true; parse is total (no error, no panic). *)
Theorem C13_hitcondition :
  forall s n,
    (forall o v, hc_denotes s o v -> hc_matches (hc_parse s) n = op_eval o n v) /\
    ((~ exists o v, hc_denotes s o v) -> hc_matches (hc_parse s) n = true).
Proof. exact ProofsDapBp.C13_hitcondition. Qed.

Theorem C13_hitcondition_invalid_iff :
  forall s, (exists raw, hc_parse s = HInvalid raw) <-> ~ exists o v, hc_denotes s o v.
Proof. exact ProofsDapBp.C13_hitcondition_invalid_iff. Qed.

(* non-vacuity: a history with every kind of request in every phase satisfies the guard *)
Example C13_guard_nonvacuous :
  w_guard w_good = true /\ w_locs (w_run w_good) = Some [4396; 4296; 4216; 4196]
  /\ w_exp w_good = [4196; 4216; 4296; 4396].
Proof. exact ProofsDapBp.guard_nonvacuous. Qed.

Print Assumptions C13_replace.
Print Assumptions C13_options.
Print Assumptions C13_options_record.
Print Assumptions C13_verified_source.
Print Assumptions C13_verified_function.
Print Assumptions C13_verified_instruction_partial.
Print Assumptions C13_shared_location_refuted.
Print Assumptions C13_instr_verified_refuted.
Print Assumptions C13_formerly_refuted_now_hold.
Print Assumptions C13_hitcondition.
Print Assumptions C13_hitcondition_invalid_iff.
