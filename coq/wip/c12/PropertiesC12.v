(* C12 - The DAP adapter speaks the protocol correctly for any request history.
   Statements only; the proofs are in ProofsDapWire.v.
   Part 1: the source as it is now (constants read off the source by the translator, BS.Gen.Dap).
   Part 2: what was wrong before the repairs 90c36fc / ae66bdd (theorems suffixed _old).
   Part 3: what is still false of the current source. *)
From BS Require Import Model.Base Gen.Dap.
From W Require Import ModelDapWire ProofsDapWire.
Open Scope N_scope.

(* ================================================================== *)
(* 1. The current source                                              *)
(* ================================================================== *)

(* what the translator read: every site that takes a sequence number holds the transport lock,
   and the run loop answers a failed handler only if the request has not been answered *)
Theorem C12_seq_alloc_under_lock_now : SEQ_ALLOC_UNDER_LOCK = true.
Proof. exact seq_alloc_under_lock_now. Qed.
Theorem C12_run_loop_guard_now : RUN_LOOP_SINGLE_RESPONSE_GUARD = true.
Proof. exact run_loop_guard_now. Qed.

(* --- sequence numbers --- *)

(* Any number of threads (session thread, forwarders) running the code's send blocks and read
   blocks, ANY schedule: the messages are numbered 1,2,3,... in wire order. *)
Theorem C12_seq_discipline : SEQ_ALLOC_UNDER_LOCK = true ->
  forall (threads : list (list (option body))) (sched : list nat),
  seqs_consecutive (c_wire (run_sched sched (init_c (map compile_code threads)))).
Proof. exact seq_all_schedules_current. Qed.

(* the underlying statement about the lock-then-number block *)
Theorem C12_seq_locked_alloc_all_schedules :
  forall (threads : list (list (option body))) (sched : list nat),
  seqs_consecutive (c_wire (run_sched sched (init_c (map compile_fixed threads)))).
Proof. exact seq_locked_alloc_all_schedules. Qed.

(* Session thread alone: for any requests and any handler behaviour (failing or not, answering
   zero, one or several times) the wire is numbered 1,2,3,... *)
Theorem C12_seq_single_thread : forall ins, seqs_consecutive (wire (run ins init_st)).
Proof. exact seq_single_thread. Qed.

(* and it is the wire of thread 0 of the interleaving semantics run alone *)
Theorem C12_session_alone_matches_sequential : SEQ_ALLOC_UNDER_LOCK = true -> forall ins,
  let prog := compile_code (session_blocks ins) in
  c_wire (run_sched (repeat 0%nat (length prog)) (init_c [prog])) = wire (run ins init_st).
Proof. exact session_alone_matches_sequential. Qed.

(* --- responses --- *)

(* Condition [input_at_most_onceb]: on the path taken a handler returning Ok answers exactly
   once and a handler returning Err answers at most once.  Then every consumed request gets
   exactly one response, with its seq and command, in request order - whatever seqs the
   client uses (repeated, out of order). *)
Theorem C12_one_response_guarded : forall ins,
  forallb input_at_most_onceb ins = true ->
  one_response_per_request (processed ins) (bodies (run_gen true ins init_st)).
Proof. exact one_response_guarded. Qed.

(* the same about [run], i.e. with the guard as translated from the source today *)
Theorem C12_one_response_now : forall ins,
  forallb input_at_most_onceb ins = true ->
  one_response_per_request (processed ins) (bodies (run ins init_st)).
Proof. exact one_response_now. Qed.

(* a repeated request seq is answered (it was not by the intermediate repair, see part 2) *)
Theorem C12_repeated_seq_now :
  bodies (run ins_repeated_seq init_st) =
    [Response 1 CMD_INITIALIZE true; Event EV_INITIALIZED 0; Response 1 CMD_LAUNCH false] /\
  forallb input_at_most_onceb ins_repeated_seq = true.
Proof. exact repeated_seq_now. Qed.

(* a handler that answers and fails afterwards (continue before configurationDone) is answered
   once now, twice by the old loop *)
Theorem C12_respond_then_fail_now :
  resp_proj (bodies (run ins_respond_then_fail init_st)) = processed ins_respond_then_fail /\
  resp_proj (bodies (run_gen false ins_respond_then_fail init_st)) =
    [(1%Z, CMD_INITIALIZE); (2%Z, CMD_LAUNCH); (3%Z, CMD_CONTINUE); (3%Z, CMD_CONTINUE)].
Proof. exact respond_then_fail_now. Qed.

(* A failing handler: the loop goes on; it is answered with an error response if it has not
   answered itself; it is not answered again if it has. *)
Theorem C12_error_response_guarded : forall r c h s,
  s_fail h = true ->
  snd (dispatch_one_gen true r c h s) = true /\
  (count_resp (s_body h) = 0%nat ->
     error_response_for_failing_request r c (bodies s) (bodies (fst (dispatch_one_gen true r c h s)))) /\
  (count_resp (s_body h) <> 0%nat ->
     fst (dispatch_one_gen true r c h s) = run_body r c (s_body h) (set_last_responded None s)).
Proof. exact error_response_guarded. Qed.

(* --- lifecycle --- *)

(* drain_events from any state, for any queue contents *)
Theorem C12_drain_lifecycle : forall s,
  exists X, bodies (drain_events s) = bodies s ++ X /\
    (count_ev EV_EXITED X <= 1)%nat /\ (count_ev EV_TERMINATED X <= 1)%nat /\
    lifecycle_okb X = true /\ (terminated s = true -> X = []).
Proof. exact drain_lifecycle. Qed.

(* whole sessions with one debuggee, session thread alone *)
Theorem C12_lifecycle_partial : forall ins,
  single_debuggee_b ins = true ->
  lifecycle_once (bodies (run ins init_st)) /\ no_event_after_terminated (bodies (run ins init_st)).
Proof. exact lifecycle_partial. Qed.

(* the checkers used on harness cases mean what the predicates say *)
Theorem C12_seqs_consecutiveb_iff : forall w, seqs_consecutiveb w = true <-> seqs_consecutive w.
Proof. exact seqs_consecutiveb_iff. Qed.
Theorem C12_lifecycle_okb_sound : forall bs, lifecycle_okb bs = true ->
  lifecycle_once bs /\ no_event_after_terminated bs.
Proof. exact lifecycle_okb_sound. Qed.

(* non-vacuity: a whole session (initialize, launch, configurationDone, continue to exit,
   disconnect) satisfies all hypotheses and passes the wire-level checker *)
Example C12_nonvacuous :
  let ins := ins_to_exit ++ [InReq 5 CMD_DISCONNECT (Script [PRespond true] false false)] in
  single_debuggee_b ins = true /\ forallb input_at_most_onceb ins = true /\
  length (wire (run ins init_st)) = 21%nat /\
  wire_check (processed ins, wire (run ins init_st)) = 0.
Proof. vm_compute. auto. Qed.

(* ================================================================== *)
(* 2. Before the repairs (documented defects, now fixed)              *)
(* ================================================================== *)

(* number taken before the lock: alloc_A, alloc_B, lock/write/unlock_B, lock/write/unlock_A
   puts 2 before 1 on the wire *)
Theorem C12_seq_interleaved_refuted_old :
  let c := run_sched [0; 1; 1; 1; 1; 0; 0; 0]%nat
             (init_c [compile_real [Some (Event EV_STOPPED 0)]; compile_real (forwarder_blocks 1)]) in
  c_wire c = [Msg 2 (Event EV_OUTPUT 0); Msg 1 (Event EV_STOPPED 0)] /\
  seqs_consecutiveb (c_wire c) = false.
Proof. exact seq_interleaved_refuted_old. Qed.

(* the same schedules against the code's blocks today *)
Theorem C12_seq_interleaved_now :
  let c1 := run_sched [0; 1; 1; 1; 1; 0; 0; 0]%nat
             (init_c [compile_code [Some (Event EV_STOPPED 0)]; compile_code (forwarder_blocks 1)]) in
  let c2 := run_sched [0; 1; 1; 0; 0; 0; 0; 0; 1; 1; 1]%nat
             (init_c [compile_code [None; Some (Response 7 CMD_THREADS true)]; compile_code (forwarder_blocks 1)]) in
  seqs_consecutiveb (c_wire c1) = true /\ seqs_consecutiveb (c_wire c2) = true.
Proof. exact seq_interleaved_now. Qed.

(* unguarded run loop + handle_continue answering before it can fail: two responses *)
Theorem C12_double_response_refuted_old :
  processed ins_double_old = [(1%Z, CMD_INITIALIZE); (2%Z, CMD_CONTINUE)] /\
  bodies (run_gen false ins_double_old init_st) =
    [Response 1 CMD_INITIALIZE true; Event EV_INITIALIZED 0;
     Response 2 CMD_CONTINUE true; Event EV_CONTINUED 0; Response 2 CMD_CONTINUE false] /\
  one_response_per_requestb (processed ins_double_old) (bodies (run_gen false ins_double_old init_st)) = false.
Proof. exact double_response_refuted_old. Qed.

Theorem C12_disconnect_double_response_refuted_old :
  bodies (run_gen false ins_disconnect init_st) =
    [Response 1 CMD_DISCONNECT true; Response 1 CMD_DISCONNECT false; Response 2 CMD_THREADS false].
Proof. exact disconnect_double_response_refuted_old. Qed.

(* the intermediate repair 4335108 (guard without the reset of mod.rs:678) compared request
   seqs: a request failing before answering and repeating the seq of the last answered request
   got no response at all *)
Theorem C12_silent_repeated_seq_refuted_old :
  processed ins_repeated_seq = [(1%Z, CMD_INITIALIZE); (1%Z, CMD_LAUNCH)] /\
  bodies (run_seqguard ins_repeated_seq init_st) = [Response 1 CMD_INITIALIZE true; Event EV_INITIALIZED 0].
Proof. exact silent_repeated_seq_refuted_old. Qed.

(* what the unguarded loop did for arbitrary scripts, and when that was right *)
Theorem C12_responses_general_old : forall ins s,
  resp_proj (bodies (run_gen false ins s)) = resp_proj (bodies s) ++ expected ins.
Proof. exact responses_general_old. Qed.
Theorem C12_one_response_old : forall ins,
  forallb input_onceb ins = true ->
  one_response_per_request (processed ins) (bodies (run_gen false ins init_st)).
Proof. exact one_response_old. Qed.

(* ================================================================== *)
(* 3. Still false of the current source                               *)
(* ================================================================== *)

(* a request that fails after its success response is reported as a success only *)
Theorem C12_failed_continue_reports_success_refuted :
  lastn 2 (bodies (run ins_respond_then_fail init_st)) = [Response 3 CMD_CONTINUE true; Event EV_CONTINUED 0].
Proof. exact failed_continue_reports_success_refuted. Qed.

(* disconnect whose detach fails: one response now, but the run loop does not stop *)
Theorem C12_disconnect_detach_err_now :
  bodies (run ins_disconnect init_st) = [Response 1 CMD_DISCONNECT true; Response 2 CMD_THREADS false].
Proof. exact disconnect_detach_err_now. Qed.

(* an undecodable envelope ends the session silently *)
Theorem C12_bad_envelope_silent_refuted :
  bodies (run [InBadEnvelope; InReq 2 CMD_THREADS (h_simple true)] init_st) = [] /\
  processed [InBadEnvelope; InReq 2 CMD_THREADS (h_simple true)] = [].
Proof. exact bad_envelope_silent_refuted. Qed.

(* the forwarders never look at the latch: output after terminated (numbers are fine) *)
Theorem C12_output_after_terminated_refuted :
  let session := compile_code (session_blocks ins_to_exit) in
  let c := run_sched (repeat 0%nat (length session) ++ repeat 1%nat 4)
             (init_c [session; compile_code (forwarder_blocks 1)]) in
  lifecycle_okb (map m_body (c_wire c)) = false /\ seqs_consecutiveb (c_wire c) = true /\
  lastn 3 (c_wire c) = [Msg 19 (Event EV_EXITED 0); Msg 20 (Event EV_TERMINATED 0); Msg 21 (Event EV_OUTPUT 0)].
Proof. exact output_after_terminated_refuted. Qed.

(* the literal "nothing after terminated": the run loop keeps answering after a natural exit *)
Theorem C12_nothing_after_terminated_refuted :
  let bs := bodies (run (ins_to_exit ++ [InReq 5 CMD_THREADS (h_simple false)]) init_st) in
  nothing_after_terminatedb bs = false /\ lifecycle_okb bs = true /\
  lastn 2 bs = [Event EV_TERMINATED 0; Response 5 CMD_THREADS false].
Proof. exact nothing_after_terminated_refuted. Qed.

(* [initialized] bypasses the latch *)
Theorem C12_initialized_after_terminated_refuted :
  let bs := bodies (run (ins_to_exit ++ [InReq 5 CMD_INITIALIZE h_initialize]) init_st) in
  lifecycle_okb bs = false /\
  lastn 3 bs = [Event EV_TERMINATED 0; Response 5 CMD_INITIALIZE true; Event EV_INITIALIZED 0].
Proof. exact initialized_after_terminated_refuted. Qed.

(* second launch: thread 100 announced as exited twice *)
Theorem C12_thread_exit_twice_refuted :
  let bs := bodies (run ins_relaunch init_st) in
  thread_lifecycleb bs = false /\ count_ev EV_THREAD_EXITED bs = 2%nat /\
  filter (fun b => is_ev EV_THREAD_STARTED b || is_ev EV_THREAD_EXITED b) bs =
    [Event EV_THREAD_STARTED 100; Event EV_THREAD_EXITED 100; Event EV_THREAD_STARTED 200; Event EV_THREAD_EXITED 100].
Proof. exact thread_exit_twice_refuted. Qed.

(* restart after exit: the new stop is never announced *)
Theorem C12_stop_swallowed_after_exit_refuted :
  let before := bodies (run ins_to_exit init_st) in
  let after := bodies (run (ins_to_exit ++ [InReq 5 CMD_RESTART (h_start_stop [300%Z])]) init_st) in
  after = before ++ [Response 5 CMD_RESTART true].
Proof. exact stop_swallowed_after_exit_refuted. Qed.

(* a step that runs into the exit: the queued [continued] is dropped *)
Theorem C12_continued_dropped_refuted :
  bodies (run [InReq 1 CMD_NEXT (h_next_exit 0)] init_st) =
    [Response 1 CMD_NEXT true; Event EV_EXITED 0; Event EV_TERMINATED 0].
Proof. exact continued_dropped_refuted. Qed.
