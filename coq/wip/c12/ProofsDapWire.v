(* C12 - proofs about the DAP messaging layer model (ModelDapWire.v). *)
From BS Require Import Model.Base Gen.Dap.
From W Require Import ModelDapWire.
From Coq Require Import Lia.
Open Scope N_scope.

(* ================================================================== *)
(* A. Sequential (session thread alone)                               *)
(* ================================================================== *)

Fixpoint numbered (n : N) (bs : list body) : list msg :=
  match bs with
  | [] => []
  | b :: t => Msg n b :: numbered (n + 1) t
  end.

Definition emit (bs : list body) (s : st) : st := fold_left (fun s b => send_raw b s) bs s.

Lemma numbered_app : forall a b n,
  numbered n (a ++ b) = numbered n a ++ numbered (n + N.of_nat (length a)) b.
Proof.
  induction a as [|x a IH]; intros b n; cbn [numbered app length].
  - rewrite N.add_0_r. reflexivity.
  - rewrite IH. do 3 f_equal. lia.
Qed.

Lemma numbered_length : forall bs n, length (numbered n bs) = length bs.
Proof. induction bs; intros; cbn [numbered length]; auto. Qed.

Lemma numbered_bodies : forall bs n, map m_body (numbered n bs) = bs.
Proof. induction bs as [|b bs IH]; intros; cbn [numbered map m_body]; [reflexivity|]. rewrite IH. reflexivity. Qed.

Lemma emit_cons b t s : emit (b :: t) s = emit t (send_raw b s).
Proof. reflexivity. Qed.

Lemma emit_app a b s : emit (a ++ b) s = emit b (emit a s).
Proof. unfold emit. apply fold_left_app. Qed.

Lemma emit_wire : forall bs s, wire (emit bs s) = wire s ++ numbered (server_seq s) bs.
Proof.
  induction bs as [|b bs IH]; intros s.
  - cbn [emit fold_left numbered]. rewrite app_nil_r. reflexivity.
  - rewrite emit_cons, IH. cbn [send_raw wire server_seq numbered]. rewrite <- app_assoc. reflexivity.
Qed.

Lemma emit_seq : forall bs s, server_seq (emit bs s) = server_seq s + N.of_nat (length bs).
Proof.
  induction bs as [|b bs IH]; intros s.
  - cbn [emit fold_left length]. lia.
  - rewrite emit_cons, IH. cbn [send_raw server_seq length]. lia.
Qed.

Lemma emit_terminated : forall bs s, terminated (emit bs s) = terminated s.
Proof. induction bs as [|b bs IH]; intros s; [reflexivity|]. rewrite emit_cons, IH. reflexivity. Qed.
Lemma emit_module_info : forall bs s, module_info (emit bs s) = module_info s.
Proof. induction bs as [|b bs IH]; intros s; [reflexivity|]. rewrite emit_cons, IH. reflexivity. Qed.
Lemma emit_thread_cache : forall bs s, thread_cache (emit bs s) = thread_cache s.
Proof. induction bs as [|b bs IH]; intros s; [reflexivity|]. rewrite emit_cons, IH. reflexivity. Qed.
Lemma emit_events : forall bs s, events (emit bs s) = events s.
Proof. induction bs as [|b bs IH]; intros s; [reflexivity|]. rewrite emit_cons, IH. reflexivity. Qed.
Lemma emit_last_responded : forall bs s, last_responded (emit bs s) = last_responded s.
Proof. induction bs as [|b bs IH]; intros s; [reflexivity|]. rewrite emit_cons, IH. reflexivity. Qed.

Lemma set_terminated_emit : forall bs v s, set_terminated v (emit bs s) = emit bs (set_terminated v s).
Proof. induction bs as [|b bs IH]; intros v s; [reflexivity|]. rewrite !emit_cons, IH. reflexivity. Qed.
Lemma set_exit_code_emit : forall bs v s, set_exit_code v (emit bs s) = emit bs (set_exit_code v s).
Proof. induction bs as [|b bs IH]; intros v s; [reflexivity|]. rewrite !emit_cons, IH. reflexivity. Qed.
Lemma set_module_info_emit : forall bs v s, set_module_info v (emit bs s) = emit bs (set_module_info v s).
Proof. induction bs as [|b bs IH]; intros v s; [reflexivity|]. rewrite !emit_cons, IH. reflexivity. Qed.

Lemma set_module_info_same s : set_module_info (module_info s) s = s.
Proof. destruct s; reflexivity. Qed.

(* ---- what each primitive writes ---- *)

Definition sel_bodies (f : ievent -> bool) (d : list ievent) : list body :=
  filter_map (fun e => if f e then ievent_body e else None) d.

Definition end_bodies (mi : bool) (tc : list Z) : list body :=
  (if mi then [Event EV_MODULE 1; Event EV_LOADEDSOURCE 1] else []) ++ map (Event EV_THREAD_EXITED) tc.

Definition drain_bodies (s : st) : list body :=
  if terminated s then []
  else match scan_exit (events s) with
       | Some code => sel_bodies is_output (events s) ++ end_bodies (module_info s) (thread_cache s)
                        ++ [Event EV_EXITED code; Event EV_TERMINATED 0]
       | None => if scan_terminated (events s)
                 then sel_bodies is_output (events s) ++ end_bodies (module_info s) (thread_cache s)
                        ++ [Event EV_TERMINATED 0]
                 else sel_bodies (fun _ => true) (events s)
       end.

Definition drain_local (s : st) : st :=
  if terminated s then set_events [] s
  else match scan_exit (events s) with
       | Some code => set_exit_code (Some code) (set_terminated true (set_module_info false (set_events [] s)))
       | None => if scan_terminated (events s)
                 then set_terminated true (set_module_info false (set_events [] s))
                 else set_events [] s
       end.

Lemma send_events_emit : forall f d s, send_events f d s = emit (sel_bodies f d) s.
Proof.
  intros f. induction d as [|e d IH]; intros s; [reflexivity|].
  unfold send_events in *. cbn [fold_left sel_bodies filter_map]. rewrite IH.
  destruct (f e); [|reflexivity]. unfold send_one. destruct (ievent_body e); reflexivity.
Qed.

Lemma thread_exit_fold : forall l s,
  fold_left (fun s tid => send_event EV_THREAD_EXITED tid s) l s = emit (map (Event EV_THREAD_EXITED) l) s.
Proof. induction l as [|x l IH]; intros s; [reflexivity|]. cbn [fold_left map]. rewrite IH. reflexivity. Qed.

Lemma emit_process_end_emit s :
  emit_process_end s = emit (end_bodies (module_info s) (thread_cache s)) (set_module_info false s).
Proof.
  unfold emit_process_end, end_bodies. destruct (module_info s) eqn:E.
  - cbn [send_event send_raw set_module_info thread_cache]. rewrite thread_exit_fold.
    rewrite emit_app. reflexivity.
  - rewrite thread_exit_fold. cbn [app]. rewrite <- E, set_module_info_same. reflexivity.
Qed.

Lemma drain_events_emit s : drain_events s = emit (drain_bodies s) (drain_local s).
Proof.
  unfold drain_events, drain_bodies, drain_local.
  cbn [set_events terminated].
  destruct (terminated s); [reflexivity|].
  destruct (scan_exit (events s)) as [code|].
  - rewrite send_events_emit, emit_process_end_emit.
    rewrite emit_module_info, emit_thread_cache. cbn [module_info thread_cache].
    unfold send_event.
    rewrite !set_module_info_emit, !set_terminated_emit, !set_exit_code_emit.
    rewrite !emit_app. reflexivity.
  - destruct (scan_terminated (events s)).
    + rewrite send_events_emit, emit_process_end_emit.
      rewrite emit_module_info, emit_thread_cache. cbn [module_info thread_cache].
      unfold send_event.
      rewrite !set_module_info_emit, !set_terminated_emit.
      rewrite !emit_app. reflexivity.
    + apply send_events_emit.
Qed.

Lemma drain_local_frame s : wire (drain_local s) = wire s /\ server_seq (drain_local s) = server_seq s.
Proof.
  unfold drain_local. destruct (terminated s); [split; reflexivity|].
  destruct (scan_exit (events s)); [split; reflexivity|].
  destruct (scan_terminated (events s)); split; reflexivity.
Qed.

(* [s'] is [s] after writing exactly [bs] *)
Definition emits (s s' : st) (bs : list body) : Prop :=
  wire s' = wire s ++ numbered (server_seq s) bs /\
  server_seq s' = server_seq s + N.of_nat (length bs).

Lemma emits_nil s s' : wire s' = wire s -> server_seq s' = server_seq s -> emits s s' [].
Proof. intros H1 H2. split; cbn [numbered length]; [rewrite app_nil_r; exact H1|lia]. Qed.

Lemma emits_trans s1 s2 s3 a b : emits s1 s2 a -> emits s2 s3 b -> emits s1 s3 (a ++ b).
Proof.
  intros [W1 S1] [W2 S2]. split.
  - rewrite W2, W1, S1, numbered_app, app_assoc. reflexivity.
  - rewrite S2, S1, app_length. lia.
Qed.

Lemma emits_bodies s s' bs : emits s s' bs -> bodies s' = bodies s ++ bs.
Proof. intros [W _]. unfold bodies. rewrite W, map_app, numbered_bodies. reflexivity. Qed.

Lemma emits_send_raw b s : emits s (send_raw b s) [b].
Proof. split; cbn [send_raw wire server_seq numbered length]; [reflexivity|lia]. Qed.

Lemma emits_send_response r c ok s : emits s (send_response r c ok s) [Response r c ok].
Proof.
  split; cbn [send_response set_last_responded send_raw wire server_seq numbered length]; [reflexivity|lia].
Qed.

Lemma emits_drain s : emits s (drain_events s) (drain_bodies s).
Proof.
  rewrite drain_events_emit. destruct (drain_local_frame s) as [W S].
  split; [rewrite emit_wire, W, S; reflexivity | rewrite emit_seq, S; reflexivity].
Qed.

Lemma enqueue_fold_frame : forall (f : Z -> ievent) l s,
  let s' := fold_left (fun s i => enqueue (f i) s) l s in
  wire s' = wire s /\ server_seq s' = server_seq s /\ terminated s' = terminated s /\
  last_responded s' = last_responded s.
Proof.
  intros f. induction l as [|x l IH]; intros s; cbn [fold_left]; [auto|].
  destruct (IH (enqueue (f x) s)) as (A & B & C & D). cbn zeta in *. rewrite A, B, C, D. auto.
Qed.

Lemma refresh_threads_frame ids s :
  wire (refresh_threads ids s) = wire s /\ server_seq (refresh_threads ids s) = server_seq s /\
  terminated (refresh_threads ids s) = terminated s /\
  last_responded (refresh_threads ids s) = last_responded s.
Proof.
  unfold refresh_threads. cbn [set_thread_cache wire server_seq terminated last_responded].
  match goal with |- context [fold_left _ ?l2 (fold_left _ ?l1 s)] =>
    destruct (enqueue_fold_frame (fun i => IThread false i) l1 s) as (A1 & B1 & C1 & D1);
    destruct (enqueue_fold_frame (fun i => IThread true i) l2 (fold_left (fun s i => enqueue (IThread false i) s) l1 s)) as (A2 & B2 & C2 & D2)
  end.
  cbn zeta in *. rewrite A2, B2, C2, D2, A1, B1, C1, D1. auto.
Qed.

Definition prim_bodies (rseq : Z) (cmd : N) (p : prim) (s : st) : list body :=
  match p with
  | PRespond ok => [Response rseq cmd ok]
  | PInitialized => [Event EV_INITIALIZED 0]
  | PDrain => drain_bodies s
  | _ => []
  end.

Lemma emits_prim r c p s : emits s (run_prim r c p s) (prim_bodies r c p s).
Proof.
  destruct p; cbn [run_prim prim_bodies].
  - apply emits_send_response.
  - apply emits_send_raw.
  - apply emits_nil; reflexivity.
  - apply emits_drain.
  - apply emits_nil; reflexivity.
  - destruct (refresh_threads_frame ids s) as (A & B & _). apply emits_nil; assumption.
  - apply emits_nil; reflexivity.
Qed.

Lemma emits_body r c : forall ps s, exists bs, emits s (run_body r c ps s) bs.
Proof.
  induction ps as [|p ps IH]; intros s.
  - exists []. apply emits_nil; reflexivity.
  - destruct (IH (run_prim r c p s)) as [bs Hbs].
    exists (prim_bodies r c p s ++ bs). unfold run_body in *. cbn [fold_left].
    eapply emits_trans; [apply emits_prim|exact Hbs].
Qed.

Lemma emits_dispatch g r c h s : exists bs, emits s (fst (dispatch_one_gen g r c h s)) bs.
Proof.
  unfold dispatch_one_gen. destruct (emits_body r c (s_body h) (set_last_responded None s)) as [bs Hbs].
  change (emits s (run_body r c (s_body h) (set_last_responded None s)) bs) in Hbs.
  destruct (s_fail h); [|exists bs; exact Hbs].
  match goal with |- context [if ?b then _ else _] => destruct b end; cbn [fst].
  - exists bs. exact Hbs.
  - exists (bs ++ [Response r c false]). eapply emits_trans; [exact Hbs|apply emits_send_response].
Qed.

Lemma emits_run g : forall ins s, exists bs, emits s (run_gen g ins s) bs.
Proof.
  induction ins as [|i ins IH]; intros s; cbn [run_gen].
  - eexists. apply emits_drain.
  - destruct i as [r c h| |].
    + destruct (emits_dispatch g r c h (drain_events s)) as [b1 H1].
      destruct (dispatch_one_gen g r c h (drain_events s)) as [s' cont] eqn:E. cbn [fst] in H1.
      destruct cont.
      * destruct (IH s') as [b2 H2]. eexists.
        eapply emits_trans; [apply emits_drain|]. eapply emits_trans; [exact H1|exact H2].
      * eexists. eapply emits_trans; [apply emits_drain|exact H1].
    + destruct (IH (drain_events s)) as [b2 H2]. eexists.
      eapply emits_trans; [apply emits_drain|exact H2].
    + eexists. apply emits_drain.
Qed.

(* ---- A.1 sequence numbers ---- *)

Lemma seqs_fromb_numbered : forall bs n, seqs_fromb n (numbered n bs) = true.
Proof.
  induction bs as [|b bs IH]; intros n; cbn [numbered seqs_fromb m_seq]; [reflexivity|].
  rewrite N.eqb_refl, IH. reflexivity.
Qed.

Lemma seqs_fromb_sound : forall w n, seqs_fromb n w = true ->
  forall i m, nth_error w i = Some m -> m_seq m = N.of_nat i + n.
Proof.
  induction w as [|x w IH]; intros n H i m Hn.
  - destruct i; discriminate.
  - cbn [seqs_fromb] in H. apply andb_true_iff in H. destruct H as [H1 H2].
    apply N.eqb_eq in H1. destruct i as [|i]; cbn [nth_error] in Hn.
    + inversion Hn; subst. lia.
    + rewrite (IH _ H2 _ _ Hn). lia.
Qed.

Lemma seqs_fromb_complete : forall w n,
  (forall i m, nth_error w i = Some m -> m_seq m = N.of_nat i + n) -> seqs_fromb n w = true.
Proof.
  induction w as [|x w IH]; intros n H; cbn [seqs_fromb]; [reflexivity|].
  apply andb_true_iff. split.
  - apply N.eqb_eq. rewrite (H O x eq_refl). lia.
  - apply IH. intros i m Hn. rewrite (H (S i) m Hn). lia.
Qed.

Theorem seqs_consecutiveb_iff w : seqs_consecutiveb w = true <-> seqs_consecutive w.
Proof.
  unfold seqs_consecutiveb, seqs_consecutive. split.
  - intros H i m Hn. apply (seqs_fromb_sound _ _ H _ _ Hn).
  - intros H. apply seqs_fromb_complete. exact H.
Qed.

(* the session thread alone: for ANY request list and ANY handler scripts (failing or not)
   the wire is numbered 1,2,3,... - with either run loop *)
Theorem seq_single_thread_gen : forall g ins, seqs_consecutive (wire (run_gen g ins init_st)).
Proof.
  intros g ins. apply seqs_consecutiveb_iff.
  destruct (emits_run g ins init_st) as [bs [W _]]. rewrite W.
  cbn [init_st wire server_seq app]. apply seqs_fromb_numbered.
Qed.
Theorem seq_single_thread : forall ins, seqs_consecutive (wire (run ins init_st)).
Proof. intros ins. unfold run. apply seq_single_thread_gen. Qed.

Lemma run_gen_wire_numbered g ins :
  wire (run_gen g ins init_st) = numbered 1 (bodies (run_gen g ins init_st)).
Proof.
  destruct (emits_run g ins init_st) as [bs H]. rewrite (emits_bodies _ _ _ H).
  destruct H as [W _]. rewrite W. reflexivity.
Qed.
Lemma run_wire_numbered ins : wire (run ins init_st) = numbered 1 (bodies (run ins init_st)).
Proof. unfold run. apply run_gen_wire_numbered. Qed.

(* same for any sequence of primitive calls (the harness's case (a)) *)
Theorem seq_calls : forall cs, seqs_consecutive (wire (run_calls cs init_st)).
Proof.
  intros cs. apply seqs_consecutiveb_iff.
  assert (G : forall cs s, exists bs, emits s (run_calls cs s) bs).
  { clear cs. induction cs as [|c cs IH]; intros s.
    - exists []. apply emits_nil; reflexivity.
    - destruct (IH (run_call c s)) as [b2 H2].
      assert (H1 : exists b1, emits s (run_call c s) b1).
      { destruct c; cbn [run_call].
        - eexists; apply emits_send_response.
        - eexists; apply (emits_prim 0 0 PInitialized).
        - exists []. apply emits_nil; reflexivity.
        - eexists; apply emits_drain.
        - eexists; apply (emits_prim 0 0 PResetLatch).
        - eexists; apply (emits_prim 0 0 (PRefreshThreads ids)).
        - exists []. apply emits_nil; reflexivity. }
      destruct H1 as [b1 H1]. exists (b1 ++ b2). unfold run_calls in *. cbn [fold_left].
      eapply emits_trans; eassumption. }
  destruct (G cs init_st) as [bs [W _]]. rewrite W. cbn [init_st wire server_seq app].
  apply seqs_fromb_numbered.
Qed.

(* ---- A.2 responses ---- *)

Definition plain (b : body) : bool :=
  match b with
  | Event e _ => negb (N.eqb e EV_TERMINATED) && negb (N.eqb e EV_EXITED)
  | Response _ _ _ => false
  end.

Lemma ievent_body_plain e b : ievent_body e = Some b -> plain b = true.
Proof.
  destruct e as [| |[|] tid| | | | | | | | | | | | ]; cbn [ievent_body]; intros H;
    inversion H; subst; reflexivity.
Qed.

Lemma sel_bodies_plain f : forall d, forallb plain (sel_bodies f d) = true.
Proof.
  induction d as [|e d IH]; [reflexivity|]. unfold sel_bodies in *. cbn [filter_map].
  destruct (f e); [|exact IH]. destruct (ievent_body e) eqn:E; [|exact IH].
  cbn [forallb]. rewrite (ievent_body_plain _ _ E), IH. reflexivity.
Qed.

Lemma end_bodies_plain mi tc : forallb plain (end_bodies mi tc) = true.
Proof.
  unfold end_bodies. rewrite forallb_app. apply andb_true_iff. split.
  - destruct mi; reflexivity.
  - induction tc as [|x tc IH]; [reflexivity|]. cbn [map forallb]. rewrite IH. reflexivity.
Qed.

Lemma drain_terminated s :
  terminated (drain_events s) =
  terminated s || (match scan_exit (events s) with Some _ => true | None => scan_terminated (events s) end).
Proof.
  rewrite drain_events_emit, emit_terminated. unfold drain_local.
  destruct (terminated s) eqn:T; [cbn [set_events terminated orb]; exact T|].
  destruct (scan_exit (events s)); [reflexivity|].
  destruct (scan_terminated (events s)); cbn [set_terminated set_events set_module_info terminated orb]; auto.
Qed.

Lemma drain_cases s :
  (terminated s = true /\ drain_bodies s = [] /\ terminated (drain_events s) = true) \/
  (terminated s = false /\ exists pl, forallb plain pl = true /\
     ((exists c, drain_bodies s = pl ++ [Event EV_EXITED c; Event EV_TERMINATED 0]
                 /\ terminated (drain_events s) = true) \/
      (drain_bodies s = pl ++ [Event EV_TERMINATED 0] /\ terminated (drain_events s) = true) \/
      (drain_bodies s = pl /\ terminated (drain_events s) = false))).
Proof.
  rewrite drain_terminated. unfold drain_bodies. destruct (terminated s); [left; auto|].
  right. split; [reflexivity|]. cbn [orb].
  destruct (scan_exit (events s)) as [c|].
  - exists (sel_bodies is_output (events s) ++ end_bodies (module_info s) (thread_cache s)). split.
    + rewrite forallb_app, sel_bodies_plain, end_bodies_plain. reflexivity.
    + left. exists c. rewrite <- app_assoc. auto.
  - destruct (scan_terminated (events s)).
    + exists (sel_bodies is_output (events s) ++ end_bodies (module_info s) (thread_cache s)). split.
      * rewrite forallb_app, sel_bodies_plain, end_bodies_plain. reflexivity.
      * right. left. rewrite <- app_assoc. auto.
    + exists (sel_bodies (fun _ => true) (events s)). split; [apply sel_bodies_plain|]. right. right. auto.
Qed.

Lemma filter_map_app {A B} (f : A -> option B) : forall a b,
  filter_map f (a ++ b) = filter_map f a ++ filter_map f b.
Proof.
  induction a as [|x a IH]; intros b; cbn [filter_map app]; [reflexivity|].
  destruct (f x); rewrite IH; reflexivity.
Qed.

Lemma resp_proj_app a b : resp_proj (a ++ b) = resp_proj a ++ resp_proj b.
Proof. apply filter_map_app. Qed.

Lemma resp_proj_plain : forall bs, forallb plain bs = true -> resp_proj bs = [].
Proof.
  induction bs as [|b bs IH]; intros H; [reflexivity|]. cbn [forallb] in H.
  apply andb_true_iff in H. destruct H as [H1 H2]. destruct b; [discriminate|].
  unfold resp_proj in *. cbn [filter_map]. apply IH. exact H2.
Qed.

Lemma drain_bodies_resp s : resp_proj (drain_bodies s) = [].
Proof.
  destruct (drain_cases s) as [(_ & E & _)|(_ & pl & Hpl & [(c & E & _)|[(E & _)|(E & _)]])]; rewrite E.
  - reflexivity.
  - rewrite resp_proj_app, (resp_proj_plain _ Hpl). reflexivity.
  - rewrite resp_proj_app, (resp_proj_plain _ Hpl). reflexivity.
  - apply resp_proj_plain. exact Hpl.
Qed.

Lemma drain_resp s : resp_proj (bodies (drain_events s)) = resp_proj (bodies s).
Proof.
  rewrite (emits_bodies _ _ _ (emits_drain s)), resp_proj_app, drain_bodies_resp, app_nil_r. reflexivity.
Qed.

Definition is_respond (p : prim) : bool := match p with PRespond _ => true | _ => false end.

Lemma prim_resp r c p s :
  resp_proj (bodies (run_prim r c p s)) = resp_proj (bodies s) ++ (if is_respond p then [(r, c)] else []).
Proof.
  rewrite (emits_bodies _ _ _ (emits_prim r c p s)), resp_proj_app. f_equal.
  destruct p; cbn [prim_bodies is_respond]; try reflexivity. apply drain_bodies_resp.
Qed.

Lemma run_body_resp r c : forall ps s,
  resp_proj (bodies (run_body r c ps s)) = resp_proj (bodies s) ++ repeat (r, c) (count_resp ps).
Proof.
  induction ps as [|p ps IH]; intros s.
  - cbn. rewrite app_nil_r. reflexivity.
  - unfold run_body in *. cbn [fold_left]. rewrite IH, prim_resp, <- app_assoc. f_equal.
    unfold count_resp. cbn [filter]. fold (is_respond p).
    destruct (is_respond p); reflexivity.
Qed.

(* the run loop before 4335108 (guard = false) *)
Lemma dispatch_resp_old r c h s :
  resp_proj (bodies (fst (dispatch_one_gen false r c h s))) = resp_proj (bodies s) ++ repeat (r, c) (resp_count h) /\
  snd (dispatch_one_gen false r c h s) = (s_fail h || s_cont h).
Proof.
  unfold dispatch_one_gen, resp_count. cbn [andb].
  pose proof (run_body_resp r c (s_body h) (set_last_responded None s)) as R.
  change (bodies (set_last_responded None s)) with (bodies s) in R.
  destruct (s_fail h); cbn [fst snd orb]; split; try reflexivity.
  - rewrite (emits_bodies _ _ _ (emits_send_response _ _ _ _)), resp_proj_app, R.
    rewrite repeat_app, <- app_assoc. reflexivity.
  - rewrite R, Nat.add_0_r. reflexivity.
Qed.

(* the responses the OLD run loop produces, for arbitrary scripts *)
Fixpoint expected (ins : list input) : list (Z * N) :=
  match ins with
  | [] => []
  | InBadEnvelope :: _ => []
  | InNotRequest :: t => expected t
  | InReq r c h :: t => repeat (r, c) (resp_count h) ++ (if s_fail h || s_cont h then expected t else [])
  end.

Theorem responses_general_old : forall ins s,
  resp_proj (bodies (run_gen false ins s)) = resp_proj (bodies s) ++ expected ins.
Proof.
  induction ins as [|i ins IH]; intros s; cbn [run_gen expected].
  - rewrite drain_resp, app_nil_r. reflexivity.
  - destruct i as [r c h| |].
    + destruct (dispatch_resp_old r c h (drain_events s)) as [H1 H2].
      destruct (dispatch_one_gen false r c h (drain_events s)) as [s' cont]. cbn [fst snd] in H1, H2.
      rewrite <- H2. rewrite drain_resp in H1. destruct cont.
      * rewrite IH, H1, <- app_assoc. reflexivity.
      * rewrite H1, app_nil_r. reflexivity.
    + rewrite IH, drain_resp. reflexivity.
    + rewrite drain_resp, app_nil_r. reflexivity.
Qed.

(* if every handler answers exactly once on its path (counting the run loop's error
   response for a failing handler), every consumed request gets exactly one response, with
   its request_seq and command, in request order *)
Theorem one_response_old : forall ins,
  forallb input_onceb ins = true ->
  one_response_per_request (processed ins) (bodies (run_gen false ins init_st)).
Proof.
  intros ins H. unfold one_response_per_request. rewrite responses_general_old. cbn [init_st bodies wire map resp_proj filter_map app].
  induction ins as [|i ins IH]; [reflexivity|].
  cbn [forallb] in H. apply andb_true_iff in H. destruct H as [H1 H2].
  destruct i as [r c h| |]; cbn [expected processed].
  - cbn [input_onceb] in H1. unfold script_onceb in H1. apply Nat.eqb_eq in H1. rewrite H1.
    cbn [repeat app]. f_equal. destruct (s_fail h || s_cont h); [apply IH; exact H2|reflexivity].
  - apply IH. exact H2.
  - reflexivity.
Qed.

(* ---- A.3 a failing handler is answered with an error response, and the loop goes on ---- *)
Theorem error_response_old : forall r c h s,
  s_fail h = true ->
  error_response_for_failing_request r c (bodies s) (bodies (fst (dispatch_one_gen false r c h s))) /\
  snd (dispatch_one_gen false r c h s) = true.
Proof.
  intros r c h s Hf. unfold dispatch_one_gen. rewrite Hf. cbn [andb fst snd]. split; [|reflexivity].
  destruct (emits_body r c (s_body h) (set_last_responded None s)) as [bs Hbs]. exists bs.
  rewrite (emits_bodies _ _ _ (emits_send_response _ _ _ _)), (emits_bodies _ _ _ Hbs), app_assoc.
  reflexivity.
Qed.

(* ---- A.3' the run loop now (guard = true, mod.rs:678 and :684) ---- *)

Lemma drain_last s : last_responded (drain_events s) = last_responded s.
Proof.
  rewrite drain_events_emit, emit_last_responded. unfold drain_local.
  destruct (terminated s); [reflexivity|]. destruct (scan_exit (events s)); [reflexivity|].
  destruct (scan_terminated (events s)); reflexivity.
Qed.

Lemma run_prim_last r c p s :
  last_responded (run_prim r c p s) = if is_respond p then Some r else last_responded s.
Proof.
  destruct p; cbn [run_prim is_respond]; try reflexivity.
  - apply drain_last.
  - destruct (refresh_threads_frame ids s) as (_ & _ & _ & D). exact D.
Qed.

Lemma count_resp_cons p ps : count_resp (p :: ps) = ((if is_respond p then 1 else 0) + count_resp ps)%nat.
Proof. unfold count_resp. cbn [filter]. fold (is_respond p). destruct (is_respond p); reflexivity. Qed.

Lemma run_body_last r c : forall ps s,
  last_responded (run_body r c ps s) =
  if Nat.eqb (count_resp ps) 0 then last_responded s else Some r.
Proof.
  induction ps as [|p ps IH]; intros s; [reflexivity|].
  unfold run_body in *. cbn [fold_left]. rewrite IH, run_prim_last, count_resp_cons.
  destruct (is_respond p); cbn [Nat.add]; [|reflexivity].
  destruct (Nat.eqb (count_resp ps) 0); reflexivity.
Qed.

(* the condition: on the path taken the handler sends exactly one response if it returns
   Ok and at most one if it returns Err.  Nothing is asked of the request seqs: mod.rs:678
   clears last_responded_request before every dispatch. *)
Definition at_most_onceb (h : script) : bool :=
  let n := count_resp (s_body h) in
  if s_fail h then Nat.leb n 1 else Nat.eqb n 1.
Definition input_at_most_onceb (i : input) : bool :=
  match i with InReq _ _ h => at_most_onceb h | _ => true end.

Lemma dispatch_guarded r c h s :
  at_most_onceb h = true ->
  resp_proj (bodies (fst (dispatch_one_gen true r c h s))) = resp_proj (bodies s) ++ [(r, c)] /\
  snd (dispatch_one_gen true r c h s) = (s_fail h || s_cont h).
Proof.
  intros HS. unfold at_most_onceb in HS. unfold dispatch_one_gen, guard_hit. cbn [andb].
  pose proof (run_body_last r c (s_body h) (set_last_responded None s)) as L.
  pose proof (run_body_resp r c (s_body h) (set_last_responded None s)) as R.
  change (bodies (set_last_responded None s)) with (bodies s) in R.
  change (last_responded (set_last_responded None s)) with (@None Z) in L.
  destruct (s_fail h); cbn [orb].
  - apply Nat.leb_le in HS. destruct (count_resp (s_body h)) as [|[|n]]; [| |lia].
    + cbn [Nat.eqb repeat] in L, R. rewrite app_nil_r in R. rewrite L. cbn [fst snd].
      rewrite (emits_bodies _ _ _ (emits_send_response _ _ _ _)), resp_proj_app, R. auto.
    + cbn [Nat.eqb] in L. rewrite L, Z.eqb_refl. cbn [fst snd]. rewrite R. auto.
  - apply Nat.eqb_eq in HS. rewrite HS in R. cbn [fst snd]. rewrite R. auto.
Qed.

Theorem responses_guarded : forall ins s,
  forallb input_at_most_onceb ins = true ->
  resp_proj (bodies (run_gen true ins s)) = resp_proj (bodies s) ++ processed ins.
Proof.
  induction ins as [|i ins IH]; intros s H; cbn [run_gen processed].
  - rewrite drain_resp, app_nil_r. reflexivity.
  - cbn [forallb] in H. apply andb_true_iff in H. destruct H as [H1 H2].
    destruct i as [r c h| |].
    + destruct (dispatch_guarded r c h (drain_events s) H1) as (R & C).
      destruct (dispatch_one_gen true r c h (drain_events s)) as [s' cont]. cbn [fst snd] in R, C.
      rewrite <- C. rewrite drain_resp in R. destruct cont.
      * rewrite (IH s' H2), R, <- app_assoc. reflexivity.
      * rewrite R. reflexivity.
    + rewrite (IH (drain_events s) H2), drain_resp. reflexivity.
    + rewrite drain_resp, app_nil_r. reflexivity.
Qed.

(* HEADLINE (current source): every consumed request gets exactly one response with its seq
   and command, in request order - including handlers that answer and fail afterwards, and
   whatever seqs the client uses (repeated, out of order) *)
Theorem one_response_guarded : forall ins,
  forallb input_at_most_onceb ins = true ->
  one_response_per_request (processed ins) (bodies (run_gen true ins init_st)).
Proof.
  intros ins H. unfold one_response_per_request.
  rewrite (responses_guarded ins init_st H). reflexivity.
Qed.

(* a failing handler: answered with an error response iff it has not answered itself *)
Theorem error_response_guarded : forall r c h s,
  s_fail h = true ->
  snd (dispatch_one_gen true r c h s) = true /\
  (count_resp (s_body h) = 0%nat ->
     error_response_for_failing_request r c (bodies s) (bodies (fst (dispatch_one_gen true r c h s)))) /\
  (count_resp (s_body h) <> 0%nat ->
     fst (dispatch_one_gen true r c h s) = run_body r c (s_body h) (set_last_responded None s)).
Proof.
  intros r c h s Hf. unfold dispatch_one_gen, guard_hit. rewrite Hf. cbn [andb].
  pose proof (run_body_last r c (s_body h) (set_last_responded None s)) as L.
  change (last_responded (set_last_responded None s)) with (@None Z) in L.
  split; [|split].
  - match goal with |- context [if ?b then _ else _] => destruct b end; reflexivity.
  - intros H0. rewrite H0 in L. cbn [Nat.eqb] in L. rewrite L. cbn [fst].
    destruct (emits_body r c (s_body h) (set_last_responded None s)) as [bs Hbs]. exists bs.
    rewrite (emits_bodies _ _ _ (emits_send_response _ _ _ _)), (emits_bodies _ _ _ Hbs), app_assoc. reflexivity.
  - intros HN. apply Nat.eqb_neq in HN. rewrite HN in L. rewrite L, Z.eqb_refl. reflexivity.
Qed.

(* ---- A.4 lifecycle events ---- *)

Lemma life_run_app : forall a b ph,
  life_run ph (a ++ b) = match life_run ph a with Some p => life_run p b | None => None end.
Proof.
  induction a as [|x a IH]; intros b ph; cbn [life_run app]; [reflexivity|].
  destruct (life_step ph x); [apply IH|reflexivity].
Qed.

Lemma life_step_plain ph b : plain b = true -> ph <> TermSeen -> life_step ph b = Some ph.
Proof.
  destruct b as [|e a]; [discriminate|]. cbn [plain life_step]. intros H Hph.
  apply andb_true_iff in H. destruct H as [H1 H2].
  apply negb_true_iff in H1. apply negb_true_iff in H2. rewrite H1, H2.
  destruct ph; [reflexivity|reflexivity|congruence].
Qed.

Lemma life_run_plain : forall bs ph, forallb plain bs = true -> ph <> TermSeen -> life_run ph bs = Some ph.
Proof.
  induction bs as [|b bs IH]; intros ph H Hph; [reflexivity|].
  cbn [forallb] in H. apply andb_true_iff in H. destruct H as [H1 H2].
  cbn [life_run]. rewrite (life_step_plain _ _ H1 Hph). apply IH; assumption.
Qed.

(* drain_events alone, from any state and for any queue contents: at most one [exited],
   at most one [terminated], exited first, nothing else after them; nothing at all once
   the latch is set *)
Theorem drain_lifecycle : forall s,
  exists X, bodies (drain_events s) = bodies s ++ X /\
    (count_ev EV_EXITED X <= 1)%nat /\ (count_ev EV_TERMINATED X <= 1)%nat /\
    lifecycle_okb X = true /\ (terminated s = true -> X = []).
Proof.
  intros s. exists (drain_bodies s). split; [apply emits_bodies, emits_drain|].
  assert (C0 : forall pl, forallb plain pl = true ->
            count_ev EV_EXITED pl = 0%nat /\ count_ev EV_TERMINATED pl = 0%nat).
  { induction pl as [|b pl IH]; intros H; [split; reflexivity|].
    cbn [forallb] in H. apply andb_true_iff in H. destruct H as [H1 H2].
    destruct (IH H2) as [E1 E2].
    destruct b as [|e a]; [discriminate|]. cbn [plain] in H1.
    apply andb_true_iff in H1. destruct H1 as [Ha Hb].
    apply negb_true_iff in Ha. apply negb_true_iff in Hb.
    unfold count_ev in *. cbn [filter is_ev]. rewrite Ha, Hb. auto. }
  assert (CA : forall code a b, count_ev code (a ++ b) = (count_ev code a + count_ev code b)%nat).
  { intros. unfold count_ev. rewrite filter_app, app_length. reflexivity. }
  destruct (drain_cases s) as [(T & E & _)|(T & pl & Hpl & [(c & E & _)|[(E & _)|(E & _)]])];
    rewrite E; destruct (C0 _ Hpl) as [Z1 Z2] || idtac.
  - repeat split; auto.
  - rewrite !CA, Z1, Z2. repeat split; [vm_compute; lia|vm_compute; lia| |congruence].
    unfold lifecycle_okb. rewrite life_run_app, (life_run_plain _ _ Hpl); [reflexivity|discriminate].
  - rewrite !CA, Z1, Z2. repeat split; [vm_compute; lia|vm_compute; lia| |congruence].
    unfold lifecycle_okb. rewrite life_run_app, (life_run_plain _ _ Hpl); [reflexivity|discriminate].
  - rewrite Z1, Z2. repeat split; [lia|lia| |congruence].
    unfold lifecycle_okb. rewrite (life_run_plain _ _ Hpl); [reflexivity|discriminate].
Qed.

(* soundness of the automaton w.r.t. the declarative predicates *)
Lemma count_ev_cons code b t :
  count_ev code (b :: t) = ((if is_ev code b then 1 else 0) + count_ev code t)%nat.
Proof. unfold count_ev. cbn [filter]. destruct (is_ev code b); reflexivity. Qed.

Lemma life_sound : forall bs ph p, life_run ph bs = Some p ->
  (count_ev EV_EXITED bs <= (match ph with Live => 1 | _ => 0 end))%nat /\
  (count_ev EV_TERMINATED bs <= (match ph with TermSeen => 0 | _ => 1 end))%nat /\
  (ph = TermSeen -> forallb is_response bs = true) /\
  (forall a x b, bs = a ++ Event EV_TERMINATED x :: b -> forallb is_response b = true).
Proof.
  induction bs as [|b t IH]; intros ph p H.
  - repeat split; try (destruct ph; cbn; lia). intros a x b E. destruct a; discriminate.
  - cbn [life_run] in H. destruct (life_step ph b) as [ph'|] eqn:S; [|discriminate].
    destruct (IH _ _ H) as (I1 & I2 & I3 & I4). rewrite !count_ev_cons.
    assert (SPLIT : forall a x b0, b :: t = a ++ Event EV_TERMINATED x :: b0 ->
               (a = [] /\ b = Event EV_TERMINATED x /\ b0 = t) \/ (exists a', a = b :: a' /\ t = a' ++ Event EV_TERMINATED x :: b0)).
    { intros a x b0 E. destruct a as [|h a']; cbn [app] in E; inversion E; subst; [left; auto|right; eauto]. }
    destruct b as [r c ok|e arg].
    + cbn [life_step] in S. inversion S; subst ph'. cbn [is_ev forallb is_response andb].
      repeat split; auto.
      intros a x b0 E. destruct (SPLIT _ _ _ E) as [(_ & E2 & _)|(a' & _ & E2)]; [discriminate|eauto].
    + cbn [life_step] in S. cbn [is_ev].
      destruct (N.eqb_spec e EV_TERMINATED) as [->|Ht].
      * change (N.eqb EV_TERMINATED EV_EXITED) with false.
        destruct ph; inversion S; subst ph'; (repeat split; [lia|lia|discriminate|]);
          intros a x b0 E; (destruct (SPLIT _ _ _ E) as [(_ & _ & ->)|(a' & _ & E2)]; [apply I3; reflexivity|eauto]).
      * destruct (N.eqb_spec e EV_EXITED) as [->|He].
        -- destruct ph; inversion S; subst ph'. repeat split; [lia|lia|discriminate|].
           intros a x b0 E. destruct (SPLIT _ _ _ E) as [(_ & E2 & _)|(a' & _ & E2)]; [discriminate|eauto].
        -- destruct ph; inversion S; subst ph'; (repeat split; [lia|lia|discriminate|]);
             intros a x b0 E; (destruct (SPLIT _ _ _ E) as [(_ & E2 & _)|(a' & _ & E2)]; [congruence|eauto]).
Qed.

Lemma forallb_response_no_ev code : forall bs, forallb is_response bs = true -> count_ev code bs = 0%nat.
Proof.
  induction bs as [|b bs IH]; intros H; [reflexivity|]. cbn [forallb] in H.
  apply andb_true_iff in H. destruct H as [H1 H2]. rewrite count_ev_cons, (IH H2).
  destruct b; [reflexivity|discriminate].
Qed.

Theorem lifecycle_okb_sound : forall bs, lifecycle_okb bs = true ->
  lifecycle_once bs /\ no_event_after_terminated bs.
Proof.
  intros bs H. unfold lifecycle_okb in H. destruct (life_run Live bs) as [p|] eqn:E; [|discriminate].
  destruct (life_sound _ _ _ E) as (I1 & I2 & _ & I4). split.
  - split; [exact I1|]. split; [exact I2|]. intros a b x Hs. apply forallb_response_no_ev. eapply I4. exact Hs.
  - intros a b x Hs. eapply I4. exact Hs.
Qed.

(* the static condition: one debuggee per session.  Scanning the scripts in order with
   the flag "a lifecycle event may have been queued": [initialized] and the latch reset of
   launch/attach are only allowed while the flag is down. *)
Definition is_lifecycle (e : ievent) : bool :=
  match e with IExited _ => true | ITerminated => true | _ => false end.
Definition prim_scan (mt : bool) (p : prim) : option bool :=
  match p with
  | PResetLatch => if mt then None else Some mt
  | PInitialized => if mt then None else Some mt
  | PEnqueue e => Some (mt || is_lifecycle e)
  | _ => Some mt
  end.
Fixpoint scan_prims (mt : bool) (ps : list prim) : option bool :=
  match ps with
  | [] => Some mt
  | p :: t => match prim_scan mt p with Some mt' => scan_prims mt' t | None => None end
  end.
Fixpoint scan_inputs (mt : bool) (ins : list input) : bool :=
  match ins with
  | [] => true
  | InReq _ _ h :: t => match scan_prims mt (s_body h) with Some mt' => scan_inputs mt' t | None => false end
  | _ :: t => scan_inputs mt t
  end.
Definition single_debuggee_b (ins : list input) : bool := scan_inputs false ins.

Definition quiet (d : list ievent) : bool := forallb (fun e => negb (is_lifecycle e)) d.

Definition LInv (mt : bool) (s : st) : Prop :=
  (exists ph, life_run Live (bodies s) = Some ph /\ (terminated s = false -> ph = Live)) /\
  (mt = false -> terminated s = false /\ quiet (events s) = true).

Lemma quiet_scan d : quiet d = true -> scan_exit d = None /\ scan_terminated d = false.
Proof.
  unfold scan_exit, scan_terminated, quiet. intros H. split.
  - generalize (@None Z). induction d as [|e d IH]; intros acc; [reflexivity|].
    cbn [forallb] in H. apply andb_true_iff in H. destruct H as [H1 H2]. cbn [fold_left].
    rewrite (IH H2). destruct e; try reflexivity; discriminate.
  - induction d as [|e d IH]; [reflexivity|].
    cbn [forallb] in H. apply andb_true_iff in H. destruct H as [H1 H2]. cbn [existsb].
    rewrite (IH H2). destruct e; try reflexivity; discriminate.
Qed.

Lemma drain_events_events s : events (drain_events s) = [].
Proof.
  rewrite drain_events_emit, emit_events. unfold drain_local.
  destruct (terminated s); [reflexivity|]. destruct (scan_exit (events s)); [reflexivity|].
  destruct (scan_terminated (events s)); reflexivity.
Qed.

Lemma linv_drain mt s : LInv mt s -> LInv mt (drain_events s).
Proof.
  intros [(ph & L & P) Q]. split.
  - rewrite (emits_bodies _ _ _ (emits_drain s)), life_run_app, L.
    destruct (drain_cases s) as [(T & E & T')|(T & pl & Hpl & [(c & E & T')|[(E & T')|(E & T')]])];
      rewrite E, T'.
    + exists ph. split; [reflexivity|discriminate].
    + rewrite (P T). exists TermSeen. split; [|discriminate].
      rewrite life_run_app, (life_run_plain _ _ Hpl); [reflexivity|discriminate].
    + rewrite (P T). exists TermSeen. split; [|discriminate].
      rewrite life_run_app, (life_run_plain _ _ Hpl); [reflexivity|discriminate].
    + rewrite (P T). exists Live. split; [|reflexivity].
      apply life_run_plain; [exact Hpl|discriminate].
  - intros M. destruct (Q M) as [T Qe]. rewrite drain_terminated, drain_events_events, T.
    destruct (quiet_scan _ Qe) as [E1 E2]. rewrite E1, E2. split; reflexivity.
Qed.

Lemma enqueue_fold_events : forall (f : Z -> ievent) l s,
  events (fold_left (fun s i => enqueue (f i) s) l s) = events s ++ map f l.
Proof.
  intros f. induction l as [|x l IH]; intros s; cbn [fold_left map]; [rewrite app_nil_r; reflexivity|].
  rewrite IH. cbn [enqueue set_events events]. rewrite <- app_assoc. reflexivity.
Qed.

Lemma refresh_threads_quiet ids s : quiet (events s) = true -> quiet (events (refresh_threads ids s)) = true.
Proof.
  intros H. unfold refresh_threads. cbn [set_thread_cache events].
  rewrite !enqueue_fold_events. unfold quiet in *. rewrite !forallb_app, H. cbn [andb].
  apply andb_true_iff. split; apply forallb_forall; intros e Hin; apply in_map_iff in Hin;
    destruct Hin as (i & <- & _); reflexivity.
Qed.

Lemma linv_respond mt s b : is_response b = true -> LInv mt s -> LInv mt (send_raw b s).
Proof.
  intros Hb [(ph & L & P) Q]. split; [|exact Q].
  rewrite (emits_bodies _ _ _ (emits_send_raw b s)), life_run_app, L.
  exists ph. split; [|exact P]. destruct b; [reflexivity|discriminate].
Qed.

Lemma linv_set_last mt x s : LInv mt s -> LInv mt (set_last_responded x s).
Proof. intros H. exact H. Qed.

Lemma linv_prim r c p s mt mt' : prim_scan mt p = Some mt' -> LInv mt s -> LInv mt' (run_prim r c p s).
Proof.
  intros Hs HI. destruct p; cbn [prim_scan] in Hs; cbn [run_prim].
  - inversion Hs; subst. unfold send_response. apply linv_set_last. apply linv_respond; [reflexivity|exact HI].
  - destruct mt; inversion Hs; subst. destruct HI as [(ph & L & P) Q].
    destruct (Q eq_refl) as [T Qe]. split; [|intros _; split; assumption].
    unfold send_event. rewrite (emits_bodies _ _ _ (emits_send_raw _ s)), life_run_app, L, (P T).
    exists Live. split; reflexivity.
  - inversion Hs; subst. destruct HI as [(ph & L & P) Q]. split.
    + exists ph. split; assumption.
    + intros M. apply orb_false_iff in M. destruct M as [M1 M2]. destruct (Q M1) as [T Qe].
      split; [exact T|]. cbn [enqueue set_events events]. unfold quiet in *.
      rewrite forallb_app, Qe. cbn [forallb]. rewrite M2. reflexivity.
  - inversion Hs; subst. apply linv_drain. exact HI.
  - destruct mt; inversion Hs; subst. destruct HI as [(ph & L & P) Q].
    destruct (Q eq_refl) as [T Qe]. split.
    + exists ph. split; [exact L|]. intros _. exact (P T).
    + intros _. split; [reflexivity|exact Qe].
  - inversion Hs; subst. destruct HI as [(ph & L & P) Q].
    destruct (refresh_threads_frame ids s) as (W & _ & T & _). split.
    + exists ph. unfold bodies. rewrite W, T. split; assumption.
    + intros M. destruct (Q M) as [T0 Qe]. rewrite T. split; [exact T0|].
      apply refresh_threads_quiet. exact Qe.
  - inversion Hs; subst. exact HI.
Qed.

Lemma linv_body r c : forall ps s mt mt',
  scan_prims mt ps = Some mt' -> LInv mt s -> LInv mt' (run_body r c ps s).
Proof.
  induction ps as [|p ps IH]; intros s mt mt' Hs HI; cbn [scan_prims] in Hs.
  - inversion Hs; subst. exact HI.
  - destruct (prim_scan mt p) as [m1|] eqn:E; [|discriminate].
    unfold run_body in *. cbn [fold_left]. eapply IH; [exact Hs|]. eapply linv_prim; eassumption.
Qed.

Lemma linv_run g : forall ins s mt, scan_inputs mt ins = true -> LInv mt s -> exists mt', LInv mt' (run_gen g ins s).
Proof.
  induction ins as [|i ins IH]; intros s mt Hs HI; cbn [run_gen].
  - exists mt. apply linv_drain. exact HI.
  - destruct i as [r c h| |]; cbn [scan_inputs] in Hs.
    + destruct (scan_prims mt (s_body h)) as [m1|] eqn:E; [|discriminate].
      assert (H1 : LInv m1 (fst (dispatch_one_gen g r c h (drain_events s)))).
      { unfold dispatch_one_gen.
        pose proof (linv_body r c _ _ _ _ E (linv_set_last _ None _ (linv_drain _ _ HI))) as HB.
        destruct (s_fail h); cbn [fst]; [|exact HB].
        match goal with |- context [if ?b then _ else _] => destruct b end; cbn [fst]; [exact HB|].
        unfold send_response. apply linv_set_last. apply linv_respond; [reflexivity|exact HB]. }
      destruct (dispatch_one_gen g r c h (drain_events s)) as [s' cont]. cbn [fst] in H1.
      destruct cont; [eapply IH; eassumption|exists m1; exact H1].
    + eapply IH; [exact Hs|]. apply linv_drain. exact HI.
    + exists mt. apply linv_drain. exact HI.
Qed.

(* full statement wanted: forall ins, lifecycle_once (..) /\ no_event_after_terminated (..).
   It is false of the model without the hypothesis (see the _refuted theorems below):
   handle_initialize sends [initialized] outside the queue, and a second launch resets the
   latch.  Proved for sessions with one debuggee: *)
Theorem lifecycle_partial_gen : forall g ins,
  single_debuggee_b ins = true ->
  lifecycle_once (bodies (run_gen g ins init_st)) /\ no_event_after_terminated (bodies (run_gen g ins init_st)).
Proof.
  intros g ins H. apply lifecycle_okb_sound.
  assert (I0 : LInv false init_st).
  { split; [exists Live; split; reflexivity|intros _; split; reflexivity]. }
  destruct (linv_run g ins init_st false H I0) as [mt' [(ph & L & _) _]].
  unfold lifecycle_okb. rewrite L. reflexivity.
Qed.
Theorem lifecycle_partial : forall ins,
  single_debuggee_b ins = true ->
  lifecycle_once (bodies (run ins init_st)) /\ no_event_after_terminated (bodies (run ins init_st)).
Proof. intros ins. unfold run. apply lifecycle_partial_gen. Qed.

(* ---- A.5 concrete sessions: what was wrong before the repairs, what still is ---- *)

Definition lastn {A} (n : nat) (l : list A) : list A := skipn (length l - n) l.

Definition CMD_INITIALIZE : N := 1.
Definition CMD_LAUNCH : N := 2.
Definition CMD_CONFIGURATION_DONE : N := 4.
Definition CMD_THREADS : N := 13.
Definition CMD_CONTINUE : N := 18.
Definition CMD_RESTART : N := 19.
Definition CMD_NEXT : N := 21.
Definition CMD_DISCONNECT : N := 42.

(* A.5.1 repaired by 4335108.  OLD code (guard = false, handle_continue without the early
   check): [initialize; continue] - the continue request is answered twice (success, then
   error), with a [continued] event for a process that does not exist in between *)
Definition ins_double_old : list input :=
  [InReq 1 CMD_INITIALIZE h_initialize; InReq 2 CMD_CONTINUE h_continue_no_debugger_old].
Theorem double_response_refuted_old :
  processed ins_double_old = [(1%Z, CMD_INITIALIZE); (2%Z, CMD_CONTINUE)] /\
  bodies (run_gen false ins_double_old init_st) =
    [Response 1 CMD_INITIALIZE true; Event EV_INITIALIZED 0;
     Response 2 CMD_CONTINUE true; Event EV_CONTINUED 0; Response 2 CMD_CONTINUE false] /\
  one_response_per_requestb (processed ins_double_old) (bodies (run_gen false ins_double_old init_st)) = false.
Proof. vm_compute. auto. Qed.

(* OLD: disconnect whose detach fails: answered twice, and the run loop does not stop *)
Definition ins_disconnect : list input :=
  [InReq 1 CMD_DISCONNECT h_disconnect_detach_err; InReq 2 CMD_THREADS (h_simple false)].
Theorem disconnect_double_response_refuted_old :
  bodies (run_gen false ins_disconnect init_st) =
    [Response 1 CMD_DISCONNECT true; Response 1 CMD_DISCONNECT false; Response 2 CMD_THREADS false].
Proof. vm_compute. reflexivity. Qed.

(* NOW: the same requests against the current source *)
Definition ins_double_now : list input :=
  [InReq 1 CMD_INITIALIZE h_initialize; InReq 2 CMD_CONTINUE h_continue_no_debugger].
Theorem double_response_now :
  bodies (run ins_double_now init_st) =
    [Response 1 CMD_INITIALIZE true; Event EV_INITIALIZED 0; Response 2 CMD_CONTINUE false] /\
  forallb input_at_most_onceb ins_double_now = true.
Proof. vm_compute. auto. Qed.
(* even a handler that still answers and then fails (continue before configurationDone:
   control.rs:432 then :438) gets one response under the guard; the exact condition holds *)
Definition ins_respond_then_fail : list input :=
  [InReq 1 CMD_INITIALIZE h_initialize; InReq 2 CMD_LAUNCH h_launch; InReq 3 CMD_CONTINUE h_continue_err].
Example respond_then_fail_guard_ok : forallb input_at_most_onceb ins_respond_then_fail = true.
Proof. vm_compute. reflexivity. Qed.
Theorem respond_then_fail_now :
  resp_proj (bodies (run ins_respond_then_fail init_st)) = processed ins_respond_then_fail /\
  resp_proj (bodies (run_gen false ins_respond_then_fail init_st)) =
    [(1%Z, CMD_INITIALIZE); (2%Z, CMD_LAUNCH); (3%Z, CMD_CONTINUE); (3%Z, CMD_CONTINUE)].
Proof. vm_compute. auto. Qed.
(* disconnect whose detach fails: one response now; what remains is that dispatch still
   propagates the Err (mod.rs:652), so the run loop goes on reading instead of stopping *)
Theorem disconnect_detach_err_now :
  bodies (run ins_disconnect init_st) = [Response 1 CMD_DISCONNECT true; Response 2 CMD_THREADS false].
Proof. vm_compute. reflexivity. Qed.

(* HISTORIC (intermediate repair 4335108, superseded by ae66bdd): the guard without the
   reset compared request seqs, not "did this handler answer": a request that fails before
   answering and carries the same seq as the last answered request got NO response.
   [initialize seq 1] then [launch seq 1 without program] *)
Definition ins_repeated_seq : list input :=
  [InReq 1 CMD_INITIALIZE h_initialize; InReq 1 CMD_LAUNCH h_launch_no_program].
Theorem silent_repeated_seq_refuted_old :
  processed ins_repeated_seq = [(1%Z, CMD_INITIALIZE); (1%Z, CMD_LAUNCH)] /\
  bodies (run_seqguard ins_repeated_seq init_st) = [Response 1 CMD_INITIALIZE true; Event EV_INITIALIZED 0].
Proof. vm_compute. auto. Qed.
(* NOW (reset at mod.rs:678): answered, and covered by the headline theorem *)
Theorem repeated_seq_now :
  bodies (run ins_repeated_seq init_st) =
    [Response 1 CMD_INITIALIZE true; Event EV_INITIALIZED 0; Response 1 CMD_LAUNCH false] /\
  forallb input_at_most_onceb ins_repeated_seq = true.
Proof. vm_compute. auto. Qed.

(* A.5.2 STILL OPEN in the current source *)

(* a request that fails after its success response is now reported as a success only:
   continue before configurationDone says "success", [continued], and nothing follows *)
Theorem failed_continue_reports_success_refuted :
  lastn 2 (bodies (run ins_respond_then_fail init_st)) = [Response 3 CMD_CONTINUE true; Event EV_CONTINUED 0].
Proof. vm_compute. reflexivity. Qed.

(* a session that runs the debuggee to its exit *)
Definition ins_to_exit : list input :=
  [InReq 1 CMD_INITIALIZE h_initialize; InReq 2 CMD_LAUNCH h_launch;
   InReq 3 CMD_CONFIGURATION_DONE (h_start_stop [100%Z]); InReq 4 CMD_CONTINUE (h_continue_exit 0)].

Example single_debuggee_example : single_debuggee_b (ins_to_exit ++ [InReq 5 CMD_DISCONNECT (h_simple true)]) = true.
Proof. vm_compute. reflexivity. Qed.
Example guard_ok_example : forallb input_at_most_onceb (ins_to_exit ++ [InReq 5 CMD_THREADS h_err]) = true.
Proof. vm_compute. reflexivity. Qed.
Example one_response_example : forallb input_onceb (ins_to_exit ++ [InReq 5 CMD_THREADS h_err]) = true.
Proof. vm_compute. reflexivity. Qed.

(* the literal "nothing is sent after terminated" fails already without any concurrency:
   after a natural exit the run loop keeps answering requests *)
Theorem nothing_after_terminated_refuted :
  let bs := bodies (run (ins_to_exit ++ [InReq 5 CMD_THREADS (h_simple false)]) init_st) in
  nothing_after_terminatedb bs = false /\ lifecycle_okb bs = true /\
  lastn 2 bs = [Event EV_TERMINATED 0; Response 5 CMD_THREADS false].
Proof. vm_compute. auto. Qed.

(* an EVENT after terminated from the session thread itself: [initialized] bypasses the queue *)
Theorem initialized_after_terminated_refuted :
  let bs := bodies (run (ins_to_exit ++ [InReq 5 CMD_INITIALIZE h_initialize]) init_st) in
  lifecycle_okb bs = false /\
  lastn 3 bs = [Event EV_TERMINATED 0; Response 5 CMD_INITIALIZE true; Event EV_INITIALIZED 0].
Proof. vm_compute. auto. Qed.

(* second launch in the same session: thread 100 is announced as exited a second time
   (emit_process_end does not clear thread_cache), and [terminated] can be sent again *)
Definition ins_relaunch : list input :=
  ins_to_exit ++ [InReq 5 CMD_LAUNCH h_launch; InReq 6 CMD_CONFIGURATION_DONE (h_start_stop [200%Z])].
Theorem thread_exit_twice_refuted :
  let bs := bodies (run ins_relaunch init_st) in
  thread_lifecycleb bs = false /\ count_ev EV_THREAD_EXITED bs = 2%nat /\
  filter (fun b => is_ev EV_THREAD_STARTED b || is_ev EV_THREAD_EXITED b) bs =
    [Event EV_THREAD_STARTED 100; Event EV_THREAD_EXITED 100; Event EV_THREAD_STARTED 200; Event EV_THREAD_EXITED 100].
Proof. vm_compute. auto. Qed.

(* restart after the debuggee exited: the latch stays set (handle_restart does not reset
   it), so the stop of the restarted debuggee is never announced *)
Theorem stop_swallowed_after_exit_refuted :
  let before := bodies (run ins_to_exit init_st) in
  let after := bodies (run (ins_to_exit ++ [InReq 5 CMD_RESTART (h_start_stop [300%Z])]) init_st) in
  after = before ++ [Response 5 CMD_RESTART true].
Proof. vm_compute. reflexivity. Qed.

(* next / stepIn / stepOut that run into the exit: the queued [continued] is dropped *)
Theorem continued_dropped_refuted :
  bodies (run [InReq 1 CMD_NEXT (h_next_exit 0)] init_st) =
    [Response 1 CMD_NEXT true; Event EV_EXITED 0; Event EV_TERMINATED 0].
Proof. vm_compute. reflexivity. Qed.

(* an envelope that does not decode (no "command", "seq" not an integer...) ends the
   session without any response; the requests behind it are never read *)
Theorem bad_envelope_silent_refuted :
  bodies (run [InBadEnvelope; InReq 2 CMD_THREADS (h_simple true)] init_st) = [] /\
  processed [InBadEnvelope; InReq 2 CMD_THREADS (h_simple true)] = [].
Proof. vm_compute. auto. Qed.

(* ================================================================== *)
(* B. Threads                                                         *)
(* ================================================================== *)

(* B.1 repaired by 90c36fc.  OLD discipline: number taken before the lock.  Session thread
   = thread 0 sends [stopped], forwarder = thread 1 sends [output].
   schedule: alloc_A, alloc_B, lock_B, write_B, unlock_B, lock_A, write_A, unlock_A *)
Theorem seq_interleaved_refuted_old :
  let c := run_sched [0; 1; 1; 1; 1; 0; 0; 0]%nat
             (init_c [compile_real [Some (Event EV_STOPPED 0)]; compile_real (forwarder_blocks 1)]) in
  c_wire c = [Msg 2 (Event EV_OUTPUT 0); Msg 1 (Event EV_STOPPED 0)] /\
  seqs_consecutiveb (c_wire c) = false.
Proof. vm_compute. auto. Qed.

(* OLD, with the session thread blocked in read_message while holding the lock: the forwarder
   takes its number, waits for the lock; the request arrives, the session thread releases
   the lock, answers (number 2) and only then the forwarder gets the lock *)
Theorem seq_interleaved_read_refuted_old :
  let c := run_sched [0; 1; 1; 0; 0; 0; 0; 0; 1; 1; 1]%nat
             (init_c [compile_real [None; Some (Response 7 CMD_THREADS true)]; compile_real (forwarder_blocks 1)]) in
  c_wire c = [Msg 2 (Response 7 CMD_THREADS true); Msg 1 (Event EV_OUTPUT 0)].
Proof. vm_compute. reflexivity. Qed.

(* NOW: the same two schedules against the code's blocks *)
Theorem seq_interleaved_now :
  let c1 := run_sched [0; 1; 1; 1; 1; 0; 0; 0]%nat
             (init_c [compile_code [Some (Event EV_STOPPED 0)]; compile_code (forwarder_blocks 1)]) in
  let c2 := run_sched [0; 1; 1; 0; 0; 0; 0; 0; 1; 1; 1]%nat
             (init_c [compile_code [None; Some (Response 7 CMD_THREADS true)]; compile_code (forwarder_blocks 1)]) in
  seqs_consecutiveb (c_wire c1) = true /\ seqs_consecutiveb (c_wire c2) = true.
Proof. vm_compute. auto. Qed.

(* B.2 STILL OPEN: forwarders do not look at the latch: output after [terminated]
   (current code blocks; sequence numbers are fine, the lifecycle is not) *)
Theorem output_after_terminated_refuted :
  let session := compile_code (session_blocks ins_to_exit) in
  let c := run_sched (repeat 0%nat (length session) ++ repeat 1%nat 4)
             (init_c [session; compile_code (forwarder_blocks 1)]) in
  lifecycle_okb (map m_body (c_wire c)) = false /\ seqs_consecutiveb (c_wire c) = true /\
  lastn 3 (c_wire c) = [Msg 19 (Event EV_EXITED 0); Msg 20 (Event EV_TERMINATED 0); Msg 21 (Event EV_OUTPUT 0)].
Proof. vm_compute. auto. Qed.
(* it was the same before 90c36fc *)
Theorem output_after_terminated_refuted_old :
  let session := compile_real (session_blocks ins_to_exit) in
  let c := run_sched (repeat 0%nat (length session) ++ repeat 1%nat 4)
             (init_c [session; compile_real (forwarder_blocks 1)]) in
  lifecycle_okb (map m_body (c_wire c)) = false /\
  lastn 3 (c_wire c) = [Msg 19 (Event EV_EXITED 0); Msg 20 (Event EV_TERMINATED 0); Msg 21 (Event EV_OUTPUT 0)].
Proof. vm_compute. auto. Qed.

(* B.3 one thread alone, run to completion = the sequential model (both disciplines) *)
Lemma one_thread_real : forall bs ctr w r,
  let c := run_sched (repeat 0%nat (4 * length bs))
             (CState ctr None w [Thread (compile_real (map Some bs)) r]) in
  c_wire c = w ++ numbered ctr bs /\ c_lock c = None.
Proof.
  induction bs as [|b bs IH]; intros ctr w r.
  - cbn. rewrite app_nil_r. auto.
  - replace (4 * length (b :: bs))%nat with (4 + 4 * length bs)%nat by (cbn [length]; lia).
    rewrite repeat_app. cbn [repeat app]. cbn [map compile_real flat_map send_block app].
    cbn [run_sched step nth_error c_threads t_prog c_lock c_ctr c_wire t_reg upd holds Nat.eqb].
    fold (compile_real (map Some bs)).
    destruct (IH (ctr + 1) (w ++ [Msg ctr b]) ctr) as [W L]. cbn zeta in W, L.
    rewrite W, L. cbn [numbered]. rewrite <- app_assoc. auto.
Qed.

Lemma one_thread_fixed : forall bs ctr w r,
  let c := run_sched (repeat 0%nat (4 * length bs))
             (CState ctr None w [Thread (compile_fixed (map Some bs)) r]) in
  c_wire c = w ++ numbered ctr bs /\ c_lock c = None.
Proof.
  induction bs as [|b bs IH]; intros ctr w r.
  - cbn. rewrite app_nil_r. auto.
  - replace (4 * length (b :: bs))%nat with (4 + 4 * length bs)%nat by (cbn [length]; lia).
    rewrite repeat_app. cbn [repeat app]. cbn [map compile_fixed flat_map fixed_block app].
    cbn [run_sched step nth_error c_threads t_prog c_lock c_ctr c_wire t_reg upd holds Nat.eqb].
    fold (compile_fixed (map Some bs)).
    destruct (IH (ctr + 1) (w ++ [Msg ctr b]) ctr) as [W L]. cbn zeta in W, L.
    rewrite W, L. cbn [numbered]. rewrite <- app_assoc. auto.
Qed.

Lemma compile_code_fixed : SEQ_ALLOC_UNDER_LOCK = true -> forall l, compile_code l = compile_fixed l.
Proof. intros H l. unfold compile_code, compile_fixed, code_send_block. rewrite H. reflexivity. Qed.

Theorem session_alone_matches_sequential_old : forall g ins,
  let prog := compile_real (map Some (bodies (run_gen g ins init_st))) in
  c_wire (run_sched (repeat 0%nat (length prog)) (init_c [prog])) = wire (run_gen g ins init_st).
Proof.
  intros g ins. cbn zeta.
  assert (L : forall bs, length (compile_real (map Some bs)) = (4 * length bs)%nat).
  { induction bs as [|b bs IH]; [reflexivity|]. cbn [map compile_real flat_map send_block app length] in *.
    fold (compile_real (map Some bs)). rewrite IH. lia. }
  rewrite L. unfold init_c. cbn [map].
  destruct (one_thread_real (bodies (run_gen g ins init_st)) 1 [] 0) as [W _]. cbn zeta in W.
  rewrite W, run_gen_wire_numbered. reflexivity.
Qed.

Theorem session_alone_matches_sequential : SEQ_ALLOC_UNDER_LOCK = true -> forall ins,
  let prog := compile_code (session_blocks ins) in
  c_wire (run_sched (repeat 0%nat (length prog)) (init_c [prog])) = wire (run ins init_st).
Proof.
  intros HS ins. cbn zeta. rewrite (compile_code_fixed HS). unfold session_blocks.
  assert (L : forall bs, length (compile_fixed (map Some bs)) = (4 * length bs)%nat).
  { induction bs as [|b bs IH]; [reflexivity|]. cbn [map compile_fixed flat_map fixed_block app length] in *.
    fold (compile_fixed (map Some bs)). rewrite IH. lia. }
  rewrite L. unfold init_c. cbn [map].
  destruct (one_thread_fixed (bodies (run ins init_st)) 1 [] 0) as [W _]. cbn zeta in W.
  rewrite W, run_wire_numbered. reflexivity.
Qed.

(* B.4 number taken under the lock (the code since 90c36fc).  Any number of threads, any
   programs made of such send blocks and of read blocks, ANY schedule. *)
Inductive lblocks : list action -> Prop :=
| lb_nil : lblocks []
| lb_send b p : lblocks p -> lblocks (ALock :: AAlloc :: AWrite b :: AUnlock :: p)
| lb_read p : lblocks p -> lblocks (ALock :: AUnlock :: p).

Lemma lblocks_compile_fixed : forall l, lblocks (compile_fixed l).
Proof.
  induction l as [|o l IH]; [constructor|]. unfold compile_fixed in *. cbn [flat_map].
  destruct o; cbn [fixed_block read_block app]; constructor; exact IH.
Qed.

Lemma nth_error_upd_eq {A} : forall (l : list A) i x y,
  nth_error l i = Some y -> nth_error (upd i x l) i = Some x.
Proof.
  induction l as [|a l IH]; intros i x y H; destruct i; cbn [nth_error upd] in *; try discriminate; eauto.
Qed.

Lemma nth_error_upd_neq {A} : forall (l : list A) i j x,
  i <> j -> nth_error (upd i x l) j = nth_error l j.
Proof.
  induction l as [|a l IH]; intros i j x H; destruct i, j; cbn [nth_error upd]; try reflexivity; try congruence.
  apply IH. congruence.
Qed.

Definition clen (c : cstate) : N := N.of_nat (length (c_wire c)).

Definition holder_ok (c : cstate) (t : thread) : Prop :=
  (exists b p, t_prog t = AAlloc :: AWrite b :: AUnlock :: p /\ lblocks p /\ c_ctr c = 1 + clen c) \/
  (exists b p, t_prog t = AWrite b :: AUnlock :: p /\ lblocks p /\ t_reg t = 1 + clen c /\ c_ctr c = 2 + clen c) \/
  (exists p, t_prog t = AUnlock :: p /\ lblocks p /\ c_ctr c = 1 + clen c).

Definition CInv (c : cstate) : Prop :=
  seqs_fromb 1 (c_wire c) = true /\
  match c_lock c with
  | None => c_ctr c = 1 + clen c /\
            forall j t, nth_error (c_threads c) j = Some t -> lblocks (t_prog t)
  | Some h => (exists t, nth_error (c_threads c) h = Some t /\ holder_ok c t) /\
              forall j t, j <> h -> nth_error (c_threads c) j = Some t -> lblocks (t_prog t)
  end.

Lemma seqs_fromb_snoc : forall w n m,
  seqs_fromb n (w ++ [m]) = seqs_fromb n w && N.eqb (m_seq m) (n + N.of_nat (length w)).
Proof.
  induction w as [|x w IH]; intros n m; cbn [app seqs_fromb length].
  - rewrite N.add_0_r, andb_true_r. reflexivity.
  - rewrite IH, andb_assoc.
    replace (n + 1 + N.of_nat (length w)) with (n + N.of_nat (S (length w))) by lia. reflexivity.
Qed.

Lemma holds_true i c : holds i c = true -> c_lock c = Some i.
Proof. unfold holds. destruct (c_lock c); [|discriminate]. intros H. apply Nat.eqb_eq in H. congruence. Qed.

Lemma cinv_step i c c' : CInv c -> step i c = Some c' -> CInv c'.
Proof.
  intros [W I] S. unfold step in S.
  destruct (nth_error (c_threads c) i) as [t|] eqn:Ei; [|discriminate].
  destruct (t_prog t) as [|a rest] eqn:Ep; [discriminate|].
  destruct a.
  - (* AAlloc *)
    inversion S; subst c'; clear S. unfold CInv. cbn [c_wire c_lock c_ctr c_threads].
    split; [exact W|].
    destruct (c_lock c) as [h|] eqn:El.
    + destruct I as [(th & Eh & Hh) Oth].
      destruct (Nat.eq_dec i h) as [->|Hne].
      * rewrite Ei in Eh. inversion Eh; subst th.
        destruct Hh as [(b & p & P & LB & C)|[(b & p & P & _)|(p & P & _)]]; rewrite Ep in P; try discriminate.
        inversion P; subst rest. split.
        -- eexists. split; [eapply nth_error_upd_eq; exact Ei|].
           right. left. exists b, p. unfold clen in *. cbn [t_prog t_reg c_ctr c_wire].
           repeat split; auto; lia.
        -- intros j t' Hj Hn. rewrite nth_error_upd_neq in Hn by congruence. eapply Oth; eassumption.
      * specialize (Oth i t Hne Ei). rewrite Ep in Oth. inversion Oth.
    + destruct I as [_ All]. specialize (All i t Ei). rewrite Ep in All. inversion All.
  - (* ALock *)
    destruct (c_lock c) as [h|] eqn:El; [discriminate|].
    inversion S; subst c'; clear S. unfold CInv. cbn [c_wire c_lock c_ctr c_threads].
    split; [exact W|]. destruct I as [C All].
    pose proof (All i t Ei) as LB. rewrite Ep in LB. split.
    + eexists. split; [eapply nth_error_upd_eq; exact Ei|].
      inversion LB; subst.
      * left. eexists _, _. cbn [t_prog]. repeat split; auto.
      * right. right. eexists. cbn [t_prog]. repeat split; auto.
    + intros j t' Hj Hn. rewrite nth_error_upd_neq in Hn by congruence. eapply All; eassumption.
  - (* AWrite *)
    destruct (holds i c) eqn:Hh; [|discriminate]. apply holds_true in Hh.
    inversion S; subst c'; clear S. unfold CInv. cbn [c_wire c_lock c_ctr c_threads].
    rewrite Hh in I |- *. destruct I as [(th & Eh & Hok) Oth].
    rewrite Ei in Eh. inversion Eh; subst th.
    destruct Hok as [(b0 & p & P & _)|[(b0 & p & P & LB & R & C)|(p & P & _)]]; rewrite Ep in P; try discriminate.
    inversion P; subst. split.
    + rewrite seqs_fromb_snoc, W. cbn [m_seq andb]. apply N.eqb_eq. unfold clen in R. lia.
    + split.
      * eexists. split; [eapply nth_error_upd_eq; exact Ei|].
        right. right. exists p. unfold clen in *. cbn [t_prog c_ctr c_wire]. rewrite app_length. cbn [length].
        repeat split; auto. lia.
      * intros j t' Hj Hn. rewrite nth_error_upd_neq in Hn by congruence. eapply Oth; eassumption.
  - (* AUnlock *)
    destruct (holds i c) eqn:Hh; [|discriminate]. apply holds_true in Hh.
    inversion S; subst c'; clear S. unfold CInv. cbn [c_wire c_lock c_ctr c_threads].
    rewrite Hh in I. destruct I as [(th & Eh & Hok) Oth].
    rewrite Ei in Eh. inversion Eh; subst th.
    destruct Hok as [(b0 & p & P & _)|[(b0 & p & P & _)|(p & P & LB & C)]]; rewrite Ep in P; try discriminate.
    inversion P; subst. split; [exact W|]. split; [exact C|].
    intros j t' Hn. destruct (Nat.eq_dec i j) as [<-|Hne].
    + rewrite (nth_error_upd_eq _ _ _ _ Ei) in Hn. inversion Hn; subst. exact LB.
    + rewrite nth_error_upd_neq in Hn by congruence. eapply Oth; [|exact Hn]. congruence.
Qed.

Lemma cinv_run : forall sched c, CInv c -> CInv (run_sched sched c).
Proof.
  induction sched as [|i sched IH]; intros c H; cbn [run_sched]; [exact H|].
  apply IH. destruct (step i c) as [c'|] eqn:S; [eapply cinv_step; eassumption|exact H].
Qed.

Lemma cinv_init progs : Forall lblocks progs -> CInv (init_c progs).
Proof.
  intros F. unfold CInv, init_c. cbn [c_wire c_lock c_ctr c_threads seqs_fromb].
  split; [reflexivity|]. split; [reflexivity|].
  intros j t Hn. rewrite nth_error_map in Hn. destruct (nth_error progs j) as [p|] eqn:E; [|discriminate].
  inversion Hn; subst. cbn [t_prog]. rewrite Forall_forall in F. apply F. eapply nth_error_In. exact E.
Qed.

Theorem seq_locked_alloc_lblocks : forall progs sched,
  Forall lblocks progs -> seqs_consecutive (c_wire (run_sched sched (init_c progs))).
Proof.
  intros progs sched F. apply seqs_consecutiveb_iff.
  destruct (cinv_run sched _ (cinv_init _ F)) as [W _]. exact W.
Qed.

Theorem seq_locked_alloc_all_schedules : forall (threads : list (list (option body))) (sched : list nat),
  seqs_consecutive (c_wire (run_sched sched (init_c (map compile_fixed threads)))).
Proof.
  intros threads sched. apply seq_locked_alloc_lblocks.
  apply Forall_forall. intros p Hin. apply in_map_iff in Hin. destruct Hin as (l & <- & _).
  apply lblocks_compile_fixed.
Qed.

(* HEADLINE (current source): the blocks the code uses, as read off the source *)
Theorem seq_all_schedules_current : SEQ_ALLOC_UNDER_LOCK = true ->
  forall (threads : list (list (option body))) (sched : list nat),
  seqs_consecutive (c_wire (run_sched sched (init_c (map compile_code threads)))).
Proof.
  intros HS threads sched.
  rewrite (map_ext _ _ (compile_code_fixed HS)). apply seq_locked_alloc_all_schedules.
Qed.

Lemma seq_alloc_under_lock_now : SEQ_ALLOC_UNDER_LOCK = true.
Proof. reflexivity. Qed.
Lemma run_loop_guard_now : RUN_LOOP_SINGLE_RESPONSE_GUARD = true.
Proof. reflexivity. Qed.

(* ... and in closed form, for the source as translated today *)
Theorem seq_all_schedules_now :
  forall (threads : list (list (option body))) (sched : list nat),
  seqs_consecutive (c_wire (run_sched sched (init_c (map compile_code threads)))).
Proof. exact (seq_all_schedules_current seq_alloc_under_lock_now). Qed.

Theorem one_response_now : forall ins,
  forallb input_at_most_onceb ins = true ->
  one_response_per_request (processed ins) (bodies (run ins init_st)).
Proof. exact one_response_guarded. Qed.
