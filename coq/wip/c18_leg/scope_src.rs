//! Independent static scope model of a `gen_prog` program + tracing instrumentation.
//! The generated language is line-regular: `fn name(params) -> u64 {`, `let [mut] x = e;`, `for iN in a..b {`,
//! `if c {`, `} else {`, `{`, `}`.  For every statement line the model knows the bindings in lexical scope
//! (all of them, shadowed ones included) and the innermost binding of every name.  The instrumented program
//! prints, before each statement, the values of the innermost u64 bindings (`T site v..`), and `E fn` / `X fn`
//! at function entry / exit, so that the harness knows the expected value of every visible binding in every
//! live activation without asking the debugger.
use std::collections::HashMap;

#[derive(Clone, Debug)]
pub struct Binding {
    pub name: String,
    pub id: usize,
    pub is_u64: bool,
    pub is_param: bool,
    /// line of the declaration in the instrumented source (0 for parameters)
    pub decl_line: usize,
}

#[derive(Clone, Debug)]
pub struct Site {
    pub id: usize,
    pub func: String,
    pub orig_line: usize,
    pub new_line: usize,
    /// every binding in lexical scope at the statement (declaration order, shadowed ones included)
    pub in_scope: Vec<Binding>,
    /// the innermost u64 binding of each name, in the order their values are printed
    pub printed: Vec<Binding>,
    /// names of which more than one binding is in scope here
    pub shadowed: Vec<String>,
    pub is_let: bool,
}

pub struct Instrumented {
    pub source: String,
    pub sites: Vec<Site>,
    pub funcs: Vec<String>,
}

const PRELUDE: &str = r#"#[inline(never)]
fn __t(site: u64, vals: &[u64]) {
    let mut s = format!("T {}", site);
    for v in vals { s.push(' '); s.push_str(&v.to_string()); }
    println!("{}", s);
}
struct __G(u64);
impl __G {
    #[inline(never)]
    fn new(f: u64) -> __G { println!("E {}", f); __G(f) }
}
impl Drop for __G {
    #[inline(never)]
    fn drop(&mut self) { println!("X {}", self.0); }
}"#;

fn split_params(s: &str) -> Vec<String> {
    let mut out = vec![];
    let mut depth = 0i32;
    let mut cur = String::new();
    for c in s.chars() {
        match c {
            '(' | '<' => { depth += 1; cur.push(c); }
            ')' => { depth -= 1; cur.push(c); }
            '>' => { if !cur.ends_with('-') { depth -= 1; } cur.push(c); }
            ',' if depth == 0 => { out.push(cur.trim().to_string()); cur.clear(); }
            _ => cur.push(c),
        }
    }
    if !cur.trim().is_empty() { out.push(cur.trim().to_string()); }
    out
}

pub fn instrument(source: &str, stmt_lines: &[usize]) -> Instrumented {
    let mut out: Vec<String> = vec![];
    let mut sites: Vec<Site> = vec![];
    let mut funcs: Vec<String> = vec![];
    let mut scopes: Vec<Vec<Binding>> = vec![];
    let mut cur_fn = String::new();
    let mut next_binding = 0usize;
    let mut mk = |name: &str, is_u64: bool, is_param: bool, decl_line: usize| { next_binding += 1; Binding { name: name.to_string(), id: next_binding, is_u64, is_param, decl_line } };
    for (idx, raw) in source.lines().enumerate() {
        let lineno = idx + 1;
        let t = raw.trim();
        let indent: String = raw.chars().take_while(|c| *c == ' ').collect();
        if idx == 1 {
            // after `use std::hint::black_box;`
            for l in PRELUDE.lines() { out.push(l.to_string()); }
        }
        if t.starts_with("fn ") {
            let name_end = t[3..].find(|c| c == '(' || c == '<').unwrap() + 3;
            cur_fn = t[3..name_end].to_string();
            let open = t.find('(').unwrap();
            let close = t.rfind(") ->").or_else(|| t.rfind(')')).unwrap();
            let mut params = vec![];
            for p in split_params(&t[open + 1..close]) {
                let p = p.trim_start_matches("mut ").to_string();
                if let Some((n, ty)) = p.split_once(':') {
                    params.push(mk(n.trim(), ty.trim() == "u64", true, 0));
                }
            }
            scopes = vec![params];
            out.push(raw.to_string());
            funcs.push(cur_fn.clone());
            out.push(format!("{indent}    let __g = __G::new({});", funcs.len() - 1));
            continue;
        }
        if scopes.is_empty() {
            out.push(raw.to_string());
            continue;
        }
        if stmt_lines.contains(&lineno) {
            let in_scope: Vec<Binding> = scopes.iter().flatten().cloned().collect();
            let mut printed: Vec<Binding> = vec![];
            let mut count: HashMap<String, usize> = HashMap::new();
            for b in in_scope.iter().rev() {
                *count.entry(b.name.clone()).or_default() += 1;
                if b.is_u64 && !printed.iter().any(|p| p.name == b.name) && count[&b.name] == 1 {
                    printed.push(b.clone());
                }
            }
            printed.reverse();
            let mut shadowed: Vec<String> = count.iter().filter(|(_, c)| **c > 1).map(|(n, _)| n.clone()).collect();
            shadowed.sort();
            let id = sites.len();
            out.push(format!("{indent}__t({id}, &[{}]);", printed.iter().map(|b| b.name.clone()).collect::<Vec<_>>().join(", ")));
            sites.push(Site { id, func: cur_fn.clone(), orig_line: lineno, new_line: out.len() + 1, in_scope, printed, shadowed, is_let: t.starts_with("let ") });
        }
        out.push(raw.to_string());
        if t == "}" {
            scopes.pop();
        } else if t == "} else {" {
            scopes.pop();
            scopes.push(vec![]);
        } else if t.ends_with('{') {
            let mut sc = vec![];
            if let Some(rest) = t.strip_prefix("for ") {
                let v = rest.split_whitespace().next().unwrap_or("");
                sc.push(mk(v, true, false, out.len()));
            }
            scopes.push(sc);
        } else if let Some(rest) = t.strip_prefix("let ") {
            let rest = rest.trim_start_matches("mut ");
            let name: String = rest.chars().take_while(|c| c.is_alphanumeric() || *c == '_').collect();
            let is_u64 = name != "cl";
            if let Some(sc) = scopes.last_mut() {
                let l = out.len();
                sc.push(mk(&name, is_u64, false, l));
            }
        }
    }
    Instrumented { source: out.join("\n") + "\n", sites, funcs }
}

#[derive(Clone, Debug)]
pub struct Activation {
    pub func: usize,
    pub last: Option<(usize, Vec<u64>)>,
    /// value of every binding (by binding id) as last printed while it was the innermost of its name
    pub values: HashMap<usize, u64>,
}

/// replay the trace printed so far: the stack of live activations, outermost first
pub fn replay(stdout: &str, sites: &[Site]) -> Vec<Activation> {
    let mut st: Vec<Activation> = vec![];
    for l in stdout.lines() {
        let mut it = l.split_whitespace();
        match it.next() {
            Some("E") => {
                if let Some(f) = it.next().and_then(|x| x.parse().ok()) {
                    st.push(Activation { func: f, last: None, values: HashMap::new() });
                }
            }
            Some("X") => { st.pop(); }
            Some("T") => {
                let Some(site) = it.next().and_then(|x| x.parse::<usize>().ok()) else { continue };
                let vals: Vec<u64> = it.filter_map(|x| x.parse().ok()).collect();
                if let (Some(a), Some(s)) = (st.last_mut(), sites.get(site)) {
                    for (b, v) in s.printed.iter().zip(vals.iter()) {
                        a.values.insert(b.id, *v);
                    }
                    a.last = Some((site, vals));
                }
            }
            _ => {}
        }
    }
    st
}
