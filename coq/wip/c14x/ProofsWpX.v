(* Proofs for the extended watchpoint machine (ModelWpX.v): the invariant of
   Proofs/WpProofs.v is kept by the end-of-scope stop and by a restart; what the two
   events do to the registry, the companions and every thread's debug registers. *)
From BS Require Import Model.Base Gen.Dr Model.Dr Model.Wp Spec.DrArch Proofs.DrProofs Proofs.WpProofs.
From W Require Import ModelWpX.
From Coq Require Import Lia.
Open Scope N_scope.

(* ------------------------------------------------------------------ *)
(* generic list facts                                                  *)
Lemma find_app {A} (p : A -> bool) l1 l2 :
  find p (l1 ++ l2) = match find p l1 with Some x => Some x | None => find p l2 end.
Proof. induction l1 as [|x t IH]; cbn; [reflexivity|]. destruct (p x); [reflexivity | exact IH]. Qed.

Lemma firstn_app_exact {A} (l1 l2 : list A) : firstn (length l1) (l1 ++ l2) = l1.
Proof. induction l1; cbn; [destruct l2; reflexivity | f_equal; assumption]. Qed.
Lemma skipn_app_exact {A} (l1 l2 : list A) : skipn (length l1) (l1 ++ l2) = l2.
Proof. induction l1; cbn; [reflexivity | assumption]. Qed.
Lemma nth_error_app_exact {A} (l1 l2 : list A) x : nth_error (l1 ++ x :: l2) (length l1) = Some x.
Proof. induction l1; cbn; [reflexivity | assumption]. Qed.
Lemma skipn_S_app_exact {A} (l1 l2 : list A) x : skipn (S (length l1)) (l1 ++ x :: l2) = l2.
Proof. induction l1; cbn; [reflexivity | assumption]. Qed.
Lemma drop_app_exact {A} (l1 l2 : list A) x :
  firstn (length l1) (l1 ++ x :: l2) ++ skipn (S (length l1)) (l1 ++ x :: l2) = l1 ++ l2.
Proof. rewrite firstn_app_exact, skipn_S_app_exact. reflexivity. Qed.
Lemma set_wp_at_exact l1 l2 x y : set_wp_at (l1 ++ x :: l2) (length l1) y = l1 ++ y :: l2.
Proof.
  unfold set_wp_at. rewrite firstn_app_exact, skipn_S_app_exact. reflexivity.
Qed.

(* ------------------------------------------------------------------ *)
(* frames of the existing operations                                   *)
Lemma decrease_rc_frame s b n :
  threads (decrease_rc s b n) = threads s /\ wps (decrease_rc s b n) = wps s /\
  last_seen (decrease_rc s b n) = last_seen s /\ wp_counter (decrease_rc s b n) = wp_counter s /\
  bp_counter (decrease_rc s b n) = bp_counter s.
Proof. destruct (decrease_rc_shape s b n) as [cs ->]. repeat split. Qed.

Lemma remove_at_wps s i s' :
  remove_at s i = Ok s' ->
  wps s' = firstn i (wps s) ++ skipn (S i) (wps s) /\ wp_counter s' = wp_counter s /\ bp_counter s' = bp_counter s.
Proof.
  unfold remove_at. destruct (nth_error (wps s) i) as [w|]; [|discriminate].
  unfold hw_disable. destruct (w_reg w) as [r|]; cbn [bind]; [|discriminate].
  destruct (w_companion w) as [b|]; intros H; injection H as <-.
  - match goal with |- context [decrease_rc ?x ?y ?z] => destruct (decrease_rc_frame x y z) as [_ [E2 [_ [E4 E5]]]] end.
    cbn [wps wp_counter bp_counter with_wps]. rewrite E2, E4, E5. repeat split.
  - repeat split.
Qed.

Lemma remove_at_not_err s i e : remove_at s i <> Err e.
Proof.
  unfold remove_at. destruct (nth_error (wps s) i) as [w|]; [|discriminate].
  unfold hw_disable. destruct (w_reg w); cbn [bind]; discriminate.
Qed.

Lemma inv_remove_by_num s n s' : Inv s -> remove_by_num s n = Ok s' -> Inv s'.
Proof.
  intros I. unfold remove_by_num. destruct (position _ (wps s)) as [i|].
  - apply inv_remove_at, I.
  - intros H; injection H as <-. exact I.
Qed.

Lemma inv_remove_all_nums nums : forall s s', Inv s -> remove_all_nums nums s = Ok s' -> Inv s'.
Proof.
  induction nums as [|n t IH]; intros s s' I; cbn [remove_all_nums].
  - intros H; injection H as <-. exact I.
  - destruct (remove_by_num s n) as [s1| | |] eqn:E; cbn [bind]; try discriminate.
    apply IH. eapply inv_remove_by_num; eassumption.
Qed.

Lemma inv_scope_end s nums s' : Inv s -> scope_end s nums = Ok s' -> Inv s'.
Proof.
  intros I. unfold scope_end. destruct (negb _); [discriminate|]. apply inv_remove_all_nums, I.
Qed.

(* ------------------------------------------------------------------ *)
(* clear_local_disable_global                                          *)
Definition unreg (w : wp) : wp := set_reg w None.
Definition globals (l : list wp) : list wp := filter (fun w => negb (scoped w)) l.

Lemma remove_at_reg s i s' w : remove_at s i = Ok s' -> nth_error (wps s) i = Some w -> w_reg w <> None.
Proof.
  unfold remove_at. intros H En. rewrite En in H. unfold hw_disable in H.
  destruct (w_reg w); [discriminate | cbn [bind] in H; discriminate].
Qed.

Lemma disable_in_place_spec s j w s' :
  disable_in_place s j w = Ok s' ->
  w_reg w <> None /\ wps s' = set_wp_at (wps s) j (unreg w) /\ wp_counter s' = wp_counter s /\
  bp_counter s' = bp_counter s.
Proof.
  unfold disable_in_place, hw_disable. destruct (w_reg w) as [r|]; cbn [bind]; [|discriminate].
  destruct (w_companion w) as [b|]; intros H; injection H as <-.
  - match goal with |- context [decrease_rc ?x ?y ?z] => destruct (decrease_rc_frame x y z) as [_ [E2 [_ [E4 E5]]]] end.
    rewrite E2, E4, E5. split; [discriminate|]. repeat split.
  - split; [discriminate|]. repeat split.
Qed.

Lemma disable_in_place_not_err s j w e : disable_in_place s j w <> Err e.
Proof.
  unfold disable_in_place, hw_disable. destruct (w_reg w); cbn [bind]; [|discriminate].
  destruct (w_companion w); discriminate.
Qed.

Lemma clear_loop_shape fuel : forall pre rest s s',
  wps s = pre ++ rest -> length rest = fuel ->
  clear_loop fuel (length pre) s = Ok s' ->
  wps s' = pre ++ map unreg (globals rest) /\ wp_counter s' = wp_counter s /\ bp_counter s' = bp_counter s
  /\ (forall w, In w rest -> w_reg w <> None).
Proof.
  induction fuel as [|f IH]; intros pre rest s s' Hw Hl; cbn [clear_loop].
  - destruct rest; [|discriminate]. intros H; injection H as <-. cbn. rewrite Hw. repeat split. intros w [].
  - destruct rest as [|w rest']; [discriminate|]. injection Hl as Hl.
    rewrite Hw, nth_error_app_exact.
    destruct (scoped w) eqn:Es.
    + destruct (remove_at s (length pre)) as [s1|e| |] eqn:Er; try discriminate.
      * destruct (remove_at_wps _ _ _ Er) as [E1 [E2 E3]].
        rewrite Hw, drop_app_exact in E1.
        intros H. destruct (IH pre rest' s1 s' E1 Hl H) as [R1 [R2 [R3 R4]]].
        unfold globals; cbn [filter]. rewrite Es; cbn [negb]. fold (globals rest').
        split; [exact R1|]. split; [congruence|]. split; [congruence|].
        intros w' [<-|Hin]; [|auto]. eapply remove_at_reg; [exact Er|]. rewrite Hw. apply nth_error_app_exact.
      * destruct (remove_at_not_err _ _ _ Er).
    + destruct (disable_in_place s (length pre) w) as [s1|e| |] eqn:Ed; try discriminate.
      * destruct (disable_in_place_spec _ _ _ _ Ed) as [D0 [D1 [D2 D3]]].
        rewrite Hw, set_wp_at_exact in D1.
        assert (D1' : wps s1 = (pre ++ [unreg w]) ++ rest') by (rewrite <- app_assoc; exact D1).
        intros H. replace (S (length pre)) with (length (pre ++ [unreg w])) in H
          by (rewrite app_length; cbn; lia).
        destruct (IH _ rest' s1 s' D1' Hl H) as [R1 [R2 [R3 R4]]].
        unfold globals; cbn [filter]. rewrite Es; cbn [negb map]. fold (globals rest').
        split; [rewrite R1, <- app_assoc; reflexivity|]. split; [congruence|]. split; [congruence|].
        intros w' [<-|Hin]; auto.
      * destruct (disable_in_place_not_err _ _ _ _ Ed).
Qed.

Lemma clear_spec s s' :
  clear_local_disable_global s = Ok s' ->
  wps s' = map unreg (globals (wps s)) /\ wp_counter s' = wp_counter s /\ bp_counter s' = bp_counter s
  /\ last_seen s' = None /\ (forall w, In w (wps s) -> w_reg w <> None).
Proof.
  unfold clear_local_disable_global.
  destruct (clear_loop (length (wps s)) 0 s) as [s1| | |] eqn:E; cbn [bind]; try discriminate.
  intros H; injection H as <-.
  destruct (clear_loop_shape _ [] (wps s) s s1 eq_refl eq_refl E) as [R1 [R2 [R3 R4]]].
  cbn [set_last_seen wps wp_counter bp_counter last_seen]. auto.
Qed.

(* with every watchpoint armed the loop cannot panic *)
Lemma clear_loop_total fuel : forall pre rest s,
  wps s = pre ++ rest -> length rest = fuel -> (forall w, In w rest -> w_reg w <> None) ->
  exists s', clear_loop fuel (length pre) s = Ok s'.
Proof.
  induction fuel as [|f IH]; intros pre rest s Hw Hl Hr; cbn [clear_loop]; [eexists; reflexivity|].
  destruct rest as [|w rest']; [discriminate|]. injection Hl as Hl.
  rewrite Hw, nth_error_app_exact.
  assert (Hwr : w_reg w <> None) by (apply Hr; left; reflexivity).
  destruct (scoped w).
  - destruct (remove_at s (length pre)) as [s1|e|p|] eqn:Er.
    + destruct (remove_at_wps _ _ _ Er) as [E1 _]. rewrite Hw, drop_app_exact in E1.
      apply (IH pre rest' s1 E1 Hl). intros w' Hin; apply Hr; right; exact Hin.
    + destruct (remove_at_not_err _ _ _ Er).
    + exfalso. unfold remove_at in Er. rewrite Hw, nth_error_app_exact in Er. unfold hw_disable in Er.
      destruct (w_reg w); [|congruence]. cbn [bind] in Er. destruct (w_companion w); discriminate.
    + exfalso. unfold remove_at in Er. rewrite Hw, nth_error_app_exact in Er. unfold hw_disable in Er.
      destruct (w_reg w); [|congruence]. cbn [bind] in Er. destruct (w_companion w); discriminate.
  - destruct (disable_in_place s (length pre) w) as [s1|e|p|] eqn:Ed.
    + destruct (disable_in_place_spec _ _ _ _ Ed) as [_ [D1 _]].
      rewrite Hw, set_wp_at_exact in D1.
      assert (D1' : wps s1 = (pre ++ [unreg w]) ++ rest') by (rewrite <- app_assoc; exact D1).
      replace (S (length pre)) with (length (pre ++ [unreg w])) by (rewrite app_length; cbn; lia).
      apply (IH _ rest' s1 D1' Hl). intros w' Hin; apply Hr; right; exact Hin.
    + destruct (disable_in_place_not_err _ _ _ _ Ed).
    + exfalso. unfold disable_in_place, hw_disable in Ed. destruct (w_reg w); [|congruence].
      cbn [bind] in Ed. destruct (w_companion w); discriminate.
    + exfalso. unfold disable_in_place, hw_disable in Ed. destruct (w_reg w); [|congruence].
      cbn [bind] in Ed. destruct (w_companion w); discriminate.
Qed.

(* ------------------------------------------------------------------ *)
(* registry facts                                                      *)
Lemma regs_of_cons w l : regs_of (w :: l) = match w_reg w with Some r => r :: regs_of l | None => regs_of l end.
Proof. unfold regs_of; cbn. destruct (w_reg w); reflexivity. Qed.

Lemma regs_of_length_le l : (length (regs_of l) <= length l)%nat.
Proof. induction l as [|w t IH]; [cbn; lia|]. rewrite regs_of_cons. destruct (w_reg w); cbn; lia. Qed.

Lemma regs_of_length_lt l w : In w l -> w_reg w = None -> (length (regs_of l) < length l)%nat.
Proof.
  induction l as [|x t IH]; [contradiction|]. intros [->|Hin] Hn; rewrite regs_of_cons.
  - rewrite Hn. pose proof (regs_of_length_le t). cbn; lia.
  - specialize (IH Hin Hn). destruct (w_reg x); cbn; lia.
Qed.

Lemma regs_of_length_all l : (forall w, In w l -> w_reg w <> None) -> length (regs_of l) = length l.
Proof.
  induction l as [|x t IH]; intros H; [reflexivity|]. rewrite regs_of_cons.
  destruct (w_reg x) eqn:E; [cbn; f_equal; apply IH; intros w Hw; apply H; right; exact Hw|].
  exfalso. apply (H x); [left; reflexivity | exact E].
Qed.

Lemma regs_of_none l : (forall w, In w l -> w_reg w = None) -> regs_of l = [].
Proof.
  induction l as [|x t IH]; intros H; [reflexivity|]. rewrite regs_of_cons, (H x) by (left; reflexivity).
  apply IH. intros w Hw; apply H; right; exact Hw.
Qed.

Lemma find_has_reg_none l r : ~ In r (regs_of l) -> find (has_reg r) l = None.
Proof.
  intros Hn. destruct (find (has_reg r) l) as [w|] eqn:E; [|reflexivity].
  apply find_some in E. destruct E as [Hin Hh]. apply has_reg_spec in Hh.
  exfalso. apply Hn. eapply in_regs_of; eassumption.
Qed.

Lemma find_has_reg_in l w r :
  NoDup (regs_of l) -> In w l -> w_reg w = Some r -> find (has_reg r) l = Some w.
Proof.
  induction l as [|x t IH]; [contradiction|]. rewrite regs_of_cons. intros Hn Hin Hr. cbn [find].
  destruct (has_reg r x) eqn:Hx.
  - apply has_reg_spec in Hx. rewrite Hx in Hn. inversion Hn; subst.
    destruct Hin as [->|Hin]; [reflexivity|]. exfalso. apply H1. eapply in_regs_of; eassumption.
  - destruct Hin as [->|Hin]; [apply has_reg_spec in Hr; congruence|].
    apply IH; [|exact Hin|exact Hr]. destruct (w_reg x); [inversion Hn; assumption | exact Hn].
Qed.

Lemma NoDup_insert {A} (l1 l2 : list A) x : NoDup (l1 ++ l2) -> ~ In x (l1 ++ l2) -> NoDup (l1 ++ x :: l2).
Proof.
  induction l1 as [|y t IH]; cbn; intros Hn Hx; [constructor; assumption|].
  inversion Hn; subst. constructor.
  - rewrite in_app_iff in *. cbn. intros [H|[H|H]]; [tauto | subst; tauto | tauto].
  - apply IH; tauto.
Qed.

Lemma main_hw_ok s : Inv s -> hw_ok (main_hw s).
Proof.
  intros I. destruct (threads s) as [|[t0 h0] rest] eqn:Et; [destruct (i_main _ I Et)|].
  unfold main_hw; rewrite Et. apply (i_thr _ I t0 h0). rewrite Et; left; reflexivity.
Qed.

(* under the invariant a registry entry holding register r is armed, with its own address,
   condition and size, in every thread *)
Lemma armed_of_inv s w r t h :
  Inv s -> In w (wps s) -> w_reg w = Some r -> In (t, h) (threads s) ->
  valid_r r /\ slot_view h r = Some (w_addr w, w_cond w, w_size w).
Proof.
  intros I Hin Hr Ht.
  assert (Hv : valid_r r).
  { pose proof (i_wps _ I) as F. rewrite Forall_forall in F. destruct (F w Hin) as [_ [_ H]].
    rewrite Hr in H. exact H. }
  split; [exact Hv|]. destruct (i_thr _ I t h Ht) as [_ Hs]. rewrite Hs by exact Hv.
  rewrite (i_act _ I r Hv). unfold active_slot. rewrite (find_has_reg_in _ w r (i_uniq _ I) Hin Hr). reflexivity.
Qed.

(* and a free slot of the registry is free in every thread *)
Lemma free_of_inv s r t h :
  Inv s -> valid_r r -> ~ In r (regs_of (wps s)) -> In (t, h) (threads s) -> slot_view h r = None.
Proof.
  intros I Hv Hn Ht. destruct (i_thr _ I t h Ht) as [_ Hs]. rewrite Hs by exact Hv.
  rewrite (i_act _ I r Hv). unfold active_slot. rewrite find_has_reg_none by exact Hn. reflexivity.
Qed.

Lemma wps_le4 s : Inv s -> (length (regs_of (wps s)) <= 4)%nat.
Proof.
  intros I. apply nodup_valid_le4; [apply (i_uniq _ I)|].
  pose proof (i_wps _ I) as F. induction (wps s) as [|w l IH]; [constructor|].
  inversion F; subst. rewrite regs_of_cons. destruct (w_reg w) as [r|] eqn:E; [constructor|]; auto.
  destruct H1 as [_ [_ H1]]. rewrite E in H1. exact H1.
Qed.

(* ------------------------------------------------------------------ *)
(* refresh                                                             *)
Lemma enable_succeeds s w a sz c :
  Inv s -> In w (wps s) -> w_reg w = None -> (length (wps s) <= 4)%nat ->
  exists s1 h r, hw_enable s a sz c = Ok (s1, h, r).
Proof.
  intros I Hin Hn Hl. unfold hw_enable.
  destruct (free_register (h_dr7 (main_hw s))) as [r|] eqn:Ef; [do 3 eexists; reflexivity|].
  exfalso. pose proof (free_register_none _ Ef) as Hall.
  assert (Hincl : incl [0; 1; 2; 3] (regs_of (wps s))).
  { intros r Hr. assert (Hv : valid_r r) by (cbn in Hr; unfold valid_r; intuition).
    destruct (in_dec N.eq_dec r (regs_of (wps s))) as [H|H]; [exact H|].
    exfalso. pose proof (i_act _ I r Hv) as Ha. unfold active_slot in Ha.
    rewrite find_has_reg_none in Ha by exact H. unfold slot_view in Ha. rewrite (Hall r Hv) in Ha. discriminate. }
  assert (Hnd : NoDup [0; 1; 2; 3]) by (repeat constructor; cbn; intuition; discriminate).
  pose proof (NoDup_incl_length Hnd Hincl) as H4. cbn [length] in H4.
  pose proof (regs_of_length_lt _ _ Hin Hn). lia.
Qed.

Lemma inv_enable_in_place s d w t s1 h r :
  Inv s -> wps s = d ++ w :: t -> w_reg w = None ->
  hw_enable s (w_addr w) (w_size w) (w_cond w) = Ok (s1, h, r) ->
  Inv (with_wps s1 (set_wp_at (wps s1) (length d) (set_reg w (Some r))) (Some h) (wp_counter s1)).
Proof.
  intros I Hw Hn He.
  assert (Hwok : wp_ok w).
  { pose proof (i_wps _ I) as F. rewrite Forall_forall in F. apply F. rewrite Hw. apply in_or_app; right; left; reflexivity. }
  destruct Hwok as [Hc [Hs _]].
  destruct (hw_enable_spec _ _ _ _ _ _ _ I Hs Hc He) as [-> [Hok [Hr [Hnone [Hsame Hother]]]]].
  pose proof (i_main _ I) as Hne.
  assert (Hnotin : ~ In r (regs_of (wps s))).
  { apply active_slot_none_notin. rewrite <- (i_act _ I r Hr). exact Hnone. }
  assert (Hregs : regs_of (wps s) = regs_of d ++ regs_of t).
  { rewrite Hw, regs_of_app, regs_of_cons, Hn. reflexivity. }
  cbn [wps sync_all]. rewrite Hw, set_wp_at_exact.
  split; cbn [threads wps last_seen with_wps sync_all].
  - intros H. apply map_eq_nil in H. contradiction.
  - intros t0 h' Hin. apply (in_sync_all s h) in Hin. subst h'.
    change (main_hw _) with (main_hw (sync_all s h)). rewrite main_sync_all by exact Hne.
    split; [exact Hok | intros r' _; reflexivity].
  - intros r' Hr'. change (main_hw _) with (main_hw (sync_all s h)). rewrite main_sync_all by exact Hne.
    unfold active_slot, with_wps; cbn [wps sync_all]. rewrite find_app. cbn [find].
    destruct (N.eq_dec r r') as [<-|Hd].
    + rewrite find_has_reg_none by (rewrite Hregs, in_app_iff in Hnotin; tauto).
      replace (has_reg r (set_reg w (Some r))) with true by (unfold has_reg; cbn; rewrite N.eqb_refl; reflexivity).
      rewrite Hsame. reflexivity.
    + rewrite Hother by auto. rewrite (i_act _ I r' Hr'). unfold active_slot. rewrite Hw, find_app. cbn [find].
      replace (has_reg r' (set_reg w (Some r))) with false
        by (unfold has_reg; cbn; destruct (N.eqb_spec r r'); [contradiction|reflexivity]).
      replace (has_reg r' w) with false by (unfold has_reg; rewrite Hn; reflexivity).
      reflexivity.
  - pose proof (i_wps _ I) as F. rewrite Hw in F. apply Forall_app in F. destruct F as [F1 F2].
    inversion F2; subst. apply Forall_app. split; [exact F1|]. constructor; [|assumption].
    repeat split; assumption.
  - rewrite regs_of_app, regs_of_cons. cbn [w_reg set_reg].
    apply NoDup_insert; rewrite <- Hregs; [apply (i_uniq _ I) | exact Hnotin].
  - change (main_hw _) with (main_hw (sync_all s h)). rewrite main_sync_all by exact Hne.
    split; [exact Hok | intros r' _; reflexivity].
Qed.

(* the same user-visible watchpoint, now holding a register *)
Definition rearmed (w w' : wp) : Prop :=
  w_num w' = w_num w /\ w_addr w' = w_addr w /\ w_size w' = w_size w /\ w_cond w' = w_cond w /\
  w_companion w' = w_companion w /\ exists r, w_reg w' = Some r.

Lemma refresh_loop_spec todo : forall d s errs,
  Inv s -> wps s = d ++ todo -> (forall w, In w todo -> w_reg w = None /\ scoped w = false) ->
  (length (wps s) <= 4)%nat ->
  exists s' todo', refresh_loop todo (length d) s errs = Ok (s', errs) /\ Inv s' /\
    map fst (threads s') = map fst (threads s) /\ wp_counter s' = wp_counter s /\
    bp_counter s' = bp_counter s /\ comps s' = comps s /\
    wps s' = d ++ todo' /\ Forall2 rearmed todo todo' /\
    (todo = [] -> last_seen s' = last_seen s).
Proof.
  induction todo as [|w t IH]; intros d s errs I Hw Hall Hl; cbn [refresh_loop].
  - exists s, []. split; [reflexivity|]. split; [exact I|]. do 4 (split; [reflexivity|]).
    split; [exact Hw|]. split; [constructor | reflexivity].
  - destruct (Hall w (or_introl eq_refl)) as [Hn Hs]. rewrite Hs.
    assert (Hin : In w (wps s)) by (rewrite Hw; apply in_or_app; right; left; reflexivity).
    destruct (enable_succeeds s w (w_addr w) (w_size w) (w_cond w) I Hin Hn Hl) as [s1 [h [r He]]].
    rewrite He.
    pose proof (inv_enable_in_place _ _ _ _ _ _ _ I Hw Hn He) as I2.
    assert (Es1 : s1 = sync_all s h).
    { unfold hw_enable in He. destruct (free_register _); [|discriminate]. injection He as <- _ _. reflexivity. }
    set (s2 := with_wps s1 (set_wp_at (wps s1) (length d) (set_reg w (Some r))) (Some h) (wp_counter s1)) in *.
    assert (Hw2 : wps s2 = (d ++ [set_reg w (Some r)]) ++ t).
    { unfold s2. cbn [wps with_wps]. rewrite Es1. cbn [wps sync_all]. rewrite Hw, set_wp_at_exact, <- app_assoc. reflexivity. }
    assert (Hl2 : (length (wps s2) <= 4)%nat).
    { rewrite Hw2. rewrite Hw in Hl. rewrite !app_length in *. cbn [length] in *. lia. }
    replace (S (length d)) with (length (d ++ [set_reg w (Some r)])) by (rewrite app_length; cbn; lia).
    destruct (IH _ s2 errs I2 Hw2 (fun w' H' => Hall w' (or_intror H')) Hl2)
      as [s' [todo' [R [I' [T [C1 [C2 [C3 [W [F _]]]]]]]]]].
    exists s', (set_reg w (Some r) :: todo'). split; [exact R|]. split; [exact I'|].
    split; [rewrite T; unfold s2; rewrite Es1; cbn [threads with_wps sync_all]; rewrite map_map; reflexivity|].
    split; [rewrite C1; unfold s2; rewrite Es1; reflexivity|].
    split; [rewrite C2; unfold s2; rewrite Es1; reflexivity|].
    split; [rewrite C3; unfold s2; rewrite Es1; reflexivity|].
    split; [rewrite W, <- app_assoc; reflexivity|].
    split; [|discriminate]. constructor; [|exact F]. unfold rearmed; cbn. repeat split. eexists; reflexivity.
Qed.

Lemma wp_ok_unreg w : wp_ok w -> wp_ok (unreg w).
Proof. intros [H1 [H2 _]]. repeat split; assumption. Qed.

Lemma inv_fresh t l wc bc cs :
  Forall wp_ok l -> (forall w, In w l -> w_reg w = None) -> Inv (mk_st [(t, hw_zero)] l None wc bc cs).
Proof.
  intros F Hn. split; cbn [threads wps last_seen].
  - discriminate.
  - intros t' h [H|[]]. inversion H; subst. split; [apply hw_zero_ok | intros r _; reflexivity].
  - intros r Hr. unfold main_hw, active_slot; cbn [threads wps].
    rewrite find_has_reg_none by (rewrite regs_of_none by exact Hn; intros []). apply hw_zero_view, Hr.
  - exact F.
  - rewrite regs_of_none by exact Hn. constructor.
  - intros r Hr. apply hw_zero_view, Hr.
Qed.

Lemma globals_length_le l : (length (globals l) <= length l)%nat.
Proof. unfold globals. induction l as [|x t IH]; cbn; [lia|]. destruct (negb (scoped x)); cbn; lia. Qed.

Lemma Forall2_map_l {A B C} (R : B -> C -> Prop) (f : A -> B) l l' :
  Forall2 R (map f l) l' -> Forall2 (fun a c => R (f a) c) l l'.
Proof.
  revert l'; induction l as [|x t IH]; intros l' H; inversion H; subst; constructor; auto.
Qed.

(* the state a fresh process is refreshed from *)
Lemma refresh_fresh t l wc bc :
  Forall wp_ok l -> (forall w, In w l -> scoped w = false) -> (length l <= 4)%nat ->
  exists s', refresh (mk_st [(t, hw_zero)] (map unreg l) None wc bc []) = Ok (s', []) /\ Inv s' /\
    map fst (threads s') = [t] /\ wp_counter s' = wc /\ bp_counter s' = bc /\ comps s' = [] /\
    Forall2 rearmed l (wps s') /\ (l = [] -> last_seen s' = None).
Proof.
  intros F Hs Hl. set (s0 := mk_st [(t, hw_zero)] (map unreg l) None wc bc []).
  assert (I0 : Inv s0).
  { apply inv_fresh.
    - rewrite Forall_forall in *. intros w Hw. apply in_map_iff in Hw. destruct Hw as [w0 [<- Hw0]].
      apply wp_ok_unreg, F, Hw0.
    - intros w Hw. apply in_map_iff in Hw. destruct Hw as [w0 [<- _]]. reflexivity. }
  destruct (refresh_loop_spec (map unreg l) [] s0 [] I0 eq_refl) as [s' [todo' [R [I' [T [C1 [C2 [C3 [W [F2 L]]]]]]]]]].
  - intros w Hw. apply in_map_iff in Hw. destruct Hw as [w0 [<- Hw0]]. split; [reflexivity|]. apply (Hs w0 Hw0).
  - cbn [wps s0]. rewrite map_length. exact Hl.
  - exists s'. unfold refresh. cbn [wps s0]. split; [exact R|]. split; [exact I'|].
    split; [exact T|]. split; [exact C1|]. split; [exact C2|]. split; [exact C3|]. split.
    + cbn [app] in W. rewrite W. apply Forall2_map_l in F2.
      eapply Forall2_impl; [|exact F2]. intros a b Hr. exact Hr.
    + intros ->. apply L. reflexivity.
Qed.
