(* C14, the two clauses that had no model: a watchpoint on a local is removed when execution
   leaves its scope; one on a global survives a restart.  Statements only; proofs are in
   ProofsWpX.v, the machine in ModelWpX.v (an extension of BS.Model.Wp). *)
From BS Require Import Model.Base Gen.Dr Model.Dr Model.Wp Model.WpE2E Spec.DrArch Proofs.DrProofs Proofs.WpProofs.
From W Require Import ModelWpX ProofsWpX.
Open Scope N_scope.

(* 1. Over any sequence of the six old commands, end-of-scope stops and restarts (of a running
   or of an exited debugee), every thread's DR0-3/DR7, decoded the way the CPU decodes them, is
   slot by slot exactly the registry's active set. *)
Theorem C14_invariant_x : forall ops m t h r,
  Forall valid_opx ops -> In (t, h) (threads (wrunx ops (st_init m))) -> valid_r r ->
  arch_slot (h_regs h) (h_dr7 h) r = active_hwbp (wrunx ops (st_init m)) r.
Proof. exact every_thread_decodes_to_active_set_x. Qed.

(* at most four, each in its own register, none without a register *)
Theorem C14_at_most_four_x : forall ops m,
  Forall valid_opx ops ->
  (length (wps (wrunx ops (st_init m))) <= 4)%nat /\ NoDup (regs_of (wps (wrunx ops (st_init m)))) /\
  forall w, In w (wps (wrunx ops (st_init m))) -> exists r, w_reg w = Some r /\ valid_r r.
Proof. exact at_most_four_x. Qed.

(* a thread created after such a history inherits the set *)
Theorem C14_late_thread_x : forall ops m tid r,
  Forall valid_opx ops -> valid_r r ->
  let s := wrunx (ops ++ [XBase (WNewThread tid)]) (st_init m) in
  forall h, In (tid, h) (threads s) -> arch_slot (h_regs h) (h_dr7 h) r = active_hwbp s r.
Proof. exact late_thread_inherits_x. Qed.

(* 2. End of scope (partial: under `scope_linked s b`, decidable by `scope_linked_b`): the stop
   succeeds; exactly the watchpoints bound to companion b leave the registry and every other
   entry is untouched; the companion is gone and the other companions are untouched; the
   slots of the removed ones are free in every thread and the remaining ones are armed in
   every thread. *)
Theorem C14_local_removed_at_scope_end_partial : forall s b tid,
  InvX s -> scope_linked s b ->
  snd (wstepx s (XScopeEnd b tid)) = 0 /\ scope_end_post s (fst (wstepx s (XScopeEnd b tid))) b /\
  InvX (fst (wstepx s (XScopeEnd b tid))).
Proof. exact local_removed_at_scope_end_partial. Qed.

Theorem C14_scope_linked_decidable : forall s b, scope_linked_b s b = true -> scope_linked s b.
Proof. exact scope_linked_b_sound. Qed.

(* InvX itself holds after every history *)
Theorem C14_invx_reachable : forall ops m, Forall valid_opx ops -> InvX (wrunx ops (st_init m)).
Proof. intros ops m V. exact (invx_wrunx ops _ (invx_init m) V). Qed.

(* which thread runs into the companion breakpoint makes no difference *)
Theorem C14_scope_end_ignores_thread : forall s b t1 t2, wstepx s (XScopeEnd b t1) = wstepx s (XScopeEnd b t2).
Proof. exact scope_end_ignores_thread. Qed.

(* 3. Restart after any history, both ways (running debugee / exited debugee): it succeeds; the
   new process has one thread; the registry is exactly the non-scoped watchpoints in their
   order with number, address, size, condition; each is armed in every thread; no other slot
   is enabled; no companion is left; the numbering goes on. *)
Theorem C14_global_survives_restart : forall ops m t,
  Forall valid_opx ops ->
  let s := wrunx ops (st_init m) in
  (snd (wstepx s (XRestart t)) = 0 /\ restart_post s (fst (wstepx s (XRestart t))) t) /\
  (snd (wstepx s (XExitRestart t)) = 0 /\ restart_post s (fst (wstepx s (XExitRestart t))) t).
Proof. exact global_survives_restart. Qed.

Theorem C14_global_kept : forall ops m t w,
  Forall valid_opx ops -> let s := wrunx ops (st_init m) in
  In w (wps s) -> w_companion w = None ->
  exists w', In w' (wps (fst (wstepx s (XRestart t)))) /\ rearmed w w' /\
             armed_in_all (fst (wstepx s (XRestart t))) w'.
Proof. exact global_kept. Qed.

(* 4. not a property of the code: the debug register of a kept watchpoint may change *)
Theorem C14_restart_keeps_register_refuted :
  exists ops m t w w',
    Forall valid_opx ops /\ In w (wps (wrunx ops (st_init m))) /\
    In w' (wps (fst (wstepx (wrunx ops (st_init m)) (XRestart t)))) /\
    w_num w' = w_num w /\ w_reg w' <> w_reg w.
Proof. exact restart_keeps_register_refuted. Qed.

(* non-vacuity: two locals sharing one scope end, a global, a third local with another scope
   end, a second thread, a refused fifth; the scope end is reached by the second thread; then a
   restart; then a late thread *)
Example C14X_example_scope_end :
  let s := fst (wstepx (wrunx hist_scope (st_init 5)) (XScopeEnd 1 7)) in
  map (fun th => arch_decode (h_regs (snd th)) (h_dr7 (snd th))) (threads s)
  = [ [None; Some {| hb_addr := 8192; hb_len := 4; hb_access := ReadWrite |}; None;
       Some {| hb_addr := 4112; hb_len := 2; hb_access := Write |}];
      [None; Some {| hb_addr := 8192; hb_len := 4; hb_access := ReadWrite |}; None;
       Some {| hb_addr := 4112; hb_len := 2; hb_access := Write |}] ]
  /\ map w_num (wps s) = [2; 4] /\ comps s = [(24576, 2, [4])].
Proof. vm_compute. repeat split; reflexivity. Qed.

Example C14X_example_restart :
  let s := wrunx (hist_scope ++ [XRestart 50; XBase (WNewThread 51)]) (st_init 5) in
  map (fun th => (fst th, arch_decode (h_regs (snd th)) (h_dr7 (snd th)))) (threads s)
  = [ (50, [Some {| hb_addr := 8192; hb_len := 4; hb_access := ReadWrite |}; None; None; None]);
      (51, [Some {| hb_addr := 8192; hb_len := 4; hb_access := ReadWrite |}; None; None; None]) ]
  /\ map (fun w => (w_num w, w_addr w, w_reg w)) (wps s) = [(2, 8192, Some 0)] /\ comps s = [] /\ wp_counter s = 5.
Proof. vm_compute. repeat split; reflexivity. Qed.

(* an end-to-end case in the format of the extended leg *)
Example C14X_example_case :
  wpx_e2e_check (5, [EBase (EOp (WAddExpr 4096 SIZE_Bytes8 COND_DataWrites (Some 20480)) 0 8);
                     EBase (EOp (WAddAddr 8192 SIZE_Bytes4 COND_DataReadsWrites) 0 4);
                     EBase (ENew 7);
                     EScopeEnd 20480 7 0;
                     EBase (EObs [(5, [0; 8192; 0; 0], 15794436); (7, [0; 8192; 0; 0], 15794436)]);
                     ERestart 50 false 0;
                     EBase (EObs [(50, [8192; 0; 0; 0], 983297)])]) = 0.
Proof. vm_compute. reflexivity. Qed.

Print Assumptions C14_invariant_x.
Print Assumptions C14_at_most_four_x.
Print Assumptions C14_late_thread_x.
Print Assumptions C14_local_removed_at_scope_end_partial.
Print Assumptions C14_scope_linked_decidable.
Print Assumptions C14_invx_reachable.
Print Assumptions C14_global_survives_restart.
Print Assumptions C14_global_kept.
Print Assumptions C14_restart_keeps_register_refuted.
