From BS Require Import Model.Base Gen.Dr Model.Dr Model.Wp Model.WpE2E Spec.DrArch.
From W Require Import ModelWpX.
Open Scope N_scope.
Definition W8 := SIZE_Bytes8. Definition CW := COND_DataWrites.
Definition show (s : st) := (map (fun th => (fst th, arch_decode (h_regs (snd th)) (h_dr7 (snd th)))) (threads s),
  map (fun w => (w_num w, w_addr w, w_reg w, w_companion w)) (wps s), option_map (fun h => arch_decode (h_regs h) (h_dr7 h)) (last_seen s), wp_counter s, bp_counter s, comps s).
(* two scoped same scope end + global, another thread, scope end *)
Definition h1 := [XBase (WAddExpr 4096 W8 CW (Some 20480)); XBase (WAddAddr 8192 W8 CW); XBase (WAddExpr 4104 W8 CW (Some 20480)); XBase (WNewThread 7)].
Eval vm_compute in show (wrunx h1 (st_init 5)).
Eval vm_compute in let '(s, c) := wstepx (wrunx h1 (st_init 5)) (XScopeEnd 1 7) in (show s, c).
Eval vm_compute in let '(s, c) := wstepx (wrunx h1 (st_init 5)) (XRestart 50) in (show s, c).
Eval vm_compute in let '(s, c) := wstepx (wrunx h1 (st_init 5)) (XExitRestart 50) in (show s, c).
(* slot change *)
Definition h2 := [XBase (WAddAddr 4096 W8 CW); XBase (WAddAddr 8192 W8 CW); XBase (WRemoveNum 1); XRestart 50; XBase (WNewThread 51)].
Eval vm_compute in show (wrunx h2 (st_init 5)).
(* 4 globals + restart + new thread *)
Definition h3 := [XBase (WAddAddr 4096 W8 CW); XBase (WAddAddr 8192 W8 CW); XBase (WAddAddr 8200 W8 CW); XBase (WAddAddr 8208 W8 CW);XRestart 50; XBase (WNewThread 51); XBase (WAddAddr 8216 W8 CW)].
Eval vm_compute in show (wrunx h3 (st_init 5)).
(* restart twice *)
Definition h4 := [XBase (WAddAddr 4096 W8 CW); XBase (WAddExpr 8192 W8 CW (Some 77)); XRestart 50; XRestart 60; XBase (WAddExpr 8192 W8 CW (Some 77))].
Eval vm_compute in show (wrunx h4 (st_init 5)).
