//! Run one history in a forked child with a watchdog: a hang (stepi on a self-jump), a panic
//! or an abort of the debugger must not take the leg down. The child appends JSON lines to a
//! log file (flushed line by line, so the parent sees how far it came), its stderr goes to a
//! second file. Child and debuggee share a fresh process group which the parent kills.
use nix::sys::signal::Signal;
use nix::sys::wait::{WaitPidFlag, WaitStatus, waitpid};
use nix::unistd::{ForkResult, Pid, fork};
use serde_json::Value;
use std::io::Write;
use std::path::{Path, PathBuf};

pub struct Log {
    f: std::fs::File,
}

impl Log {
    pub fn put(&mut self, v: Value) {
        let _ = writeln!(self.f, "{}", v);
        let _ = self.f.flush();
    }
}

#[derive(Debug, Clone, PartialEq)]
pub enum End {
    Completed,
    Timeout,
    Crashed(String),
}

pub struct IsoResult {
    pub end: End,
    pub lines: Vec<Value>,
    pub stderr: String,
}

static mut PANIC_LOG: Option<PathBuf> = None;

/// `f` runs in the child; it gets the log. The parent waits at most `timeout_ms`.
/// The watchdog counts idle time: `timeout_ms` without a new log line. `quick`: once the log
/// contains the marker, the idle limit drops to the given number of milliseconds.
pub fn run_isolated(dir: &str, tag: &str, timeout_ms: u64, quick: Option<(&str, u64)>, f: impl FnOnce(&mut Log)) -> IsoResult {
    let _ = std::fs::create_dir_all(dir);
    let log_path = Path::new(dir).join(format!("{tag}.log"));
    let err_path = Path::new(dir).join(format!("{tag}.err"));
    let _ = std::fs::remove_file(&log_path);
    let _ = std::fs::remove_file(&err_path);
    let _ = std::io::stdout().flush();
    let child = match unsafe { fork() } {
        Ok(ForkResult::Child) => {
            unsafe {
                libc::setpgid(0, 0);
            }
            if let Ok(ef) = std::fs::File::create(&err_path) {
                use std::os::fd::AsRawFd;
                unsafe {
                    libc::dup2(ef.as_raw_fd(), 2);
                }
            }
            let file = std::fs::OpenOptions::new().create(true).append(true).open(&log_path);
            let Ok(file) = file else { unsafe { libc::_exit(3) } };
            let mut log = Log { f: file };
            unsafe {
                PANIC_LOG = Some(log_path.clone());
            }
            std::panic::set_hook(Box::new(|info| {
                let loc = info.location().map(|l| format!("{}:{}", l.file(), l.line())).unwrap_or_default();
                let msg = if let Some(s) = info.payload().downcast_ref::<&str>() {
                    s.to_string()
                } else if let Some(s) = info.payload().downcast_ref::<String>() {
                    s.clone()
                } else {
                    "?".into()
                };
                #[allow(static_mut_refs)]
                let p = unsafe { PANIC_LOG.clone() };
                if let Some(p) = p {
                    if let Ok(mut f) = std::fs::OpenOptions::new().append(true).open(p) {
                        let _ = writeln!(f, "{}", serde_json::json!({"ev": "panic", "loc": loc, "msg": msg}));
                    }
                }
                eprintln!("panic at {loc}: {msg}");
            }));
            let r = std::panic::catch_unwind(std::panic::AssertUnwindSafe(|| f(&mut log)));
            if r.is_ok() {
                log.put(serde_json::json!({"ev": "done"}));
            }
            unsafe { libc::_exit(if r.is_ok() { 0 } else { 4 }) }
        }
        Ok(ForkResult::Parent { child }) => child,
        Err(e) => {
            return IsoResult { end: End::Crashed(format!("fork: {e}")), lines: vec![], stderr: String::new() };
        }
    };
    // the child may not have called setpgid yet: do it from here too (one of the two wins)
    unsafe {
        libc::setpgid(child.as_raw(), child.as_raw());
    }
    let mut t0 = std::time::Instant::now();
    let mut last_len = 0u64;
    let mut limit = timeout_ms;
    let mut polls = 0u64;
    let end = loop {
        match waitpid(child, Some(WaitPidFlag::WNOHANG)) {
            Ok(WaitStatus::StillAlive) => {
                polls += 1;
                if polls % 50 == 0 {
                    let len = std::fs::metadata(&log_path).map(|m| m.len()).unwrap_or(0);
                    if len != last_len {
                        last_len = len;
                        t0 = std::time::Instant::now();
                        if let Some((marker, ms)) = quick {
                            if std::fs::read_to_string(&log_path).map(|t| t.contains(marker)).unwrap_or(false) {
                                limit = ms;
                            }
                        }
                    }
                }
                if t0.elapsed().as_millis() as u64 > limit {
                    break End::Timeout;
                }
                std::thread::sleep(std::time::Duration::from_millis(2));
            }
            Ok(WaitStatus::Exited(_, 0)) => break End::Completed,
            Ok(WaitStatus::Exited(_, c)) => break End::Crashed(format!("exit {c}")),
            Ok(WaitStatus::Signaled(_, s, _)) => break End::Crashed(format!("signal {s:?}")),
            Ok(_) => {}
            Err(e) => break End::Crashed(format!("waitpid: {e}")),
        }
    };
    // kill whatever is left of the group (debuggee released by a dying tracer, spinning loops)
    let _ = nix::sys::signal::kill(Pid::from_raw(-child.as_raw()), Signal::SIGKILL);
    if end == End::Timeout {
        let _ = waitpid(child, None);
    }
    let lines = std::fs::read_to_string(&log_path)
        .unwrap_or_default()
        .lines()
        .filter_map(|l| serde_json::from_str::<Value>(l).ok())
        .collect();
    let stderr = std::fs::read_to_string(&err_path).unwrap_or_default();
    let _ = std::fs::remove_file(&log_path);
    let _ = std::fs::remove_file(&err_path);
    IsoResult { end, lines, stderr }
}
