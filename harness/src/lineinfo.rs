//! Independent static facts about a debuggee binary: line tables from `llvm-dwarfdump --debug-line`
//! and function ranges from `nm -S` (no BugStalker code involved). File addresses.
use std::collections::BTreeMap;
use std::path::Path;

#[derive(Clone, Debug)]
pub struct Row {
    pub addr: u64,
    pub file: u32,
    pub line: u64,
    pub stmt: bool,
    pub prologue_end: bool,
    pub epilogue_begin: bool,
    pub end_seq: bool,
}

pub struct LineUnit {
    pub files: BTreeMap<u32, String>,
    /// rows in table order, stably sorted by address
    pub rows: Vec<Row>,
    /// [first address, end_sequence address) of every sequence
    pub seqs: Vec<(u64, u64)>,
}

#[derive(Clone, Debug)]
pub struct Func {
    pub name: String,
    pub lo: u64,
    pub hi: u64,
}

pub struct Static {
    pub units: Vec<LineUnit>,
    pub funcs: Vec<Func>, // sorted by lo, sized symbols only
    /// (lo, hi, unit index) sorted by lo
    pub seq_index: Vec<(u64, u64, usize)>,
    /// address ranges of DW_TAG_inlined_subroutine entries (llvm-dwarfdump --debug-info), sorted
    pub inlined: Vec<(u64, u64)>,
}

pub fn load(bin: &Path) -> Result<Static, String> {
    let out = std::process::Command::new("llvm-dwarfdump").arg("--debug-line").arg(bin).output().map_err(|e| e.to_string())?;
    if !out.status.success() {
        return Err("llvm-dwarfdump failed".into());
    }
    let text = String::from_utf8_lossy(&out.stdout);
    let mut units: Vec<LineUnit> = vec![];
    let mut cur_file: Option<u32> = None;
    let mut seq_start: Option<u64> = None;
    for l in text.lines() {
        if l.starts_with("debug_line[") {
            units.push(LineUnit { files: BTreeMap::new(), rows: vec![], seqs: vec![] });
            seq_start = None;
            continue;
        }
        let Some(u) = units.last_mut() else { continue };
        if let Some(rest) = l.strip_prefix("file_names[") {
            cur_file = rest.split(']').next().and_then(|s| s.trim().parse().ok());
            continue;
        }
        let t = l.trim_start();
        if let (Some(fi), Some(rest)) = (cur_file, t.strip_prefix("name: \"")) {
            u.files.insert(fi, rest.trim_end_matches('"').to_string());
            cur_file = None;
            continue;
        }
        if l.starts_with("0x") {
            let toks: Vec<&str> = l.split_whitespace().collect();
            if toks.len() < 4 {
                continue;
            }
            let Ok(addr) = u64::from_str_radix(&toks[0][2..], 16) else { continue };
            let line: u64 = toks[1].parse().unwrap_or(0);
            let file: u32 = toks[3].parse().unwrap_or(0);
            let has = |w: &str| toks[4..].iter().any(|t| *t == w);
            let r = Row { addr, file, line, stmt: has("is_stmt"), prologue_end: has("prologue_end"), epilogue_begin: has("epilogue_begin"), end_seq: has("end_sequence") };
            if seq_start.is_none() {
                seq_start = Some(addr);
            }
            if r.end_seq {
                if let Some(s) = seq_start.take() {
                    if addr > s {
                        u.seqs.push((s, addr));
                    }
                }
            }
            u.rows.push(r);
        }
    }
    for u in units.iter_mut() {
        u.rows.sort_by_key(|r| r.addr); // stable
    }
    let mut seq_index = vec![];
    for (i, u) in units.iter().enumerate() {
        for (a, b) in &u.seqs {
            // tombstoned sequences of removed functions start at 0
            if *a != 0 {
                seq_index.push((*a, *b, i));
            }
        }
    }
    seq_index.sort();
    let out = std::process::Command::new("nm").arg("-S").arg("-C").arg("--defined-only").arg(bin).output().map_err(|e| e.to_string())?;
    let mut funcs = vec![];
    for l in String::from_utf8_lossy(&out.stdout).lines() {
        let mut it = l.splitn(4, ' ');
        let (Some(a), Some(s), Some(k), Some(name)) = (it.next(), it.next(), it.next(), it.next()) else { continue };
        let (Ok(a), Ok(s)) = (u64::from_str_radix(a, 16), u64::from_str_radix(s, 16)) else { continue };
        if (k == "t" || k == "T" || k == "W" || k == "w") && s > 0 {
            funcs.push(Func { name: name.to_string(), lo: a, hi: a + s });
        }
    }
    funcs.sort_by_key(|f| (f.lo, f.hi));
    funcs.dedup_by_key(|f| f.lo);
    // inlined subroutine ranges
    let out = std::process::Command::new("llvm-dwarfdump").arg("--debug-info").arg(bin).output().map_err(|e| e.to_string())?;
    let text = String::from_utf8_lossy(&out.stdout);
    let mut inlined: Vec<(u64, u64)> = vec![];
    let mut in_inl = false;
    let mut lo: Option<u64> = None;
    let hexin = |l: &str| -> Option<u64> { l.split("(0x").nth(1).and_then(|x| x.split(')').next()).and_then(|h| u64::from_str_radix(h, 16).ok()) };
    for l in text.lines() {
        if l.contains("DW_TAG_") {
            in_inl = l.contains("DW_TAG_inlined_subroutine");
            lo = None;
            continue;
        }
        if !in_inl {
            continue;
        }
        let t = l.trim_start();
        if t.starts_with("DW_AT_low_pc") {
            lo = hexin(t);
        } else if t.starts_with("DW_AT_high_pc") {
            if let (Some(a), Some(b)) = (lo, hexin(t)) {
                if b > a {
                    inlined.push((a, b));
                }
            }
        } else if let Some(r) = t.strip_prefix("[0x").or_else(|| t.strip_prefix("DW_AT_ranges").and_then(|x| x.split("[0x").nth(1))) {
            // "[0x0000000000014a3c, 0x0000000000014a40))"
            let mut it = r.split(", 0x");
            if let (Some(a), Some(b)) = (it.next(), it.next()) {
                let b = b.trim_end_matches(')');
                if let (Ok(a), Ok(b)) = (u64::from_str_radix(a, 16), u64::from_str_radix(b, 16)) {
                    if b > a {
                        inlined.push((a, b));
                    }
                }
            }
        }
    }
    inlined.sort();
    inlined.dedup();
    Ok(Static { units, funcs, seq_index, inlined })
}

impl Static {
    /// the unit whose line sequences cover the (file) address
    pub fn unit_of(&self, a: u64) -> Option<usize> {
        let p = self.seq_index.partition_point(|s| s.0 <= a);
        if p == 0 {
            return None;
        }
        let (lo, hi, u) = self.seq_index[p - 1];
        if a >= lo && a < hi { Some(u) } else { None }
    }
    pub fn func_of(&self, a: u64) -> Option<&Func> {
        let p = self.funcs.partition_point(|f| f.lo <= a);
        if p == 0 {
            return None;
        }
        let f = &self.funcs[p - 1];
        if a < f.hi { Some(f) } else { None }
    }
    /// line-table rows that describe the address: the rows (not end_sequence) with the greatest
    /// address <= a inside the covering sequence
    pub fn places(&self, a: u64) -> Vec<&Row> {
        let Some(ui) = self.unit_of(a) else { return vec![] };
        let rows = &self.units[ui].rows;
        let p = rows.partition_point(|r| r.addr <= a);
        if p == 0 {
            return vec![];
        }
        let best = rows[p - 1].addr;
        let mut v: Vec<&Row> = rows[..p].iter().rev().take_while(|r| r.addr == best).filter(|r| !r.end_seq).collect();
        v.reverse();
        v
    }
    /// (file name, line) candidates of an address
    pub fn lines_of(&self, a: u64) -> Vec<(String, u64)> {
        let Some(ui) = self.unit_of(a) else { return vec![] };
        self.places(a).iter().map(|r| (self.units[ui].files.get(&r.file).cloned().unwrap_or_default(), r.line)).collect()
    }
    /// the address is exactly a statement boundary
    pub fn is_stmt_boundary(&self, a: u64) -> bool {
        self.places(a).iter().any(|r| r.addr == a && r.stmt)
    }
    /// end of the prologue of the function starting at `lo`: address of the first row at or after
    /// `lo` inside the function that carries prologue_end (None: no such row)
    pub fn prologue_end(&self, f: &Func) -> Option<u64> {
        let ui = self.unit_of(f.lo)?;
        let rows = &self.units[ui].rows;
        let p = rows.partition_point(|r| r.addr < f.lo);
        rows[p..].iter().take_while(|r| r.addr < f.hi).find(|r| r.prologue_end && !r.end_seq).map(|r| r.addr)
    }
    pub fn in_inlined(&self, a: u64) -> bool {
        self.inlined.iter().any(|(lo, hi)| a >= *lo && a < *hi)
    }
    pub fn in_prologue(&self, a: u64) -> bool {
        match self.func_of(a) {
            Some(f) => match self.prologue_end(f) {
                Some(pe) => a >= f.lo && a < pe,
                None => false,
            },
            None => false,
        }
    }
}
