//! C09 e2e leg: all-stop and exactly-once reporting under thread interleavings.
//!
//! A seeded generator writes multi-threaded debuggees (N workers calling the breakpoint targets
//! `hit_a` / `hit_b`, creation / exit storms, optional CPU pinning); every history runs the real
//! debugger over one of them in a forked child (watchdog), with seeded delays injected inside the
//! tracer, and records
//!   * what the user did and what was reported,
//!   * the tracer's event log of every operation (hooks `debugger::verif::{set_trace,take_trace}`),
//!   * the world at every reported stop as the kernel shows it (/proc/<pid>/task/*/{stat,syscall}
//!     twice, a few ms apart), the debugger's thread list, the tracer's table, the debuggee's own
//!     arrival counters read from its memory.
//! The case is printed as a Gallina term; `Model.TracerReplay.c09_check` decides (a) the C09
//! statement on the observations and (b) replays the tracer model over the recorded event log.
use crate::coqfmt::{self as cf, CasesFile};
use crate::iso::{self, End};
use crate::rng::Rng;
use crate::e2e;
use bugstalker::debugger::address::RelocatedAddress;
use bugstalker::debugger::verif::{self, ReqKind, StopRec, TraceEv, WaitRec};
use bugstalker::debugger::StopReason;
use nix::unistd::Pid;
use serde_json::{Value, json};
use std::collections::{BTreeMap, HashSet};
use std::fmt::Write as _;
use std::path::{Path, PathBuf};

// ---------------------------------------------------------------------------------------------
// debuggee generator
// ---------------------------------------------------------------------------------------------

/// worker op: 0 hit_a, 1 hit_b, 2 yield, 3 spin(arg), 4 sleep(arg µs)
type Op = (u8, u32);

#[derive(Clone, Debug)]
pub struct Wave {
    spawn: Vec<usize>,
    main_ops: Vec<Op>,
    join: Vec<usize>,
}

#[derive(Clone, Debug)]
pub struct Plan {
    n: usize,
    ops: Vec<Vec<Op>>,
    waves: Vec<Wave>,
    pin: Vec<usize>,
    storm: bool,
    uses_b: bool,
    hammer: bool,
}

impl Plan {
    fn expected(&self, idx: usize) -> (u64, u64) {
        let ops: Vec<Op> = if idx < self.n { self.ops[idx].clone() } else { self.waves.iter().flat_map(|w| w.main_ops.clone()).collect() };
        (ops.iter().filter(|o| o.0 == 0).count() as u64, ops.iter().filter(|o| o.0 == 1).count() as u64)
    }
    fn total_hits(&self) -> u64 {
        (0..=self.n).map(|i| { let (a, b) = self.expected(i); a + b }).sum()
    }
}

/// What a worker does between two calls. The machine is shared: no long busy loops; programs with many threads
/// (`big`) always sleep between calls so that only a few of their threads are runnable at any moment.
fn filler(rng: &mut Rng, big: bool) -> Option<Op> {
    if big {
        return Some((4, rng.range(50, 2000) as u32));
    }
    match rng.below(8) {
        0 | 1 | 2 => Some((2, 0)),
        3 => Some((3, rng.range(1, 2000) as u32)),
        4 | 5 => Some((4, rng.range(1, 300) as u32)),
        _ => None,
    }
}

pub fn gen_plan(rng: &mut Rng) -> Plan {
    // one program in six hammers the breakpoints: 4-12 threads call hit_a / hit_b back to back
    if rng.chance(1, 6) {
        let n = rng.range(4, 12) as usize;
        let k = rng.range(6, 20);
        let ops: Vec<Vec<Op>> = (0..n).map(|_| (0..k).map(|_| if rng.chance(1, 3) { (1u8, 0u32) } else { (0u8, 0u32) }).collect()).collect();
        return Plan { n, ops, waves: vec![Wave { spawn: (0..n).collect(), main_ops: vec![], join: vec![] }], pin: vec![], storm: false, uses_b: true, hammer: true };
    }
    let n = match rng.below(20) {
        0 => 1,
        1..=11 => rng.range(2, 8),
        12..=16 => rng.range(9, 16),
        17 | 18 => rng.range(17, 40),
        _ => rng.range(41, 64),
    } as usize;
    let kmax = if n <= 8 { 5 } else if n <= 16 { 3 } else { 2 };
    let uses_b = rng.chance(1, 2);
    let storm = n >= 2 && rng.chance(1, 2);
    let mut ops = vec![];
    for _ in 0..n {
        // storms: some threads are short-lived (0-1 calls), so they exit while others arrive
        let k = if storm && rng.chance(1, 3) { rng.range(0, 1) } else { rng.range(1, kmax) };
        let mut v: Vec<Op> = vec![];
        let big = n > 12;
        if big {
            // staggered start
            v.push((4, (rng.range(0, 20) * 200) as u32));
        } else if rng.chance(1, 3) {
            if let Some(f) = filler(rng, false) { v.push(f); }
        }
        for _ in 0..k {
            if uses_b && rng.chance(1, 3) { v.push((1, 0)); } else { v.push((0, 0)); }
            if uses_b && rng.chance(1, 4) { v.push((1, 0)); }
            if let Some(f) = filler(rng, big) { v.push(f); }
        }
        ops.push(v);
    }
    let mut waves = vec![];
    let all: Vec<usize> = (0..n).collect();
    if !storm {
        waves.push(Wave { spawn: all, main_ops: if rng.chance(1, 3) { vec![(0, 0)] } else { vec![] }, join: vec![] });
    } else {
        let nw = rng.range(2, 5.min(n as u64).max(2)) as usize;
        let mut chunks: Vec<Vec<usize>> = vec![vec![]; nw];
        for i in 0..n {
            chunks[if i < nw { i } else { rng.below(nw as u64) as usize }].push(i);
        }
        let mut spawned: Vec<usize> = vec![];
        let mut joined: HashSet<usize> = HashSet::new();
        for c in chunks {
            let mut main_ops = vec![];
            if rng.chance(1, 2) { main_ops.push((0u8, 0u32)); }
            if let Some(f) = filler(rng, false) { main_ops.push(f); }
            // join some threads of earlier waves while this wave is being born
            let mut join = vec![];
            for &t in &spawned {
                if !joined.contains(&t) && rng.chance(1, 3) {
                    join.push(t);
                    joined.insert(t);
                }
            }
            spawned.extend(c.iter().copied());
            waves.push(Wave { spawn: c, main_ops, join });
        }
    }
    // (only the length matters: the program pins itself to the first 1-2 CPUs of the set the harness confines it to)
    let pin = match rng.below(8) {
        0 => vec![0],
        1 => vec![0, 1],
        _ => vec![],
    };
    Plan { n, ops, waves, pin, storm, uses_b, hammer: false }
}

fn ops_src(ops: &[Op]) -> String {
    let mut s = String::from("&[");
    for (o, a) in ops {
        write!(s, "({o},{a}),").unwrap();
    }
    s.push(']');
    s
}

pub fn source(p: &Plan) -> String {
    let mut s = String::new();
    writeln!(s, "#![allow(named_asm_labels)]").unwrap();
    writeln!(s, "use std::time::Duration;").unwrap();
    writeln!(s, "const N: usize = {};", p.n).unwrap();
    writeln!(s, "// per thread (workers 0..N, main = N): [hit_a count, hit_b count, kernel tid, done, pad..]").unwrap();
    writeln!(s, "#[no_mangle]\npub static mut SLOTS: [[u64; 8]; N + 1] = [[0; 8]; N + 1];").unwrap();
    writeln!(s, "static OPS: &[&[(u8, u32)]] = &[").unwrap();
    for o in &p.ops {
        writeln!(s, "    {},", ops_src(o)).unwrap();
    }
    writeln!(s, "];").unwrap();
    s.push_str(r#"
extern "C" {
    fn syscall(n: i64, ...) -> i64;
    fn sched_setaffinity(pid: i32, size: usize, mask: *const u64) -> i32;
    fn sched_getaffinity(pid: i32, size: usize, mask: *mut u64) -> i32;
}
#[inline(never)]
#[no_mangle]
pub extern "C" fn hit_a(slot: *mut u64) {
    unsafe { core::arch::asm!(".globl hit_a_inc", "hit_a_inc:", "add qword ptr [{0}], 1", in(reg) slot, options(nostack)); }
}
#[inline(never)]
#[no_mangle]
pub extern "C" fn hit_b(slot: *mut u64) {
    unsafe { core::arch::asm!(".globl hit_b_inc", "hit_b_inc:", "add qword ptr [{0}], 1", in(reg) slot, options(nostack)); }
}
#[inline(never)]
#[no_mangle]
pub extern "C" fn anchor(n: u64) -> u64 { std::hint::black_box(n) + 1 }
#[inline(never)]
fn spin(n: u32) -> u64 { let mut x = n as u64; for i in 0..n as u64 { x = x.wrapping_mul(6364136223846793005).wrapping_add(i); } std::hint::black_box(x) }
#[inline(never)]
fn run_ops(idx: usize, ops: &[(u8, u32)]) {
    let slot = unsafe { (std::ptr::addr_of_mut!(SLOTS) as *mut u64).add(idx * 8) };
    unsafe { std::ptr::write_volatile(slot.add(2), syscall(186) as u64); }
    for &(op, arg) in ops {
        match op {
            0 => hit_a(slot),
            1 => hit_b(unsafe { slot.add(1) }),
            2 => std::thread::yield_now(),
            3 => { spin(arg); }
            4 => std::thread::sleep(Duration::from_micros(arg as u64)),
            _ => {}
        }
    }
}
fn worker(idx: usize) {
    run_ops(idx, OPS[idx]);
    unsafe { let slot = (std::ptr::addr_of_mut!(SLOTS) as *mut u64).add(idx * 8); std::ptr::write_volatile(slot.add(3), 1); }
}
fn main() {
    let mut acc = anchor(1);
"#);
    if !p.pin.is_empty() {
        // pin to the first 1-2 CPUs of the set the harness has confined this process to
        writeln!(s, "    unsafe {{ let mut cur: u64 = 0; sched_getaffinity(0, 8, &mut cur); let mut m: u64 = 0; let mut left = {}; for c in 0..64 {{ if left > 0 && cur & (1 << c) != 0 {{ m |= 1 << c; left -= 1; }} }} if m != 0 {{ sched_setaffinity(0, 8, &m); }} }}", p.pin.len()).unwrap();
    }
    writeln!(s, "    let mut handles: Vec<Option<std::thread::JoinHandle<()>>> = (0..N).map(|_| None).collect();").unwrap();
    for w in &p.waves {
        for t in &w.spawn {
            writeln!(s, "    handles[{t}] = Some(std::thread::spawn(move || worker({t})));").unwrap();
        }
        if !w.main_ops.is_empty() {
            writeln!(s, "    run_ops(N, {});", ops_src(&w.main_ops)).unwrap();
        }
        for t in &w.join {
            writeln!(s, "    if let Some(h) = handles[{t}].take() {{ h.join().unwrap(); }}").unwrap();
        }
    }
    s.push_str(r#"    for h in handles.iter_mut() { if let Some(h) = h.take() { h.join().unwrap(); } }
    unsafe { let slot = (std::ptr::addr_of_mut!(SLOTS) as *mut u64).add(N * 8); if std::ptr::read_volatile(slot.add(2)) == 0 { std::ptr::write_volatile(slot.add(2), syscall(186) as u64); } }
    acc = acc.wrapping_add(spin(3));
    let mut out = String::new();
    for i in 0..=N {
        let slot = unsafe { (std::ptr::addr_of_mut!(SLOTS) as *mut u64).add(i * 8) };
        let (a, b, tid) = unsafe { (std::ptr::read_volatile(slot), std::ptr::read_volatile(slot.add(1)), std::ptr::read_volatile(slot.add(2))) };
        out.push_str(&format!("CNT {} {} {} {}\n", i, tid, a, b));
    }
    print!("{}DONE {}\n", out, acc & 1);
}
"#);
    s
}

/// value of a defined symbol (any kind) of the binary
fn sym_value(bin: &Path, name: &str) -> Option<u64> {
    let out = std::process::Command::new("nm").arg("--defined-only").arg(bin).output().ok()?;
    String::from_utf8_lossy(&out.stdout).lines().find_map(|l| {
        let mut it = l.split_whitespace();
        let addr = it.next()?;
        let _kind = it.next()?;
        let n = it.next()?;
        if n == name { u64::from_str_radix(addr, 16).ok() } else { None }
    })
}

// ---------------------------------------------------------------------------------------------
// history plans
// ---------------------------------------------------------------------------------------------

#[derive(Clone, Copy, Debug, PartialEq)]
enum BpMode { Off, Fn, Addr }

#[derive(Clone, Copy, Debug, PartialEq)]
enum Mix { ContOnly, Stepi, Steps, Focus }

#[derive(Clone, Debug)]
struct HPlan {
    bp_a: BpMode,
    bp_b: BpMode,
    mix: Mix,
    toggle: u64,
    delay_seed: u64,
    delay_max_us: u64,
    pin_tracer: Vec<usize>,
    cpus: Vec<usize>,
    seed: u64,
}

fn gen_hplan(rng: &mut Rng, p: &Plan, idx: usize) -> HPlan {
    let bp_a = if rng.chance(1, 2) { BpMode::Fn } else { BpMode::Addr };
    let bp_b = if !p.uses_b { BpMode::Off } else { match rng.below(3) { 0 => BpMode::Off, 1 => BpMode::Fn, _ => BpMode::Addr } };
    // the first history of a program is a plain one, then the mixes rotate
    let mix = match idx % 6 { 0 | 1 | 5 => Mix::ContOnly, 2 => Mix::Stepi, 3 => Mix::Steps, _ => Mix::Focus };
    // toggle: 0 never, 5 = at one stop in five, 2 = at every second stop (needs the second breakpoint to keep stopping)
    let toggle = match idx % 6 { 1 => 5, 5 => 2, _ => 0 };
    let bp_b = if toggle == 2 && p.uses_b && bp_b == BpMode::Off { BpMode::Fn } else { bp_b };
    let (delay_seed, delay_max_us) = match rng.below(4) {
        0 => (0, 0),
        1 => (rng.next() | 1, 50),
        2 => (rng.next() | 1, 500),
        _ => (rng.next() | 1, 3000),
    };
    let pin_tracer = if rng.chance(1, 5) { vec![rng.below(16) as usize] } else { vec![] };
    // the machine is shared: every debuggee is confined to 1-3 CPUs (a program that pins itself narrows that further)
    let ncpu = match rng.below(20) { 0..=2 => 1, 3..=9 => 2, _ => 3 };
    let first = rng.below(16) as usize;
    let cpus: Vec<usize> = if pin_tracer.is_empty() { (0..ncpu).map(|i| (first + i * (1 + rng.below(4) as usize)) % 16).collect() } else { pin_tracer.clone() };
    HPlan { bp_a, bp_b, mix, toggle, delay_seed, delay_max_us, pin_tracer, cpus, seed: rng.next() }
}

// ---------------------------------------------------------------------------------------------
// the child: run one history, log JSON lines
// ---------------------------------------------------------------------------------------------

fn read_tasks(pid: Pid) -> Vec<(i32, u8, u64, u64)> {
    let mut v = vec![];
    for tid in e2e::kernel_tids(pid) {
        let Ok(stat) = std::fs::read_to_string(format!("/proc/{}/task/{}/stat", pid, tid)) else { continue };
        let Some(rp) = stat.rfind(')') else { continue };
        let f: Vec<&str> = stat[rp + 1..].split_whitespace().collect();
        // f[0] = state, utime = field 14 => f[11], stime = field 15 => f[12]
        let state = f.first().and_then(|s| s.bytes().next()).unwrap_or(b'?');
        let cpu = f.get(11).and_then(|s| s.parse::<u64>().ok()).unwrap_or(0) + f.get(12).and_then(|s| s.parse::<u64>().ok()).unwrap_or(0);
        let pc = std::fs::read_to_string(format!("/proc/{}/task/{}/syscall", pid, tid))
            .ok()
            .and_then(|s| s.split_whitespace().last().and_then(|t| u64::from_str_radix(t.trim_start_matches("0x"), 16).ok()))
            .unwrap_or(0);
        v.push((tid, state, cpu, pc));
    }
    v
}

/// tasks with SIGTRAP raised but not yet reported (bit 5 of SigPnd), with their pc
fn pending_traps(pid: Pid) -> Vec<(i32, u64)> {
    let mut v = vec![];
    for tid in e2e::kernel_tids(pid) {
        let Ok(st) = std::fs::read_to_string(format!("/proc/{}/task/{}/status", pid, tid)) else { continue };
        let pend = st.lines().find_map(|l| l.strip_prefix("SigPnd:")).and_then(|m| u64::from_str_radix(m.trim(), 16).ok()).unwrap_or(0);
        if pend & (1 << 4) != 0 {
            let pc = std::fs::read_to_string(format!("/proc/{}/task/{}/syscall", pid, tid)).ok()
                .and_then(|s| s.split_whitespace().last().and_then(|t| u64::from_str_radix(t.trim_start_matches("0x"), 16).ok())).unwrap_or(0);
            v.push((tid, pc));
        }
    }
    v
}

fn stop_json(s: &StopRec) -> Value {
    match s {
        StopRec::Exit(c) => json!(["exit", c]),
        StopRec::Start => json!(["start"]),
        StopRec::Breakpoint(t, a) => json!(["bp", t, a]),
        StopRec::Watchpoint(t, a) => json!(["wp", t, a]),
        StopRec::Signal(t, s) => json!(["sig", t, s]),
        StopRec::NoSuchProcess(t) => json!(["nsp", t]),
    }
}

fn ev_json(e: &TraceEv) -> Value {
    match e {
        TraceEv::Wait { target, st } => {
            let st = match st {
                WaitRec::Exited { tid, code } => json!(["exited", tid, code]),
                WaitRec::Event { tid, event, msg } => json!(["event", tid, event, msg]),
                WaitRec::Stopped { tid, sig, si_code, pc } => json!(["stopped", tid, sig, si_code, pc]),
                WaitRec::Gone { tid, sig } => json!(["gone", tid, sig]),
                WaitRec::Signaled { tid, sig } => json!(["signaled", tid, sig]),
                WaitRec::Other { tid } => json!(["other", tid]),
                WaitRec::Error { errno } => json!(["error", errno]),
            };
            json!(["w", target, st])
        }
        TraceEv::Req { kind, tid, data, ok } => {
            let k = match kind {
                ReqKind::Cont => "cont",
                ReqKind::Step => "step",
                ReqKind::Syscall => "syscall",
                ReqKind::Interrupt => "intr",
                ReqKind::SetPc => "setpc",
                ReqKind::Detach => "detach",
            };
            json!(["q", k, tid, data, ok])
        }
        TraceEv::Patch { addr, enable } => json!(["p", addr, enable]),
        TraceEv::CallBegin { op, pid, bps } => json!(["b", op, pid, bps]),
        TraceEv::CallEnd { ok, stop, err } => json!(["e", ok, stop.as_ref().map(stop_json), err]),
    }
}

struct Child<'a> {
    s: e2e::Session,
    pid: Pid,
    slots_addr: u64,
    nslots: usize,
    log: &'a mut iso::Log,
    rng: Rng,
}

impl<'a> Child<'a> {
    /// counters of the threads that have registered their tid: (tid, a, b)
    fn counters(&self) -> Vec<(u64, u64, u64)> {
        let Ok(bytes) = e2e::proc_mem_read(self.pid, self.slots_addr, self.nslots * 64) else { return vec![] };
        let w = |i: usize| u64::from_le_bytes(bytes[i * 8..i * 8 + 8].try_into().unwrap());
        (0..self.nslots).filter_map(|i| { let tid = w(i * 8 + 2); if tid != 0 { Some((tid, w(i * 8), w(i * 8 + 1))) } else { None } }).collect()
    }

    fn observe(&mut self, tasks1: Vec<(i32, u8, u64, u64)>) -> Value {
        let dbg_threads: Vec<i32> = self.s.dbg.thread_state().map(|v| v.iter().map(|t| t.thread.pid.as_raw()).collect()).unwrap_or_default();
        let table = self.s.dbg.verif_tracees();
        let cnt = self.counters();
        std::thread::sleep(std::time::Duration::from_millis(self.rng.range(1, 6)));
        let tasks2 = read_tasks(self.pid);
        json!({"t1": tasks1, "t2": tasks2, "dbg": dbg_threads, "table": table, "cnt": cnt})
    }
}

fn history_child(log: &mut iso::Log, bin: &Path, slots_off: u64, inc_a: u64, inc_b: u64, nslots: usize, hp: &HPlan) {
    let t0 = std::time::Instant::now();
    let mut s = match e2e::launch(bin, &[]) {
        Ok(s) => s,
        Err(e) => { log.put(json!({"ev": "error", "what": format!("launch: {e}")})); return; }
    };
    // the machine is shared: the debuggee (forked, waiting for its start) is confined to 1-3 CPUs, its threads inherit that
    let mask: u64 = hp.cpus.iter().fold(0, |m, c| m | (1u64 << c));
    unsafe { libc::sched_setaffinity(s.pid_now().as_raw(), 8, &mask as *const u64 as *const libc::cpu_set_t) };
    let ms_launch = t0.elapsed().as_millis() as u64;
    log.put(json!({"ev": "launched", "ms": ms_launch}));
    let anchor = match s.dbg.set_breakpoint_at_fn("anchor") {
        Ok(v) => v.iter().map(|b| b.number).collect::<Vec<_>>(),
        Err(e) => { log.put(json!({"ev": "error", "what": format!("break anchor: {e}")})); return; }
    };
    if let Err(e) = s.dbg.start_debugee() {
        log.put(json!({"ev": "error", "what": format!("start: {e}")}));
        return;
    }
    s.events.take();
    if !hp.pin_tracer.is_empty() {
        // tracer and debuggee compete for one CPU from here on (the loading of debug information is over)
        unsafe { libc::sched_setaffinity(0, 8, &mask as *const u64 as *const libc::cpu_set_t) };
    }
    let ms_start = t0.elapsed().as_millis() as u64;
    log.put(json!({"ev": "started", "ms": ms_start}));
    let pid = s.pid_now();
    let base = e2e::proc_maps(pid).iter().find(|m| Path::new(&m.path) == bin).map(|m| m.start - m.offset).unwrap_or(0x555555554000);
    for n in anchor {
        let _ = s.dbg.remove_breakpoint_by_number(n);
    }
    // the user's breakpoints
    let mut set_bp = |s: &mut e2e::Session, mode: BpMode, func: &str, inc: u64| -> Result<u64, String> {
        match mode {
            BpMode::Off => Ok(0),
            BpMode::Fn => {
                let v = s.dbg.set_breakpoint_at_fn(func).map_err(|e| format!("break {func}: {e}"))?;
                let addrs: Vec<u64> = v.iter().filter_map(|b| match b.addr { bugstalker::debugger::address::Address::Relocated(a) => Some(a.as_u64()), _ => None }).collect();
                if addrs.len() != 1 { return Err(format!("break {func}: {} places", addrs.len())); }
                Ok(addrs[0])
            }
            BpMode::Addr => {
                let a = base + inc;
                s.dbg.set_breakpoint_at_addr(RelocatedAddress::from(a as usize)).map_err(|e| format!("break {a:#x}: {e}"))?;
                Ok(a)
            }
        }
    };
    let bp_a = match set_bp(&mut s, hp.bp_a, "hit_a", inc_a) { Ok(a) => a, Err(e) => { log.put(json!({"ev": "error", "what": e})); return; } };
    let bp_b = match set_bp(&mut s, hp.bp_b, "hit_b", inc_b) { Ok(a) => a, Err(e) => { log.put(json!({"ev": "error", "what": e})); return; } };
    let mut c = Child { s, pid, slots_addr: base + slots_off, nslots, log, rng: Rng::new(hp.seed) };
    let t1 = read_tasks(pid);
    let init = c.observe(t1);
    c.log.put(json!({"ev": "init", "proc": pid.as_raw(), "bp_a": bp_a, "bp_b": bp_b, "obs": init, "base": base, "ms_launch": ms_launch, "ms_start": ms_start}));
    verif::set_trace(true);
    verif::set_delay(hp.delay_seed, hp.delay_max_us);
    let mut en_a = bp_a != 0;
    let mut en_b = bp_b != 0;
    let mut at_bp = false; // the last stop was a breakpoint report
    let mut pending: Vec<&'static str> = vec![];
    let mut nops = 0;
    loop {
        nops += 1;
        if nops > 1500 {
            c.log.put(json!({"ev": "error", "what": "too many operations"}));
            break;
        }
        // the user toggles a breakpoint while everything is stopped
        // a thread may have executed the int3 without the trap being reported yet (the group stop's
        // PTRACE_EVENT_STOP overtakes the queued SIGTRAP): removing the breakpoint right now is the hard case
        let pend = if nops > 1 { pending_traps(pid) } else { vec![] };
        let pend_a = pend.iter().any(|(_, pc)| *pc == bp_a + 1);
        if !pend.is_empty() {
            c.log.put(json!({"ev": "pending-traps", "n": pend.len(), "at_a": pend_a, "list": pend}));
        }
        let directed = hp.toggle > 0 && en_a && pend_a;
        if directed {
            let r = c.s.dbg.remove_breakpoint(bugstalker::debugger::address::Address::Relocated(RelocatedAddress::from(bp_a as usize)));
            c.log.put(json!({"ev": "toggle", "what": "remove a (a trap of it is pending)", "ok": r.is_ok(), "directed": true}));
            en_a = false;
            verif::take_trace();
        } else if hp.toggle > 0 && nops > 1 && c.rng.chance(1, hp.toggle) {
            if en_a {
                let r = c.s.dbg.remove_breakpoint(bugstalker::debugger::address::Address::Relocated(RelocatedAddress::from(bp_a as usize)));
                c.log.put(json!({"ev": "toggle", "what": "remove a", "ok": r.is_ok()}));
                en_a = false;
                if !en_b || c.rng.chance(1, 3) {
                    // no other breakpoint would stop the program again: put it back at once
                    let r = c.s.dbg.set_breakpoint_at_addr(RelocatedAddress::from(bp_a as usize)).map(|_| ());
                    c.log.put(json!({"ev": "toggle", "what": "add a", "ok": r.is_ok()}));
                    en_a = r.is_ok();
                }
            } else {
                let r = c.s.dbg.set_breakpoint_at_addr(RelocatedAddress::from(bp_a as usize)).map(|_| ());
                c.log.put(json!({"ev": "toggle", "what": "add a", "ok": r.is_ok()}));
                en_a = r.is_ok();
            }
            verif::take_trace(); // patches made by the user's own command are not part of an operation
        }
        if pending.is_empty() {
            pending.push("cont");
            if at_bp {
                match hp.mix {
                    Mix::ContOnly => {}
                    Mix::Stepi => {
                        if c.rng.chance(1, 3) {
                            for _ in 0..c.rng.range(1, 3) { pending.insert(0, "stepi"); }
                        }
                    }
                    Mix::Steps => {
                        if c.rng.chance(1, 3) {
                            pending.insert(0, if c.rng.chance(1, 2) { "next" } else { "out" });
                            if c.rng.chance(1, 4) { pending.insert(0, "next"); }
                        }
                    }
                    Mix::Focus => {
                        if c.rng.chance(1, 3) {
                            if c.rng.chance(1, 2) { pending.insert(0, "stepi"); }
                            pending.insert(0, "focus");
                        }
                    }
                }
            }
        }
        let kind = pending.remove(0);
        if kind == "stepi" {
            let f = c.s.dbg.ecx().pid_on_focus().as_raw();
            // a single-stepped thread runs alone: if it blocks in the kernel waiting for another (stopped) thread the
            // step never ends (seen: stepi of the main thread about to enter futex_wait in join) - only step threads
            // that stand on one of the user's breakpoints
            let sc = std::fs::read_to_string(format!("/proc/{}/task/{}/syscall", pid, f)).unwrap_or_default();
            let pc_now = sc.split_whitespace().last().and_then(|t| u64::from_str_radix(t.trim_start_matches("0x"), 16).ok()).unwrap_or(0);
            let safe = sc.starts_with("-1") && (hp.mix != Mix::Focus || pc_now == bp_a || (bp_b != 0 && pc_now == bp_b));
            if !safe {
                c.log.put(json!({"ev": "skip", "what": "stepi of a thread that may block"}));
                continue;
            }
        }
        let t_op = std::time::Instant::now();
        let focus = c.s.dbg.ecx().pid_on_focus().as_raw();
        let bps = c.s.dbg.verif_active_breakpoints();
        let mut focus_target: Option<i32> = None;
        c.log.put(json!({"ev": "pre", "kind": kind, "focus": focus, "n": nops}));
        let (ok, stop, err): (bool, Value, String) = match kind {
            "cont" => match c.s.dbg.continue_debugee_with_reason() {
                Ok(StopReason::Breakpoint(t, a)) => (true, json!(["bp", t.as_raw(), a.as_u64()]), String::new()),
                Ok(StopReason::DebugeeExit(code)) => (true, json!(["exit", code]), String::new()),
                Ok(StopReason::SignalStop(t, sig)) => (true, json!(["sig", t.as_raw(), sig as i32]), String::new()),
                Ok(StopReason::Watchpoint(t, a, _)) => (true, json!(["wp", t.as_raw(), a.as_u64()]), String::new()),
                Ok(StopReason::DebugeeStart) => (true, json!(["start"]), String::new()),
                Ok(StopReason::NoSuchProcess(t)) => (true, json!(["nsp", t.as_raw()]), String::new()),
                Err(e) => (false, Value::Null, e.to_string()),
            },
            "stepi" => match c.s.dbg.stepi() { Ok(()) => (true, Value::Null, String::new()), Err(e) => (false, Value::Null, e.to_string()) },
            "next" => match c.s.dbg.step_over() { Ok(()) => (true, Value::Null, String::new()), Err(e) => (false, Value::Null, e.to_string()) },
            "out" => match c.s.dbg.step_out() { Ok(()) => (true, Value::Null, String::new()), Err(e) => (false, Value::Null, e.to_string()) },
            _ => {
                // focus on another thread of the debugger's list
                let others: Vec<(u32, i32)> = c.s.dbg.thread_state().map(|v| v.iter().filter(|t| !t.in_focus).map(|t| (t.thread.number, t.thread.pid.as_raw())).collect()).unwrap_or_default();
                if others.is_empty() {
                    (true, Value::Null, String::new())
                } else {
                    let (num, tid) = *c.rng.pick(&others);
                    focus_target = Some(tid);
                    match c.s.dbg.set_thread_into_focus(num) { Ok(_) => (true, Value::Null, String::new()), Err(e) => (false, Value::Null, e.to_string()) }
                }
            }
        };
        let ms_op = t_op.elapsed().as_micros() as u64;
        let tasks1 = read_tasks(pid);
        let evs: Vec<Value> = verif::take_trace().iter().map(ev_json).collect();
        let mut reports: Vec<(i32, u64)> = vec![];
        let mut sig_seen: Option<i32> = None;
        let mut exited: Option<i32> = None;
        let focus_after = c.s.dbg.ecx().pid_on_focus().as_raw();
        for ev in c.s.events.take() {
            match ev {
                e2e::Ev::Breakpoint { pc, .. } => reports.push((focus_after, pc as u64)),
                e2e::Ev::Signal(sg) => sig_seen = Some(sg),
                e2e::Ev::Exit(code) => exited = Some(code),
                _ => {}
            }
        }
        let mut stop = stop;
        if kind != "cont" {
            if let Some(code) = exited { stop = json!(["exit", code]); }
            else if let Some(sg) = sig_seen { stop = json!(["sig", focus_after, sg]); }
        }
        let is_exit = exited.is_some() || stop.get(0).and_then(|v| v.as_str()) == Some("exit");
        let obs = if is_exit {
            // the process is gone: the counters are the ones it printed
            c.s.wait_out("DONE", 20_000);
            let out = c.s.stdout();
            let cnt: Vec<(u64, u64, u64)> = out.lines().filter_map(|l| {
                let f: Vec<&str> = l.split(' ').collect();
                if f.len() == 5 && f[0] == "CNT" { Some((f[2].parse().ok()?, f[3].parse().ok()?, f[4].parse().ok()?)) } else { None }
            }).collect();
            c.log.put(json!({"ev": "output", "done": out.contains("DONE"), "lines": out.lines().filter(|l| l.starts_with("CNT")).collect::<Vec<_>>()}));
            json!({"t1": [], "t2": [], "dbg": [], "table": c.s.dbg.verif_tracees(), "cnt": cnt})
        } else if ok {
            c.observe(tasks1)
        } else {
            json!({"t1": tasks1, "t2": [], "dbg": [], "table": c.s.dbg.verif_tracees(), "cnt": c.counters()})
        };
        at_bp = stop.get(0).and_then(|v| v.as_str()) == Some("bp");
        c.log.put(json!({"ev": "op", "kind": kind, "focus": focus, "bps": bps, "en_a": en_a, "en_b": en_b, "evs": evs, "ok": ok, "err": err,
            "stop": stop, "reports": reports, "focus_after": focus_after, "focus_target": focus_target, "obs": obs, "us_op": ms_op, "us_all": t_op.elapsed().as_micros() as u64}));
        if is_exit {
            break;
        }
        if !ok {
            c.log.put(json!({"ev": "error", "what": format!("{kind}: {err}")}));
            break;
        }
    }
    verif::set_trace(false);
    c.log.put(json!({"ev": "delays", "n": verif::delay_count(), "ms_total": t0.elapsed().as_millis() as u64}));
    verif::set_delay(0, 0);
}

// ---------------------------------------------------------------------------------------------
// the parent: JSON -> Gallina
// ---------------------------------------------------------------------------------------------

fn nn(v: &Value) -> String {
    if let Some(u) = v.as_u64() { cf::n(u as u128) } else if let Some(i) = v.as_i64() { cf::n(i.max(0) as u128) } else { "0%N".into() }
}

fn stop_coq(v: &Value) -> String {
    let Some(a) = v.as_array() else { return "None".into() };
    let k = a.first().and_then(|x| x.as_str()).unwrap_or("");
    match k {
        "exit" => format!("(Some (SRExit {}))", nn(&a[1])),
        "start" => "(Some SRStart)".into(),
        "bp" => format!("(Some (SRBreakpoint {} {}))", nn(&a[1]), nn(&a[2])),
        "wp" => format!("(Some (SRWatchpoint {} {}))", nn(&a[1]), nn(&a[2])),
        "sig" => format!("(Some (SRSignal {} {}))", nn(&a[1]), nn(&a[2])),
        "nsp" => format!("(Some (SRNoSuchProcess {}))", nn(&a[1])),
        _ => "None".into(),
    }
}

fn target_coq(v: &Value) -> String {
    match v.as_i64() { Some(t) if t > 0 => format!("(Some {})", cf::n(t as u128)), _ => "None".into() }
}

fn bps_coq(v: &Value) -> String {
    let empty = vec![];
    let a = v.as_array().unwrap_or(&empty);
    cf::list(a, |b| {
        let kind = match b[1].as_u64().unwrap_or(4) { 0 => "BUser", 1 => "BTemp", 2 => "BTempAsync", 3 => "BCompanion", _ => "BInternal" };
        format!("mk_bp {} {} {} {}", nn(&b[0]), kind, nn(&b[2]), cf::boolean(b[3].as_bool().unwrap_or(false)))
    })
}

/// None: an event the model has no vocabulary for (detach at tear-down)
fn ev_coq(v: &Value) -> Option<String> {
    let a = v.as_array()?;
    match a[0].as_str()? {
        "w" => {
            let tg = target_coq(&a[1]);
            let st = a[2].as_array()?;
            let body = match st[0].as_str()? {
                "exited" => format!("WExited {} {}", nn(&st[1]), nn(&st[2])),
                "event" => {
                    let e = match st[2].as_i64().unwrap_or(0) {
                        4 => "EvExec".to_string(),
                        3 => format!("(EvClone {})", nn(&st[3])),
                        128 => "EvStop".to_string(),
                        6 => "EvExit".to_string(),
                        _ => "EvOther".to_string(),
                    };
                    format!("WEvent {} {}", nn(&st[1]), e)
                }
                "stopped" => format!("WStopped {} {} {} {}", nn(&st[1]), nn(&st[2]), cf::z(st[3].as_i64().unwrap_or(0) as i128), nn(&st[4])),
                "gone" => format!("WGone {} {}", nn(&st[1]), nn(&st[2])),
                "signaled" => format!("WSignaled {}", nn(&st[1])),
                "error" => return Some(format!("EWErr {} {}", tg, nn(&st[1]))),
                _ => format!("WEvent {} EvOther", nn(&st[1])),
            };
            Some(format!("EW {} ({})", tg, body))
        }
        "q" => {
            let (t, d) = (nn(&a[2]), nn(&a[3]));
            let r = match a[1].as_str()? {
                "cont" => format!("PCont {t} {d}"),
                "step" => format!("PStep {t} {d}"),
                "syscall" => format!("PSyscall {t}"),
                "intr" => format!("PInterrupt {t}"),
                "setpc" => format!("PSetPc {t} {d}"),
                _ => return None,
            };
            Some(format!("EQ ({}) {}", r, cf::boolean(a[4].as_bool().unwrap_or(true))))
        }
        "p" => Some(format!("EQ ({} {}) true", if a[2].as_bool().unwrap_or(false) { "PBpEnable" } else { "PBpDisable" }, nn(&a[1]))),
        "b" => {
            let single = if a[1].as_u64() == Some(1) { format!("(Some {})", nn(&a[2])) } else { "None".into() };
            Some(format!("EBegin {} {}", single, bps_coq(&a[3])))
        }
        "e" => Some(format!("EEnd {} {}", cf::boolean(a[1].as_bool().unwrap_or(false)), stop_coq(&a[2]))),
        _ => None,
    }
}

fn tasks_coq(v: &Value) -> String {
    let empty = vec![];
    cf::list(v.as_array().unwrap_or(&empty), |t| format!("mkTask {} {} {} {}", nn(&t[0]), nn(&t[1]), nn(&t[2]), nn(&t[3])))
}

fn obs_coq(o: &Value) -> String {
    let empty = vec![];
    let table = cf::list(o["table"].as_array().unwrap_or(&empty), |t| {
        let st = if !t[1].as_bool().unwrap_or(false) { "TRunning".to_string() } else if t[2].as_i64().unwrap_or(0) == 0 { "(TStopped StInterrupt)".to_string() } else { format!("(TStopped (StSignal {}))", nn(&t[2])) };
        format!("({}, {})", nn(&t[0]), st)
    });
    let cnt = cf::list(o["cnt"].as_array().unwrap_or(&empty), |t| format!("({}, ({}, {}))", nn(&t[0]), nn(&t[1]), nn(&t[2])));
    format!("(mkObs {} {} {} {} {})", tasks_coq(&o["t1"]), tasks_coq(&o["t2"]), cf::list(o["dbg"].as_array().unwrap_or(&empty), nn), table, cnt)
}

fn op_coq(l: &Value) -> String {
    let kind = match l["kind"].as_str().unwrap_or("") { "cont" => "KCont", "stepi" => "KStepi", "next" => "KNext", "out" => "KOut", _ => "KFocus" };
    let empty = vec![];
    let evs: Vec<String> = l["evs"].as_array().unwrap_or(&empty).iter().filter_map(ev_coq).collect();
    let reports = cf::list(l["reports"].as_array().unwrap_or(&empty), |r| format!("({}, {})", nn(&r[0]), nn(&r[1])));
    // continue: the report is the returned StopReason when it names a user breakpoint
    let reports = if l["kind"] == "cont" {
        match l["stop"].as_array() {
            Some(a) if a.first().and_then(|x| x.as_str()) == Some("bp") => format!("[({}, {})]", nn(&a[1]), nn(&a[2])),
            _ => "[]".into(),
        }
    } else { reports };
    format!("(mkOp {} {} {} {} {} {} {} {} {} {} {})", kind, nn(&l["focus"]), bps_coq(&l["bps"]), cf::boolean(l["en_a"].as_bool().unwrap_or(false)),
        cf::boolean(l["en_b"].as_bool().unwrap_or(false)), cf::list(&evs, |e| e.clone()), cf::boolean(l["ok"].as_bool().unwrap_or(false)),
        stop_coq(&l["stop"]), reports, nn(&l["focus_after"]), obs_coq(&l["obs"]))
}

/// the harness' own evaluation of the parts of the statement, for the classifier only (the verdict is Coq's)
fn rust_spec_parts(ops: &[&Value], init: &Value) -> (bool, Vec<String>) {
    let mut exiting: HashSet<i64> = HashSet::new();
    let mut bad: Vec<String> = vec![];
    let check = |o: &Value, exiting: &HashSet<i64>, bad: &mut Vec<String>, what: &str| {
        let empty = vec![];
        let t1 = o["t1"].as_array().unwrap_or(&empty);
        let t2 = o["t2"].as_array().unwrap_or(&empty);
        let live = |l: &Vec<Value>| -> Vec<Value> { l.iter().filter(|t| { let st = t[1].as_u64().unwrap_or(0); st != 90 && st != 88 && !exiting.contains(&t[0].as_i64().unwrap_or(0)) }).cloned().collect() };
        let (l1, l2) = (live(t1), live(t2));
        for t in l1.iter().chain(l2.iter()) {
            if t[1].as_u64() != Some(116) { bad.push(format!("{what}: task {} in state {}", t[0], t[1].as_u64().unwrap_or(0) as u8 as char)); }
        }
        for t in &l1 {
            match t2.iter().find(|u| u[0] == t[0]) {
                Some(u) => { if u[2] != t[2] || u[3] != t[3] { bad.push(format!("{what}: task {} moved while stopped: cpu {}->{} pc {}->{}", t[0], t[2], u[2], t[3], u[3])); } }
                None => bad.push(format!("{what}: task {} disappeared while stopped", t[0])),
            }
        }
        let set = |l: &Vec<Value>| -> Vec<i64> { let mut v: Vec<i64> = l.iter().map(|t| t[0].as_i64().unwrap_or(0)).collect(); v.sort(); v.dedup(); v };
        let mut dbg: Vec<i64> = o["dbg"].as_array().unwrap_or(&empty).iter().map(|t| t.as_i64().unwrap_or(0)).collect();
        dbg.sort();
        let tbl = set(o["table"].as_array().unwrap_or(&empty));
        if dbg != set(&l1) { bad.push(format!("{what}: thread list {:?} but live tasks {:?}", dbg, set(&l1))); }
        if tbl != set(&l1) { bad.push(format!("{what}: tracer table {:?} but live tasks {:?}", tbl, set(&l1))); }
        if o["table"].as_array().unwrap_or(&empty).iter().any(|t| t[1] == false) { bad.push(format!("{what}: a tracee is marked running")); }
    };
    check(&init["obs"], &exiting, &mut bad, "init");
    for (i, o) in ops.iter().enumerate() {
        for e in o["evs"].as_array().unwrap_or(&vec![]) {
            if e[0] == "w" && e[2][0] == "event" && e[2][2] == 6 { exiting.insert(e[2][1].as_i64().unwrap_or(0)); }
        }
        let is_exit = o["stop"].get(0).and_then(|v| v.as_str()) == Some("exit");
        if !is_exit && o["ok"] == true {
            check(&o["obs"], &exiting, &mut bad, &format!("op {i} ({})", o["kind"].as_str().unwrap_or("?")));
        }
    }
    (bad.is_empty(), bad)
}

/// one generated program and its histories; returns {"cases": [...], "metas": [...], "errors": [...], "hist": {...}, "samples": [...], "keys": [...]}
fn run_program(seed: u64, pi: usize, scratch: &str, per_prog: usize) -> Value {
    // one stream per program, derived from (seed, program index) by splitmix64 so that neighbouring programs are unrelated
    let mut z = (seed ^ 0xC09).wrapping_mul(0x1_0000_0001).wrapping_add((pi as u64 + 1).wrapping_mul(0x9E3779B97F4A7C15));
    z = (z ^ (z >> 30)).wrapping_mul(0xBF58476D1CE4E5B9);
    z = (z ^ (z >> 27)).wrapping_mul(0x94D049BB133111EB);
    let mut rng = Rng::new(z ^ (z >> 31));
    for _ in 0..8 { rng.next(); }
    let mut hist: BTreeMap<String, u64> = BTreeMap::new();
    let mut texts: Vec<String> = vec![];
    let mut keys: Vec<String> = vec![];
    let mut nontrivial_flags: Vec<bool> = vec![];
    let mut samples: Vec<Value> = vec![];
    let mut errors: Vec<String> = vec![];
    let mut metas: Vec<Value> = vec![];
    let bump = |hist: &mut BTreeMap<String, u64>, k: String| *hist.entry(k).or_default() += 1;
    let done = |texts: Vec<String>, metas: Vec<Value>, errors: Vec<String>, hist: BTreeMap<String, u64>, samples: Vec<Value>, keys: Vec<String>, nt: Vec<bool>| {
        json!({"cases": texts, "metas": metas, "errors": errors, "hist": hist, "samples": samples, "keys": keys, "nontrivial": nt})
    };
    {
        let plan = gen_plan(&mut rng);
        let src = source(&plan);
        let name = format!("c09_{seed}_{pi}");
        let bin: PathBuf = match e2e::compile(scratch, &name, &src, &[], None) {
            Ok(b) => b,
            Err(e) => { errors.push(format!("compile {name}: {}", e.chars().take(400).collect::<String>())); return done(texts, metas, errors, hist, samples, keys, nontrivial_flags); }
        };
        let (Some(slots), Some(inc_a), Some(inc_b)) = (sym_value(&bin, "SLOTS"), sym_value(&bin, "hit_a_inc"), sym_value(&bin, "hit_b_inc")) else {
            errors.push(format!("{name}: symbols SLOTS / hit_a_inc / hit_b_inc not found"));
            return done(texts, metas, errors, hist, samples, keys, nontrivial_flags);
        };
        bump(&mut hist, format!("threads:{}", match plan.n { 1 => "1", 2..=4 => "2-4", 5..=8 => "5-8", 9..=16 => "9-16", 17..=40 => "17-40", _ => "41-64" }));
        bump(&mut hist, format!("program:{}", if plan.hammer { "hammer" } else if plan.storm { "storm" } else { "single-wave" }));
        bump(&mut hist, format!("program:self-pinned-{}", plan.pin.len()));
        for hi in 0..per_prog {
            let hp = gen_hplan(&mut rng, &plan, hi);
            if let Ok(only) = std::env::var("C09_ONLY") { if only.parse::<usize>().ok() != Some(hi) { continue; } }
            let tag = format!("h{seed}_{pi}_{hi}");
            let idle_ms: u64 = std::env::var("C09_IDLE_MS").ok().and_then(|s| s.parse().ok()).unwrap_or(120_000);
            let (bin2, hp2, ns) = (bin.clone(), hp.clone(), plan.n + 1);
            // idle limit: generous, the machine may be loaded; a real hang is a finding
            let mut res = iso::run_isolated(scratch, &tag, idle_ms, None, move |log| history_child(log, &bin2, slots, inc_a, inc_b, ns, &hp2));
            // the launch itself (fork + exec + the run to `anchor`, before tracing starts) is outside the property:
            // a launch that gets stuck is tried once more and counted
            if res.end == End::Timeout && !res.lines.iter().any(|l| l["ev"] == "init") {
                bump(&mut hist, format!("launch-retried-after:{}", res.lines.last().and_then(|l| l["ev"].as_str()).unwrap_or("nothing")));
                let (bin3, hp3) = (bin.clone(), hp.clone());
                res = iso::run_isolated(scratch, &tag, idle_ms, None, move |log| history_child(log, &bin3, slots, inc_a, inc_b, ns, &hp3));
            }
            let mut init: Option<Value> = None;
            let mut ops: Vec<&Value> = vec![];
            let mut child_err: Option<String> = None;
            let mut panic: Option<String> = None;
            let mut output_done = false;
            let mut delays = 0u64;
            let mut child_ms = 0u64;
            let mut toggles = 0u64;
            let (mut directed_toggles, mut pending_stops, mut pending_at_a) = (0u64, 0u64, 0u64);
            let mut last_pre = Value::Null;
            if let Ok(d) = std::env::var("C09_DUMP") {
                let _ = std::fs::write(format!("{d}/{tag}.jsonl"), res.lines.iter().map(|l| l.to_string()).collect::<Vec<_>>().join("\n"));
            }
            for l in &res.lines {
                match l["ev"].as_str().unwrap_or("") {
                    "init" => init = Some(l.clone()),
                    "op" => ops.push(l),
                    "error" => child_err = Some(l["what"].as_str().unwrap_or("?").to_string()),
                    "panic" => panic = Some(format!("{} {}", l["loc"].as_str().unwrap_or(""), l["msg"].as_str().unwrap_or(""))),
                    "output" => output_done = l["done"].as_bool().unwrap_or(false),
                    "delays" => { delays = l["n"].as_u64().unwrap_or(0); child_ms = l["ms_total"].as_u64().unwrap_or(0); }
                    "toggle" => { toggles += 1; if l["directed"] == true { directed_toggles += 1; } }
                    "pending-traps" => { pending_stops += 1; if l["at_a"] == true { pending_at_a += 1; } }
                    "pre" => last_pre = l.clone(),
                    _ => {}
                }
            }
            let Some(init) = init else {
                errors.push(format!("{tag}: no initial stop: {:?} {:?} {} log {:?}", res.end, child_err, res.stderr.chars().take(300).collect::<String>(), res.lines.iter().map(|l| l.to_string()).collect::<Vec<_>>()));
                continue;
            };
            let exited = ops.last().map(|o| o["stop"].get(0).and_then(|v| v.as_str()) == Some("exit")).unwrap_or(false);
            let end = if panic.is_some() || matches!(res.end, End::Crashed(_)) { 3 } else if res.end == End::Timeout { 2 } else if child_err.is_some() { 1 } else if !exited { 1 } else if !output_done { 4 } else { 0 };
            // expected counters by kernel tid, from the CNT lines (index -> tid) and the plan
            let final_cnt = ops.last().map(|o| o["obs"]["cnt"].clone()).unwrap_or(Value::Null);
            let mut expect: Vec<(u64, u64, u64)> = vec![];
            let mut counts_ok = end == 0;
            if end == 0 {
                if let Some(lines) = res.lines.iter().find(|l| l["ev"] == "output").and_then(|l| l["lines"].as_array()) {
                    for l in lines {
                        let f: Vec<&str> = l.as_str().unwrap_or("").split(' ').collect();
                        if f.len() == 5 {
                            if let (Ok(idx), Ok(tid)) = (f[1].parse::<usize>(), f[2].parse::<u64>()) {
                                let (a, b) = plan.expected(idx);
                                expect.push((tid, a, b));
                                if f[3].parse::<u64>().ok() != Some(a) || f[4].parse::<u64>().ok() != Some(b) { counts_ok = false; }
                            }
                        }
                    }
                }
                if expect.len() != plan.n + 1 { counts_ok = false; }
            }
            let text = format!("(mkCase {} {} {} {} {} {} {})", nn(&init["proc"]), nn(&init["bp_a"]), nn(&init["bp_b"]), obs_coq(&init["obs"]),
                cf::list(&ops, |o| op_coq(o)), cf::list(&expect, |(t, a, b)| format!("({}, ({}, {}))", cf::n(*t as u128), cf::n(*a as u128), cf::n(*b as u128))), cf::n(end as u128));
            // ---- statistics and meta for the classifier ----
            let stops = ops.iter().filter(|o| o["stop"].get(0).and_then(|v| v.as_str()) == Some("bp")).count();
            let max_threads = ops.iter().map(|o| o["obs"]["t1"].as_array().map(|a| a.len()).unwrap_or(0)).max().unwrap_or(0);
            let nevents: usize = ops.iter().map(|o| o["evs"].as_array().map(|a| a.len()).unwrap_or(0)).sum();
            let count_ev = |pred: &dyn Fn(&Value) -> bool| -> usize { ops.iter().map(|o| o["evs"].as_array().map(|a| a.iter().filter(|e| pred(e)).count()).unwrap_or(0)).sum() };
            let clones = count_ev(&|e| e[0] == "w" && e[2][0] == "event" && e[2][2] == 3);
            let exits = count_ev(&|e| e[0] == "w" && e[2][0] == "event" && e[2][2] == 6);
            let interrupts = count_ev(&|e| e[0] == "q" && e[1] == "intr");
            let esrch = count_ev(&|e| e[0] == "q" && e[4] == false);
            // a breakpoint trap consumed while another thread's stop is being made (group stop):
            // a wait for a specific thread that answers SIGTRAP
            let absorbed = count_ev(&|e| e[0] == "w" && e[1].as_i64().unwrap_or(-1) > 0 && e[2][0] == "stopped" && e[2][2] == 5);
            // storms seen by the tracer: clone or exit events consumed during an operation that ends in a breakpoint report
            let storm_ops = ops.iter().filter(|o| o["stop"].get(0).and_then(|v| v.as_str()) == Some("bp")
                && o["evs"].as_array().map(|a| a.iter().any(|e| e[0] == "w" && e[2][0] == "event" && (e[2][2] == 3 || e[2][2] == 6))).unwrap_or(false)).count();
            // unreported arrivals per operation kind (the same recurrence the Coq checker evaluates)
            let mut lost_by_kind: BTreeMap<String, i64> = BTreeMap::new();
            let mut dup_by_kind: BTreeMap<String, i64> = BTreeMap::new();
            let mut foreign_reports = 0;
            let (mut lost_tmp, mut lost_focus, mut lost_other, mut dup_nonfocus, mut dup_other) = (0i64, 0i64, 0i64, 0i64, 0i64);
            let mut focus_switched = false;
            let mut switched_to: Option<u64> = None;
            let mut stale: HashSet<(u64, u64)> = HashSet::new();
            let mut anomalies: Vec<Value> = vec![];
            {
                let mut owed: BTreeMap<(u64, u64), i64> = BTreeMap::new();
                let mut before: BTreeMap<u64, (u64, u64)> = BTreeMap::new();
                for t in init["obs"]["cnt"].as_array().unwrap_or(&vec![]) {
                    before.insert(t[0].as_u64().unwrap_or(0), (t[1].as_u64().unwrap_or(0), t[2].as_u64().unwrap_or(0)));
                }
                let (bpa, bpb) = (init["bp_a"].as_u64().unwrap_or(0), init["bp_b"].as_u64().unwrap_or(0));
                for (oi, o) in ops.iter().enumerate() {
                    if o["kind"] == "focus" { focus_switched = true; }
                    let mut after = before.clone();
                    for t in o["obs"]["cnt"].as_array().unwrap_or(&vec![]) {
                        after.insert(t[0].as_u64().unwrap_or(0), (t[1].as_u64().unwrap_or(0), t[2].as_u64().unwrap_or(0)));
                    }
                    let mut reps: Vec<(u64, u64)> = o["reports"].as_array().unwrap_or(&vec![]).iter().map(|r| (r[0].as_u64().unwrap_or(0), r[1].as_u64().unwrap_or(0))).collect();
                    if o["kind"] == "cont" {
                        reps.clear();
                        if let Some(a) = o["stop"].as_array() { if a[0] == "bp" { reps.push((a[1].as_u64().unwrap_or(0), a[2].as_u64().unwrap_or(0))); } }
                    }
                    foreign_reports += reps.iter().filter(|r| r.1 != bpa && !(bpb != 0 && r.1 == bpb)).count();
                    for (&tid, &(aa, ab)) in &after {
                        let (ba, bb) = before.get(&tid).copied().unwrap_or((0, 0));
                        for (bp, en, b0, a0) in [(bpa, o["en_a"].as_bool().unwrap_or(false), ba, aa), (bpb, o["en_b"].as_bool().unwrap_or(false), bb, ab)] {
                            if bp == 0 { continue; }
                            let r = reps.iter().filter(|x| **x == (tid, bp)).count() as i64;
                            if !en {
                                // the breakpoint is not set during this operation: passing it unreported is right, a
                                // report of it is not; a breakpoint set again later is a new one
                                if r != 0 { dup_other += r; anomalies.push(json!({"op": oi, "kind": o["kind"], "tid": tid, "bp": bp, "what": "report of a removed breakpoint"})); }
                                owed.insert((tid, bp), 0);
                                stale.remove(&(tid, bp));
                                continue;
                            }
                            let owed0 = owed.get(&(tid, bp)).copied().unwrap_or(0);
                            // resumed while standing on the breakpoint it was reported at, without being the thread in
                            // focus (so not stepped over): possible only after a focus switch
                            if owed0 == 1 && o["kind"] != "focus" && o["focus"].as_u64() != Some(tid) { stale.insert((tid, bp)); }
                            // the thread the user switched to stands on the breakpoint unreported and the operation steps it
                            // over (Debugger::step_over_breakpoint: the byte is restored, single_step of this thread): a silent pass,
                            // even if the thread comes round and is reported in the same operation
                            // (the step must really have happened: a PTRACE_EVENT_STOP left over from the group stop ends
                            // single_step before any instruction is executed)
                            let stepped_over = o["evs"].as_array().map(|v| {
                                let begin = v.iter().position(|e| e[0] == "b" && e[1] == 1 && e[2].as_u64() == Some(tid)
                                    && e[3].as_array().map(|b| b.iter().any(|x| x[0].as_u64() == Some(bp) && x[3] == false)).unwrap_or(false));
                                begin.and_then(|i| v[i..].iter().find(|e| e[0] == "w" && e[1].as_u64() == Some(tid))).map(|e| e[2][0] == "stopped").unwrap_or(false)
                            }).unwrap_or(false);
                            let silent = (owed0 == 0 && switched_to == Some(tid) && o["focus"].as_u64() == Some(tid) && stepped_over && (o["kind"] == "cont" || o["kind"] == "stepi")) as i64;
                            lost_focus += silent;
                            if silent == 1 { *lost_by_kind.entry(format!("{}-focus-silent", o["kind"].as_str().unwrap_or("?"))).or_default() += 1; }
                            let mut v = owed0 + r - (a0 as i64 - b0 as i64) + silent;
                            let kind = o["kind"].as_str().unwrap_or("?");
                            let in_focus = o["focus"].as_u64() == Some(tid);
                            if v < 0 {
                                if en {
                                    *lost_by_kind.entry(kind.to_string()).or_default() += -v;
                                    // the known shapes: swallowed while temporary breakpoints exist; the thread in focus
                                    // was parked on the breakpoint unreported and the operation stepped it over
                                    if kind == "next" || kind == "out" { lost_tmp += -v; }
                                    else if in_focus && switched_to == Some(tid) && (kind == "cont" || kind == "stepi") && v == -1 { lost_focus += 1; }
                                    else { lost_other += -v; anomalies.push(json!({"op": oi, "kind": kind, "tid": tid, "bp": bp, "v": v, "owed": owed0, "reports": r, "delta": a0 as i64 - b0 as i64, "focus": o["focus"], "switched_to": switched_to})); }
                                }
                                v = 0;
                            }
                            if v > 1 {
                                *dup_by_kind.entry(kind.to_string()).or_default() += v - 1;
                                // the known shape: a thread reported before, left on its breakpoint by a focus switch, reported again
                                if kind == "cont" && stale.contains(&(tid, bp)) && v == 2 { dup_nonfocus += 1; }
                                else { dup_other += v - 1; anomalies.push(json!({"op": oi, "kind": kind, "tid": tid, "bp": bp, "v": v, "owed": owed0, "reports": r, "delta": a0 as i64 - b0 as i64, "focus": o["focus"]})); }
                                v = 1;
                            }
                            if v == 0 { stale.remove(&(tid, bp)); }
                            owed.insert((tid, bp), v);
                        }
                    }
                    before = after;
                    // the thread the user switched to is "the thread in focus by a switch" until the next report
                    if o["kind"] == "focus" { switched_to = o["focus_after"].as_u64(); }
                    // a breakpoint report moves the focus to the reported thread
                    if o["kind"] == "cont" && o["stop"].get(0).and_then(|v| v.as_str()) == Some("bp") { focus_switched = false; switched_to = None; }
                }
                if end == 0 {
                    for (_, v) in &owed { if *v != 0 { *dup_by_kind.entry("never-passed".into()).or_default() += *v; dup_other += *v; } }
                }
            }
            // for the triage: the operations around the first anomaly, as seen for the thread concerned
            let anomaly_trace: Vec<Value> = anomalies.first().map(|a| {
                let (oi, tid) = (a["op"].as_u64().unwrap_or(0) as usize, a["tid"].as_u64().unwrap_or(0));
                (oi.saturating_sub(6)..=oi).filter_map(|i| ops.get(i).map(|o| {
                    let of = |l: &Value| l.as_array().and_then(|v| v.iter().find(|t| t[0].as_u64() == Some(tid)).cloned()).unwrap_or(Value::Null);
                    json!({"i": i, "kind": o["kind"], "focus": o["focus"], "stop": o["stop"], "reports": o["reports"], "focus_after": o["focus_after"],
                        "cnt": of(&o["obs"]["cnt"]), "task": of(&o["obs"]["t2"]), "en": [o["en_a"], o["en_b"]],
                        "evs_of_tid": o["evs"].as_array().map(|v| v.iter().filter(|e| e.to_string().contains(&tid.to_string())).take(14).cloned().collect::<Vec<_>>())})
                })).collect()
            }).unwrap_or_default();
            let (allstop_ok, allstop_bad) = rust_spec_parts(&ops, &init);
            let kinds: Vec<&str> = ops.iter().map(|o| o["kind"].as_str().unwrap_or("?")).collect();
            let nkind = |k: &str| kinds.iter().filter(|x| **x == k).count();
            let meta = json!({"program": name, "history": hi, "threads": plan.n + 1, "storm": plan.storm, "self_pin": plan.pin, "tracer_pin": hp.pin_tracer, "debuggee_cpus": hp.cpus,
                "bp_a": format!("{:?}", hp.bp_a), "bp_b": format!("{:?}", hp.bp_b), "mix": format!("{:?}", hp.mix), "toggles": toggles, "directed_toggles": directed_toggles, "stops_with_pending_trap": pending_stops, "stops_with_pending_trap_of_a": pending_at_a, "hammer": plan.hammer,
                "delay_max_us": hp.delay_max_us, "delays": delays, "ops": ops.len(), "stops": stops, "stepi": nkind("stepi"), "next": nkind("next"), "out": nkind("out"), "focus": nkind("focus")});
            let meta2 = json!({"ms_launch": init["ms_launch"], "ms_start": init["ms_start"], "ms_total": child_ms, "us_ops": ops.iter().map(|o| o["us_op"].as_u64().unwrap_or(0)).sum::<u64>(), "us_ops_obs": ops.iter().map(|o| o["us_all"].as_u64().unwrap_or(0)).sum::<u64>(),
                "end": end, "last_pre": if end == 0 { Value::Null } else { last_pre.clone() }, "child_error": child_err, "panic": panic, "iso_end": format!("{:?}", res.end),
                "lost_by_kind": lost_by_kind, "dup_by_kind": dup_by_kind, "lost_tmp": lost_tmp, "lost_focus": lost_focus, "lost_other": lost_other, "dup_nonfocus": dup_nonfocus, "dup_other": dup_other, "anomalies": anomalies.iter().take(6).collect::<Vec<_>>(), "anomaly_trace": anomaly_trace, "foreign_reports": foreign_reports, "allstop_ok": allstop_ok, "allstop_bad": allstop_bad.iter().take(4).collect::<Vec<_>>(), "counts_ok": counts_ok, "max_threads_seen": max_threads});
            let meta3 = json!({"events": nevents, "clones": clones, "exits": exits, "interrupts": interrupts, "esrch": esrch, "absorbed_traps": absorbed, "storm_ops": storm_ops,
                "final_cnt": final_cnt, "expected_hits": plan.total_hits(), "stderr": res.stderr.chars().take(300).collect::<String>(),
                "last_ops": ops.iter().rev().take(3).rev().map(|o| json!([o["kind"], o["stop"], o["ok"], o["err"]])).collect::<Vec<_>>()});
            let mut meta = meta;
            for part in [meta2, meta3] {
                if let (Some(m), Some(p)) = (meta.as_object_mut(), part.as_object()) {
                    for (k, v) in p { m.insert(k.clone(), v.clone()); }
                }
            }
            // canonical form for distinctness: the plan, the history plan and the sequence of reported stops
            let canon = format!("{:?}|{:?}|{:?}", plan, hp, ops.iter().map(|o| (o["kind"].as_str().unwrap_or("").to_string(), o["stop"].to_string())).collect::<Vec<_>>());
            keys.push(canon);
            nontrivial_flags.push(plan.n + 1 >= 2 && stops >= 2 && max_threads >= 2);
            bump(&mut hist, format!("mix:{:?}", hp.mix));
            bump(&mut hist, format!("delay-max-us:{}", hp.delay_max_us));
            bump(&mut hist, format!("tracer-pinned:{}", !hp.pin_tracer.is_empty()));
            bump(&mut hist, format!("debuggee-cpus:{}", if !plan.pin.is_empty() { plan.pin.len().min(hp.cpus.len()) } else { hp.cpus.len() }));
            bump(&mut hist, format!("debuggee-self-pinned:{}", !plan.pin.is_empty()));
            bump(&mut hist, format!("bp:{:?}/{:?}", hp.bp_a, hp.bp_b));
            bump(&mut hist, format!("stops:{}", match stops { 0 => "0", 1 => "1", 2..=9 => "2-9", 10..=29 => "10-29", 30..=99 => "30-99", _ => "100+" }));
            bump(&mut hist, format!("threads-seen:{}", match max_threads { 0..=1 => "1", 2..=4 => "2-4", 5..=8 => "5-8", 9..=16 => "9-16", 17..=40 => "17-40", _ => "41-65" }));
            bump(&mut hist, format!("end:{end}"));
            bump(&mut hist, format!("toggled:{}", toggles > 0));
            *hist.entry("sum:stops".into()).or_default() += stops as u64;
            *hist.entry("sum:ops-stepi".into()).or_default() += nkind("stepi") as u64;
            *hist.entry("sum:ops-next".into()).or_default() += nkind("next") as u64;
            *hist.entry("sum:ops-out".into()).or_default() += nkind("out") as u64;
            *hist.entry("sum:ops-focus".into()).or_default() += nkind("focus") as u64;
            *hist.entry("sum:tracer-events".into()).or_default() += nevents as u64;
            *hist.entry("sum:clone-events".into()).or_default() += clones as u64;
            *hist.entry("sum:exit-events".into()).or_default() += exits as u64;
            *hist.entry("sum:interrupts".into()).or_default() += interrupts as u64;
            *hist.entry("sum:requests-answered-esrch".into()).or_default() += esrch as u64;
            *hist.entry("sum:absorbed-traps".into()).or_default() += absorbed as u64;
            *hist.entry("sum:stops-with-clone-or-exit-in-flight".into()).or_default() += storm_ops as u64;
            *hist.entry("sum:delays-slept".into()).or_default() += delays;
            *hist.entry("sum:toggles".into()).or_default() += toggles;
            *hist.entry("sum:toggles-removing-a-breakpoint-with-a-pending-trap".into()).or_default() += directed_toggles;
            *hist.entry("sum:stops-with-an-unreported-trap-pending".into()).or_default() += pending_stops;
            if samples.len() < 1 {
                samples.push(json!({"program": name, "threads": plan.n + 1, "mix": format!("{:?}", hp.mix), "ops": kinds.len(), "stops": stops,
                    "first_ops": ops.iter().take(6).map(|o| json!([o["kind"], o["stop"]])).collect::<Vec<_>>()}));
            }
            metas.push(meta);
            texts.push(text);
        }
        if std::env::var("C09_KEEP").is_err() {
            let _ = std::fs::remove_file(&bin);
        }
    }
    done(texts, metas, errors, hist, samples, keys, nontrivial_flags)
}

/// `c09-e2e-worker <seed> <program index> <result file> <scratch> <histories per program>`
pub fn run_worker(args: &[String]) -> i32 {
    if std::env::var("RAYON_NUM_THREADS").is_err() {
        unsafe { std::env::set_var("RAYON_NUM_THREADS", "3") };
    }
    let seed: u64 = args.first().and_then(|s| s.parse().ok()).unwrap_or(1);
    let pi: usize = args.get(1).and_then(|s| s.parse().ok()).unwrap_or(0);
    let Some(out) = args.get(2) else { return 2 };
    let scratch = args.get(3).cloned().unwrap_or_else(|| "/verif/.scratch/c09".into());
    let per_prog: usize = args.get(4).and_then(|s| s.parse().ok()).unwrap_or(5);
    let v = run_program(seed, pi, &scratch, per_prog);
    if std::fs::write(out, v.to_string()).is_err() { 3 } else { 0 }
}

/// `c09-e2e <seed> <programs> <cases dir> <scratch> [histories per program = 5] [parallel workers = 4, at most 4]`
pub fn run(args: &[String]) -> i32 {
    let seed: u64 = args.first().and_then(|s| s.parse().ok()).unwrap_or(1);
    let nprog: usize = args.get(1).and_then(|s| s.parse().ok()).unwrap_or(4);
    let out_dir = args.get(2).cloned().unwrap_or_else(|| "../coq/cases".into());
    let scratch = args.get(3).cloned().unwrap_or_else(|| "/verif/.scratch/c09".into());
    let per_prog: usize = args.get(4).and_then(|s| s.parse().ok()).unwrap_or(5);
    // the machine is shared with other checks: at most 4 worker processes, each debugger loads debug information with
    // 3 threads instead of one per core (RAYON_NUM_THREADS), each debuggee is confined to 1-3 CPUs
    let jobs: usize = args.get(5).and_then(|s| s.parse().ok()).unwrap_or(4).clamp(1, 4);
    let _ = std::fs::create_dir_all(&scratch);
    let t_start = std::time::Instant::now();
    let exe = std::env::current_exe().unwrap_or_else(|_| PathBuf::from("bsv"));
    // every program runs in its own worker process (a history needs its own tracer thread; the
    // workers only share the machine, which varies the interleavings further)
    let mut results: Vec<Option<Value>> = (0..nprog).map(|_| None).collect();
    let mut running: Vec<(usize, std::process::Child, String)> = vec![];
    let mut next = 0usize;
    let mut errors: Vec<String> = vec![];
    while next < nprog || !running.is_empty() {
        while next < nprog && running.len() < jobs {
            let out = format!("{scratch}/res_{seed}_{next}.json");
            let _ = std::fs::remove_file(&out);
            match std::process::Command::new(&exe).args(["c09-e2e-worker", &seed.to_string(), &next.to_string(), &out, &scratch, &per_prog.to_string()])
                .env("RAYON_NUM_THREADS", "3")
                .stdout(std::process::Stdio::null()).stderr(std::process::Stdio::null()).spawn() {
                Ok(ch) => running.push((next, ch, out)),
                Err(e) => errors.push(format!("worker {next}: {e}")),
            }
            next += 1;
        }
        let mut i = 0;
        let mut progressed = false;
        while i < running.len() {
            match running[i].1.try_wait() {
                Ok(Some(_)) => {
                    let (pi, _, out) = running.remove(i);
                    match std::fs::read_to_string(&out).ok().and_then(|t| serde_json::from_str::<Value>(&t).ok()) {
                        Some(v) => results[pi] = Some(v),
                        None => errors.push(format!("worker {pi}: no result")),
                    }
                    let _ = std::fs::remove_file(&out);
                    progressed = true;
                }
                Ok(None) => i += 1,
                Err(e) => { errors.push(format!("worker: {e}")); running.remove(i); }
            }
        }
        if !progressed {
            std::thread::sleep(std::time::Duration::from_millis(50));
        }
    }
    let mut cases = CasesFile::new(&["Gen.Tracer", "Model.Tracer", "Model.TracerReplay"], "c09_case", "c09_check");
    let mut hist: BTreeMap<String, u64> = BTreeMap::new();
    let mut seen = HashSet::new();
    let mut nontrivial = 0usize;
    let mut samples: Vec<Value> = vec![];
    let mut metas: Vec<Value> = vec![];
    for r in results.into_iter().flatten() {
        let empty = vec![];
        for (i, c) in r["cases"].as_array().unwrap_or(&empty).iter().enumerate() {
            cases.push(c.as_str().unwrap_or("").to_string());
            metas.push(r["metas"][i].clone());
            let key = r["keys"][i].as_str().unwrap_or("").to_string();
            if seen.insert(key) && r["nontrivial"][i] == true {
                nontrivial += 1;
            }
        }
        for e in r["errors"].as_array().unwrap_or(&empty) {
            errors.push(e.as_str().unwrap_or("?").to_string());
        }
        if let Some(h) = r["hist"].as_object() {
            for (k, v) in h {
                *hist.entry(k.clone()).or_default() += v.as_u64().unwrap_or(0);
            }
        }
        for s in r["samples"].as_array().unwrap_or(&empty) {
            if samples.len() < 3 { samples.push(s.clone()); }
        }
    }
    hist.insert("wall-seconds".into(), t_start.elapsed().as_secs());
    let shard = 4;
    let files = cases.write(&out_dir, "cases_C09_e2e", shard);
    println!(
        "{}",
        json!({"leg": "c09-e2e", "seed": seed, "cases": cases.cases.len(), "distinct_nontrivial": nontrivial,
            "histogram": hist, "samples": samples, "files": files, "errors": errors, "case_meta": metas, "shard": shard})
    );
    0
}

// ---------------------------------------------------------------------------------------------
// minimal reproductions of the two known findings (fixed program, fixed command sequences)
// ---------------------------------------------------------------------------------------------

pub const REPRO_SRC: &str = r#"#![allow(named_asm_labels)]
#[no_mangle]
pub static mut SLOTS: [[u64; 8]; 16] = [[0; 8]; 16];
extern "C" { fn syscall(n: i64, ...) -> i64; }
#[inline(never)]
#[no_mangle]
pub extern "C" fn hit_a(slot: *mut u64) {
    unsafe { core::arch::asm!(".globl hit_a_inc", "hit_a_inc:", "add qword ptr [{0}], 1", in(reg) slot, options(nostack)); }
}
#[inline(never)]
#[no_mangle]
pub extern "C" fn anchor(n: u64) -> u64 { std::hint::black_box(n) + 1 }
#[inline(never)]
fn spin(n: u64) -> u64 { let mut x = n; for i in 0..n { x = x.wrapping_mul(6364136223846793005).wrapping_add(i); } std::hint::black_box(x) }
#[inline(never)]
#[no_mangle]
pub extern "C" fn slow(n: u64) -> u64 {
    let x = spin(n);
    std::hint::black_box(x) + 1
}
fn worker(idx: usize, rounds: u64, gap: u64) {
    let slot = unsafe { (std::ptr::addr_of_mut!(SLOTS) as *mut u64).add(idx * 8) };
    unsafe { std::ptr::write_volatile(slot.add(2), syscall(186) as u64); }
    for _ in 0..rounds { hit_a(slot); spin(gap); }
}
fn main() {
    let args: Vec<String> = std::env::args().collect();
    let workers: usize = args.get(1).and_then(|s| s.parse().ok()).unwrap_or(1);
    let rounds: u64 = args.get(2).and_then(|s| s.parse().ok()).unwrap_or(1000);
    let slow_n: u64 = args.get(3).and_then(|s| s.parse().ok()).unwrap_or(0);
    let gap: u64 = args.get(4).and_then(|s| s.parse().ok()).unwrap_or(20_000);
    let mut acc = anchor(1);
    let hs: Vec<_> = (0..workers).map(|i| std::thread::spawn(move || worker(i, rounds, gap))).collect();
    if slow_n > 0 { acc = acc.wrapping_add(slow(slow_n)); }
    for h in hs { h.join().unwrap(); }
    for i in 0..workers {
        let slot = unsafe { (std::ptr::addr_of_mut!(SLOTS) as *mut u64).add(i * 8) };
        unsafe { println!("CNT {} {} {} 0", i, std::ptr::read_volatile(slot.add(2)), std::ptr::read_volatile(slot)); }
    }
    println!("DONE {}", acc & 1);
}
"#;

/// `c09-repro <scratch>`: prints what the two known findings look like on a fixed program
pub fn run_repro(args: &[String]) -> i32 {
    if std::env::var("RAYON_NUM_THREADS").is_err() {
        unsafe { std::env::set_var("RAYON_NUM_THREADS", "3") };
    }
    // the machine is shared: everything this reproduction starts stays on three CPUs
    {
        let mut cur = [0u64; 16];
        unsafe { libc::sched_getaffinity(0, 128, cur.as_mut_ptr() as *mut libc::cpu_set_t) };
        let mut m = 0u64;
        let mut left = 3;
        for c in (0..64).rev() { if left > 0 && cur[0] & (1 << c) != 0 { m |= 1 << c; left -= 1; } }
        if m != 0 { unsafe { libc::sched_setaffinity(0, 8, &m as *const u64 as *const libc::cpu_set_t) }; }
    }
    let scratch = args.first().cloned().unwrap_or_else(|| "/verif/.scratch/c09".into());
    let bin = match e2e::compile(&scratch, "c09_repro", REPRO_SRC, &[], None) {
        Ok(b) => b,
        Err(e) => { eprintln!("compile: {e}"); return 3; }
    };
    let (Some(slots), Some(inc_a)) = (sym_value(&bin, "SLOTS"), sym_value(&bin, "hit_a_inc")) else { return 3 };
    let counters = |pid: Pid, base: u64| -> Vec<(u64, u64)> {
        let bytes = e2e::proc_mem_read(pid, base + slots, 16 * 64).unwrap_or_else(|_| vec![0; 1024]);
        (0..16).map(|i| (u64::from_le_bytes(bytes[i * 64 + 16..i * 64 + 24].try_into().unwrap()), u64::from_le_bytes(bytes[i * 64..i * 64 + 8].try_into().unwrap()))).collect()
    };
    let start = |argv: &[&str]| -> Option<(e2e::Session, Pid, u64)> {
        let mut s = e2e::launch(&bin, &argv.iter().map(|x| x.to_string()).collect::<Vec<_>>()).ok()?;
        let nums: Vec<u32> = s.dbg.set_breakpoint_at_fn("anchor").ok()?.iter().map(|b| b.number).collect();
        s.dbg.start_debugee().ok()?;
        for n in nums { let _ = s.dbg.remove_breakpoint_by_number(n); }
        let pid = s.pid_now();
        let base = e2e::proc_maps(pid).iter().find(|m| Path::new(&m.path) == bin).map(|m| m.start - m.offset).unwrap_or(0x555555554000);
        s.dbg.set_breakpoint_at_addr(RelocatedAddress::from((base + inc_a) as usize)).ok()?;
        s.events.take();
        Some((s, pid, base))
    };
    // every scenario in a forked child of its own (a fork after an in-process session has left threads behind can deadlock)
    let result_of = |res: iso::IsoResult| -> Value {
        res.lines.iter().find(|l| l["ev"] == "result").map(|l| l["v"].clone()).unwrap_or(json!({"error": format!("{:?}", res.end)}))
    };
    // --- A: break slow; break hit_a; run; (continue until the stop is in slow); next ---
    let a = result_of(iso::run_isolated(&scratch, "repro_a", 120_000, None, |log| {
    let mut a = json!({"error": "setup"});
    if let Some((mut s, pid, base)) = start(&["1", "4000", "40000000"]) {
        let _ = s.dbg.set_breakpoint_at_fn("slow");
        let main_tid = pid.as_raw();
        let mut reports_before = 0;
        let mut reached = false;
        for _ in 0..400 {
            match s.dbg.continue_debugee_with_reason() {
                Ok(StopReason::Breakpoint(t, _)) if t.as_raw() == main_tid => { reached = true; break; }
                Ok(StopReason::Breakpoint(_, _)) => reports_before += 1,
                _ => break,
            }
        }
        s.events.take();
        if reached {
            let c0 = counters(pid, base);
            let r = s.dbg.step_over();
            let c1 = counters(pid, base);
            let reports: usize = s.events.take().iter().filter(|e| matches!(e, e2e::Ev::Breakpoint { .. })).count();
            a = json!({"commands": "break slow; break *hit_a_inc; run; continue (until the main thread stops in slow); next",
                "worker_reports_before_the_step": reports_before, "next_ok": r.is_ok(),
                "worker_arrivals_during_next": c1[0].1 - c0[0].1, "breakpoint_reports_during_next": reports});
        } else {
            a = json!({"error": "the main thread never stopped in slow"});
        }
    }
    log.put(json!({"ev": "result", "v": a}));
    }));
    // --- B: break hit_a; run; at every stop: thread switch <other>; continue ---
    let b = result_of(iso::run_isolated(&scratch, "repro_b", 120_000, None, |log| {
    let mut b = json!({"error": "setup"});
    if let Some((mut s, pid, base)) = start(&["2", "40", "0"]) {
        let bp = base + inc_a;
        let (mut switches, mut rereports, mut silent, mut stops) = (0, 0, 0, 0);
        let mut reports: BTreeMap<u64, u64> = BTreeMap::new();
        let mut last: Option<i32> = None;
        for _ in 0..400 {
            let c0 = counters(pid, base);
            let parked: Vec<(u32, i32, bool)> = s.dbg.thread_state().map(|v| v.iter().filter(|t| !t.in_focus && t.thread.pid.as_raw() != pid.as_raw())
                .map(|t| (t.thread.number, t.thread.pid.as_raw(), t.bt.as_ref().and_then(|b| b.first()).map(|f| f.ip.as_u64() == bp).unwrap_or(false))).collect()).unwrap_or_default();
            let mut switched_to: Option<(i32, bool)> = None;
            if let (Some(_), Some((num, tid, at_bp))) = (last, parked.first().copied()) {
                if s.dbg.set_thread_into_focus(num).is_ok() { switches += 1; switched_to = Some((tid, at_bp)); }
            }
            match s.dbg.continue_debugee_with_reason() {
                Ok(StopReason::Breakpoint(t, _)) => {
                    stops += 1;
                    *reports.entry(t.as_raw() as u64).or_default() += 1;
                    let c1 = counters(pid, base);
                    let cnt = |c: &Vec<(u64, u64)>, tid: i32| c.iter().find(|x| x.0 == tid as u64).map(|x| x.1).unwrap_or(0);
                    if let (Some(prev), Some((to, to_at_bp))) = (last, switched_to) {
                        // the thread reported before is reported again without having passed the breakpoint
                        if t.as_raw() == prev && cnt(&c1, prev) == cnt(&c0, prev) { rereports += 1; }
                        // the thread switched to was parked on the breakpoint, never reported, and has passed it now
                        if to_at_bp && cnt(&c1, to) == cnt(&c0, to) + 1 && t.as_raw() != to { silent += 1; }
                    }
                    last = Some(t.as_raw());
                }
                _ => break,
            }
        }
        s.wait_out("DONE", 20000);
        let out = s.stdout();
        let finals: Vec<(u64, u64)> = out.lines().filter_map(|l| { let f: Vec<&str> = l.split(' ').collect(); if f.len() == 5 && f[0] == "CNT" { Some((f[2].parse().ok()?, f[3].parse().ok()?)) } else { None } }).collect();
        b = json!({"commands": "break *hit_a_inc; run; then at every stop: thread switch <another worker>; continue",
            "stops": stops, "switches": switches, "same_arrival_reported_again": rereports, "parked_thread_passed_unreported": silent,
            "reports_per_thread": reports, "arrivals_per_thread": finals});
    }
    log.put(json!({"ev": "result", "v": b}));
    }));
    // --- C: break hit_a; run; continue ... until some thread has the trap of the breakpoint raised but not
    // reported (SigPnd of /proc/<pid>/task/<tid>/status, pc = breakpoint + 1); remove the breakpoint; continue ---
    let tries: usize = args.get(1).and_then(|s| s.parse().ok()).unwrap_or(3);
    let mut c_runs: Vec<Value> = vec![];
    for attempt in 0..tries {
        let bin2 = bin.clone();
        let res = iso::run_isolated(&scratch, &format!("repro_c_{attempt}"), 40_000, None, move |log| {
            let Ok(mut s) = e2e::launch(&bin2, &["8".to_string(), "300".to_string(), "0".to_string(), "300".to_string()]) else { return };
            let Ok(v) = s.dbg.set_breakpoint_at_fn("anchor") else { return };
            let nums: Vec<u32> = v.iter().map(|b| b.number).collect();
            log.put(json!({"ev": "launched"}));
            if s.dbg.start_debugee().is_err() { return; }
            log.put(json!({"ev": "started"}));
            for n in nums { let _ = s.dbg.remove_breakpoint_by_number(n); }
            let pid = s.pid_now();
            let base = e2e::proc_maps(pid).iter().find(|m| Path::new(&m.path) == bin2).map(|m| m.start - m.offset).unwrap_or(0x555555554000);
            let bp = base + inc_a;
            if s.dbg.set_breakpoint_at_addr(RelocatedAddress::from(bp as usize)).is_err() { return; }
            log.put(json!({"ev": "bp-set"}));
            for i in 0..3000 {
                match s.dbg.continue_debugee_with_reason() {
                    Ok(StopReason::Breakpoint(_, _)) => {}
                    Ok(StopReason::DebugeeExit(c)) => { log.put(json!({"ev": "exit-before-pending", "code": c, "stops": i})); return; }
                    other => { log.put(json!({"ev": "unexpected", "what": format!("{other:?}")})); return; }
                }
                if i % 100 == 0 { log.put(json!({"ev": "progress", "stops": i})); }
                let pend = pending_traps(pid);
                if pend.iter().any(|(_, pc)| *pc == bp + 1) {
                    log.put(json!({"ev": "pending", "stops": i + 1, "threads": pend}));
                    let r = s.dbg.remove_breakpoint(bugstalker::debugger::address::Address::Relocated(RelocatedAddress::from(bp as usize)));
                    log.put(json!({"ev": "removed", "ok": r.is_ok()}));
                    let r = s.dbg.continue_debugee_with_reason();
                    log.put(json!({"ev": "continued", "result": format!("{r:?}")}));
                    s.wait_out("DONE", 20000);
                    let out = s.stdout();
                    log.put(json!({"ev": "output", "counters": out.lines().filter(|l| l.starts_with("CNT")).map(|l| l.split(' ').nth(3).unwrap_or("?").to_string()).collect::<Vec<_>>()}));
                    return;
                }
            }
            log.put(json!({"ev": "no-pending-trap-seen"}));
        });
        let ev = |k: &str| res.lines.iter().find(|l| l["ev"] == k).cloned();
        let states: Value = Value::Null;
        c_runs.push(json!({"pending_trap_seen_after_stops": ev("pending").map(|l| l["stops"].clone()), "threads_with_pending_trap": ev("pending").map(|l| l["threads"].clone()),
            "continue_after_remove": ev("continued").map(|l| l["result"].clone()), "counters_at_exit": ev("output").map(|l| l["counters"].clone()),
            "watchdog": format!("{:?}", res.end), "panic": ev("panic").map(|l| l["msg"].clone()), "other": ev("exit-before-pending").or(ev("unexpected")).or(ev("no-pending-trap-seen")), "states": states, "last_log": res.lines.last().cloned(), "stderr": res.stderr.chars().take(200).collect::<String>()}));
        if ev("pending").is_some() { break; }
    }
    let c = json!({"commands": "break *hit_a_inc; run; continue until a thread has SIGTRAP pending at breakpoint+1; remove the breakpoint; continue (8 threads x 300 calls)", "runs": c_runs});
    println!("{}", json!({"leg": "c09-repro", "tmp_bp_swallow": a, "focus_switch": b, "remove_with_pending_trap": c}));
    0
}
