//! C08, DAP part: every request kind of the adapter with missing / ill-typed / boundary / non-ASCII / huge arguments, before the
//! launch, while stopped at a breakpoint and after the exit, against a real DebugSession over the in-memory transport.
//! Demanded: every request is answered (success or failure) and the session thread neither panics nor hangs; after every
//! request a plain `threads` request is still answered.  No Coq cases: this is the crash / hang clause, decided by observation.
use crate::dap::Client;
use crate::e2e;
use crate::leg_c12::DEBUGGEE;
use crate::rng::Rng;
use serde_json::{json, Value};
use std::collections::BTreeMap;
use std::sync::Mutex;

static LAST_PANIC: Mutex<Option<(String, String)>> = Mutex::new(None);

/// every command the adapter's dispatch table knows (plus one it does not) with the argument keys it reads
const COMMANDS: &[(&str, &[&str])] = &[
    ("initialize", &["adapterID", "linesStartAt1", "columnsStartAt1", "pathFormat"]),
    ("launch", &["program", "args", "cwd", "stopOnEntry"]),
    ("attach", &["pid"]),
    ("configurationDone", &[]),
    ("setBreakpoints", &["source", "breakpoints", "lines", "sourceModified"]),
    ("setFunctionBreakpoints", &["breakpoints"]),
    ("setInstructionBreakpoints", &["breakpoints"]),
    ("setDataBreakpoints", &["breakpoints"]),
    ("setExceptionBreakpoints", &["filters"]),
    ("dataBreakpointInfo", &["variablesReference", "name", "frameId", "bytes", "asAddress"]),
    ("breakpointLocations", &["source", "line", "column", "endLine", "endColumn"]),
    ("source", &["source", "sourceReference"]),
    ("threads", &[]),
    ("stackTrace", &["threadId", "startFrame", "levels", "format"]),
    ("scopes", &["frameId"]),
    ("variables", &["variablesReference", "filter", "start", "count", "format"]),
    ("setVariable", &["variablesReference", "name", "value", "format"]),
    ("continue", &["threadId", "singleThread"]),
    ("restart", &["arguments"]),
    ("restartFrame", &["frameId"]),
    ("next", &["threadId", "granularity"]),
    ("stepIn", &["threadId", "targetId", "granularity"]),
    ("stepInTargets", &["frameId"]),
    ("stepOut", &["threadId", "granularity"]),
    ("stepBack", &["threadId"]),
    ("reverseContinue", &["threadId"]),
    ("pause", &["threadId"]),
    ("gotoTargets", &["source", "line", "column"]),
    ("goto", &["threadId", "targetId"]),
    ("evaluate", &["expression", "frameId", "context", "format"]),
    ("setExpression", &["expression", "value", "frameId", "format"]),
    ("completions", &["text", "column", "line", "frameId"]),
    ("loadedSources", &[]),
    ("modules", &["startModule", "moduleCount"]),
    ("readMemory", &["memoryReference", "offset", "count"]),
    ("writeMemory", &["memoryReference", "offset", "data", "allowPartial"]),
    ("disassemble", &["memoryReference", "offset", "instructionOffset", "instructionCount", "resolveSymbols"]),
    ("terminateThreads", &["threadIds"]),
    ("cancel", &["requestId", "progressId"]),
    ("runInTerminal", &["kind", "title", "cwd", "args"]),
    ("bogusCommand", &["x"]),
];
/// not drawn at random (they end the session / the debuggee): used once at the end of a session
const ENDING: &[&str] = &["terminate", "disconnect"];

const STRINGS: &[&str] = &[
    "", " ", "acc", "r", "con", "tick", "naïve", "Привет", "日本語", "€uro", "𝄞clef", "a\u{301}", "\u{0}", "0x", "0x0", "0x555555554000",
    "0xffffffffffffffff", "0x10000000000000000", "18446744073709551616", "-1", "{", "*&", "acc[", "acc[..", "*acc", "&&&&acc", "..", "~~", "(", ")",
    "main", "dapdebuggee.rs", "/", "/nonexistent/x.rs", "AAAA", "=", "zzz", "\"", "'", "\\", "\n", "acc.0.0.0.0", "tick::<",
];

fn int_value(rng: &mut Rng) -> Value {
    match rng.below(16) {
        0 => json!(0),
        1 => json!(1),
        2 => json!(-1),
        3 => json!(2),
        4 => json!(3),
        5 => json!(1000),
        6 => json!(i32::MAX as i64),
        7 => json!(i32::MAX as i64 + 1),
        8 => json!(u32::MAX as i64 + 1),
        9 => json!(1i64 << 53),
        10 => json!(i64::MAX),
        11 => json!(i64::MIN),
        12 => json!(u64::MAX),
        13 => json!(1.5),
        14 => json!(1e300),
        _ => json!(rng.below(12) as i64),
    }
}

fn string_value(rng: &mut Rng) -> Value {
    match rng.below(12) {
        0 => json!("x".repeat(10_000)),
        1 => json!("é".repeat(500)),
        _ => json!(*rng.pick(STRINGS)),
    }
}

fn any_value(rng: &mut Rng, src: &str, depth: u32) -> Value {
    match rng.below(12) {
        0 => Value::Null,
        1 => json!(true),
        2 | 3 => int_value(rng),
        4 | 5 => string_value(rng),
        6 if depth < 2 => json!([any_value(rng, src, depth + 1), any_value(rng, src, depth + 1)]),
        7 => json!([]),
        8 => json!({}),
        9 => json!({"path": src}),
        10 if depth < 2 => json!({"name": string_value(rng), "line": int_value(rng), "column": int_value(rng), "path": string_value(rng)}),
        _ => json!(rng.below(5) as i64),
    }
}

/// a plausible value for the key (so that handlers get past their argument parsing), then mutated with probability 1/2
fn value_for(key: &str, rng: &mut Rng, src: &str, bin: &str) -> Option<Value> {
    let plausible: Value = match key {
        "threadId" | "frameId" | "variablesReference" | "start" | "count" | "levels" | "startFrame" | "line" | "column" | "endLine" | "endColumn" | "offset"
        | "instructionOffset" | "instructionCount" | "bytes" | "targetId" | "sourceReference" | "startModule" | "moduleCount" | "requestId" | "pid" => {
            json!(*rng.pick(&[0i64, 1, 1, 2, 3, 5, 8, 16]))
        }
        "text" | "expression" | "name" | "value" | "memoryReference" | "data" | "context" | "filter" | "granularity" | "adapterID" | "pathFormat" | "progressId" | "kind"
        | "title" | "cwd" => string_value(rng),
        "program" => json!(bin),
        "args" | "filters" | "threadIds" | "lines" => json!([]),
        "source" => json!({"path": src}),
        "breakpoints" => match rng.below(6) {
            0 => json!([]),
            1 => json!([{"line": 3}]),
            2 => json!([{"name": "tick"}]),
            3 => json!([{"instructionReference": *rng.pick(STRINGS), "offset": int_value(rng)}]),
            4 => json!([{"dataId": *rng.pick(STRINGS), "accessType": "write"}]),
            _ => json!([{"line": int_value(rng), "column": int_value(rng), "condition": string_value(rng), "hitCondition": string_value(rng), "logMessage": string_value(rng)}]),
        },
        "format" => json!({"hex": true}),
        _ => json!(true),
    };
    match rng.below(10) {
        0 => None, // missing
        1..=4 => Some(any_value(rng, src, 0)),
        5 => Some(int_value(rng)),
        _ => Some(plausible),
    }
}

fn arguments(cmd: &str, keys: &[&str], rng: &mut Rng, src: &str, bin: &str) -> Value {
    if rng.chance(1, 25) {
        return any_value(rng, src, 0); // arguments of the wrong shape altogether
    }
    let mut m = serde_json::Map::new();
    for k in keys {
        if let Some(v) = value_for(k, rng, src, bin) {
            m.insert(k.to_string(), v);
        }
    }
    if cmd == "launch" && rng.chance(3, 4) {
        // most launches are the real thing so that later requests meet a debuggee
        m.insert("program".into(), json!(bin));
        m.insert("args".into(), json!(["3", "0"]));
    }
    Value::Object(m)
}

pub fn run(args: &[String]) -> i32 {
    let seed: u64 = args.first().and_then(|s| s.parse().ok()).unwrap_or(1);
    let count: usize = args.get(1).and_then(|s| s.parse().ok()).unwrap_or(200);
    let scratch = args.get(3).cloned().unwrap_or_else(|| "/verif/.scratch/c08dap".into());
    let mut rng = Rng::new(seed ^ 0xC08D);
    let bin = match e2e::compile(&scratch, "dapdebuggee", DEBUGGEE, &[], None) {
        Ok(b) => b,
        Err(e) => {
            eprintln!("compile failed: {e}");
            return 3;
        }
    };
    let bin_s = bin.to_string_lossy().to_string();
    let src = format!("{scratch}/dapdebuggee.rs");
    std::panic::set_hook(Box::new(|info| {
        let loc = info.location().map(|l| format!("{}:{}", l.file(), l.line())).unwrap_or_default();
        let msg = info.payload().downcast_ref::<&str>().map(|s| s.to_string()).or_else(|| info.payload().downcast_ref::<String>().cloned()).unwrap_or_default();
        *LAST_PANIC.lock().unwrap() = Some((loc, msg));
    }));
    let mut hist: BTreeMap<String, u64> = BTreeMap::new();
    let mut failures: Vec<Value> = vec![];
    let mut samples: Vec<Value> = vec![];
    let mut errors: Vec<String> = vec![];
    let mut sent_total = 0usize;
    let mut distinct = std::collections::HashSet::new();
    let mut session_no = 0usize;
    'sessions: while sent_total < count {
        session_no += 1;
        let mut c = Client::start();
        // phase 0: a few requests before initialize / launch; phase 1: stopped at a breakpoint; phase 2: after the exit
        let n_pre = rng.range(0, 4) as usize;
        let n_stopped = rng.range(4, 14) as usize;
        let n_post = rng.range(0, 4) as usize;
        let mut phase = "pre-launch";
        let mut k = 0usize;
        let mut alive = true;
        let mut request = |c: &mut Client, cmd: &str, a: Value, phase: &str, rng_note: bool, failures: &mut Vec<Value>, hist: &mut BTreeMap<String, u64>| -> bool {
            let seq = c.send(cmd, a.clone());
            let r = c.wait_response(seq, 30_000);
            *hist.entry(format!("cmd:{cmd}")).or_default() += 1;
            *hist.entry(format!("phase:{phase}")).or_default() += 1;
            match &r {
                Some(v) => *hist.entry(format!("answer:{}", if v["success"] == true { "success" } else { "failure" })).or_default() += 1,
                None => {}
            }
            if r.is_none() {
                let p = LAST_PANIC.lock().unwrap().take();
                let (kind, site, msg) = match p {
                    Some((loc, msg)) => ("panic", loc, msg),
                    None => ("no-response", String::new(), "no response within 30 s".to_string()),
                };
                failures.push(json!({"kind": kind, "site": site, "msg": msg.chars().take(300).collect::<String>(), "command": cmd, "arguments": a, "phase": phase, "directed": rng_note}));
                return false;
            }
            true
        };
        // --- before the launch
        for _ in 0..n_pre {
            let (cmd, keys) = *rng.pick(COMMANDS);
            if cmd == "launch" || cmd == "attach" {
                continue;
            }
            let a = arguments(cmd, keys, &mut rng, &src, &bin_s);
            distinct.insert(format!("{phase}|{cmd}|{a}"));
            sent_total += 1;
            if !request(&mut c, cmd, a, phase, false, &mut failures, &mut hist) {
                alive = false;
                break;
            }
        }
        if alive {
            alive = request(&mut c, "initialize", json!({"adapterID": "bs", "linesStartAt1": true}), phase, false, &mut failures, &mut hist)
                && request(&mut c, "launch", json!({"program": bin_s, "args": ["3", "0"]}), phase, false, &mut failures, &mut hist)
                && request(&mut c, "setBreakpoints", json!({"source": {"path": src}, "breakpoints": [{"line": 3}]}), phase, false, &mut failures, &mut hist)
                && request(&mut c, "configurationDone", json!({}), phase, false, &mut failures, &mut hist);
            if alive {
                let _ = c.wait_event("stopped", 0, 20_000);
            }
        }
        // --- stopped at the breakpoint (or wherever the requests lead)
        phase = "stopped";
        while alive && k < n_stopped {
            k += 1;
            let (cmd, keys) = *rng.pick(COMMANDS);
            if cmd == "launch" && rng.chance(3, 4) {
                continue;
            }
            let a = if cmd == "completions" && rng.chance(1, 2) {
                // directed: every column around the end of texts whose byte, UTF-16 and char lengths differ
                let t = *rng.pick(&["con", "naïve", "Привет", "日本語", "€", "𝄞", "a\u{301}", ""]);
                let col = *rng.pick(&[0i64, 1, t.chars().count() as i64, t.chars().count() as i64 + 1, t.chars().count() as i64 + 2, t.len() as i64, t.len() as i64 + 1, t.len() as i64 + 2, 1 << 31, i64::MAX]);
                json!({"text": t, "column": col})
            } else {
                arguments(cmd, keys, &mut rng, &src, &bin_s)
            };
            distinct.insert(format!("{phase}|{cmd}|{a}"));
            sent_total += 1;
            if samples.len() < 3 && a.as_object().map(|o| o.len() >= 2).unwrap_or(false) {
                samples.push(json!({"command": cmd, "arguments": a, "phase": phase}));
            }
            if !request(&mut c, cmd, a, phase, false, &mut failures, &mut hist) {
                alive = false;
                break;
            }
            // the session must stay usable
            if !request(&mut c, "threads", json!({}), phase, false, &mut failures, &mut hist) {
                alive = false;
                break;
            }
            if matches!(cmd, "continue" | "next" | "stepIn" | "stepOut" | "restart" | "goto" | "reverseContinue" | "stepBack") {
                std::thread::sleep(std::time::Duration::from_millis(30));
            }
            if c.transcript().iter().any(|m| m["type"] == "event" && m["event"] == "terminated") {
                phase = "after-exit";
            }
        }
        // --- after the exit / at the end
        if alive {
            if phase != "after-exit" && rng.chance(1, 2) {
                for _ in 0..6 {
                    if !request(&mut c, "continue", json!({"threadId": 1}), phase, false, &mut failures, &mut hist) {
                        alive = false;
                        break;
                    }
                    let from = c.log_len().saturating_sub(6);
                    if c.wait_event("terminated", from, 300).is_some() || c.transcript().iter().any(|m| m["type"] == "event" && m["event"] == "terminated") {
                        phase = "after-exit";
                        break;
                    }
                }
            }
            for _ in 0..n_post {
                if !alive {
                    break;
                }
                let (cmd, keys) = *rng.pick(COMMANDS);
                if cmd == "launch" || cmd == "attach" {
                    continue;
                }
                let a = arguments(cmd, keys, &mut rng, &src, &bin_s);
                distinct.insert(format!("{phase}|{cmd}|{a}"));
                sent_total += 1;
                if !request(&mut c, cmd, a, phase, false, &mut failures, &mut hist) {
                    alive = false;
                }
            }
            if alive {
                let end = *rng.pick(ENDING);
                let a = if rng.chance(1, 3) { any_value(&mut rng, &src, 0) } else { json!({"terminateDebuggee": true}) };
                sent_total += 1;
                // (`terminate` ends the adapter's request loop: nothing is sent after it)
                let _ = request(&mut c, end, a, phase, false, &mut failures, &mut hist);
            }
        }
        let (finished, no_panic) = c.close(3000);
        if !no_panic && alive {
            let p = LAST_PANIC.lock().unwrap().take();
            failures.push(json!({"kind": "panic", "site": p.as_ref().map(|x| x.0.clone()).unwrap_or_default(), "msg": p.map(|x| x.1).unwrap_or_default(), "command": "(at the end of the session)", "phase": phase}));
        }
        if !finished {
            errors.push(format!("session {session_no}: session thread still running 120 s after the connection was closed"));
            break 'sessions;
        }
        if failures.len() > 40 {
            break;
        }
    }
    let _ = std::panic::take_hook();
    println!(
        "{}",
        json!({"leg": "c08-dap", "seed": seed, "cases": sent_total, "distinct_nontrivial": distinct.len(), "histogram": hist, "samples": samples,
            "files": [], "errors": errors, "failures": failures, "sessions": session_no})
    );
    0
}
