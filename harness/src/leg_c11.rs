//! C11 e2e leg: quit / drop / detach / restart at every kind of stop, launched and attached,
//! single- and multi-threaded; afterwards the world is inspected with the harness's own eyes:
//! /proc (process table, state, TracerPid), /proc/<pid>/mem against the ELF file, the debug
//! registers of every thread (own PTRACE_SEIZE), output and exit status against a native run.
//! Restart histories on generated programs are also replayed on the Coq patch machine (stop_case).
//! Every history runs in a forked child with a watchdog (iso.rs).
use crate::coqfmt::{self as cf, CasesFile};
use crate::e2e::{self, Ev, Hooks};
use crate::iso::{self, End};
use crate::leg_c01;
use crate::reftrace;
use crate::rng::Rng;
use bugstalker::debugger::address::{Address, RelocatedAddress};
use bugstalker::debugger::register::debug::{BreakCondition, BreakSize};
use bugstalker::debugger::{DebuggerBuilder, StopReason};
use nix::sys::wait::{WaitPidFlag, WaitStatus, waitpid};
use nix::unistd::Pid;
use serde_json::{Value, json};
use std::collections::{BTreeMap, BTreeSet, HashSet};
use std::path::{Path, PathBuf};

pub const MT_SRC: &str = r#"use std::hint::black_box;
use std::sync::atomic::{AtomicU64, Ordering};
static COUNTER: AtomicU64 = AtomicU64::new(0);
#[inline(never)]
fn tick(i: u64) -> u64 {
    let v = black_box(i).wrapping_mul(3);
    COUNTER.fetch_add(1, Ordering::SeqCst);
    v
}
#[inline(never)]
fn wait_flag(path: &Option<String>) {
    if let Some(p) = path {
        while !std::path::Path::new(p).exists() {
            tick(7);
            std::thread::sleep(std::time::Duration::from_millis(2));
        }
    }
}
#[inline(never)]
fn worker(id: u64, rounds: u64, flag: Option<String>) -> u64 {
    wait_flag(&flag);
    let mut acc = 0u64;
    for r in 0..rounds {
        acc = acc.wrapping_add(tick(id * 100 + r));
        std::thread::sleep(std::time::Duration::from_millis(1));
    }
    acc
}
#[inline(never)]
fn finale(t: u64) -> u64 {
    black_box(t).wrapping_add(1)
}
fn main() {
    let args: Vec<String> = std::env::args().collect();
    let nthreads: u64 = args.get(1).and_then(|s| s.parse().ok()).unwrap_or(0);
    let flag: Option<String> = args.get(2).cloned();
    let mut handles = vec![];
    for id in 0..nthreads {
        let f = flag.clone();
        handles.push(std::thread::spawn(move || worker(id + 1, 12, f)));
    }
    let mut total = worker(0, 5, flag);
    for h in handles {
        total = total.wrapping_add(h.join().unwrap());
    }
    total = finale(total);
    println!("total={}", total);
    std::process::exit((total % 5) as i32 + 1);
}
"#;
const MT_LINE_TICK: u64 = 6;

#[derive(Clone, Debug, PartialEq)]
pub enum StopKind {
    NotStarted,
    AtBreakpoint,
    AfterStepi,
    AfterExit,
    /// multi-threaded only: a breakpoint (on `finale`) is created while a worker thread is in focus, the worker's own
    /// breakpoint is removed, the workers finish and exit, the main thread stops at `finale`
    WorkerFocusBp,
}
#[derive(Clone, Debug, PartialEq)]
pub enum Ending {
    Drop,
    DetachDrop,
}

#[derive(Clone, Debug)]
pub struct WorldPlan {
    pub attached: bool,
    pub threads: u64,
    pub stop: StopKind,
    pub ending: Ending,
    pub n_bps: u64,
    pub watch: bool,
    pub continues: u64,
}

fn proc_state(pid: i32) -> Option<char> {
    let s = std::fs::read_to_string(format!("/proc/{pid}/stat")).ok()?;
    let rp = s.rfind(')')?;
    s[rp + 1..].trim_start().chars().next()
}
fn tracer_pid(pid: i32, tid: i32) -> Option<i32> {
    let s = std::fs::read_to_string(format!("/proc/{pid}/task/{tid}/status")).ok()?;
    s.lines().find_map(|l| l.strip_prefix("TracerPid:")).and_then(|v| v.trim().parse().ok())
}
fn live_tids(pid: i32) -> Vec<i32> {
    e2e::kernel_tids(Pid::from_raw(pid)).into_iter().filter(|t| !matches!(e2e::task_state(Pid::from_raw(pid), *t), Some('Z') | Some('X') | None)).collect()
}

fn check(log: &mut iso::Log, name: &str, ok: bool, detail: String) {
    log.put(json!({"ev": "check", "name": name, "ok": ok, "detail": detail}));
}

/// DR7 (and DR0-3) of every live thread, read through the harness's own ptrace attachment
fn debug_regs_of(pid: i32) -> Result<Vec<(i32, u64, [u64; 4])>, String> {
    let mut out = vec![];
    for tid in live_tids(pid) {
        let t = Pid::from_raw(tid);
        nix::sys::ptrace::seize(t, nix::sys::ptrace::Options::empty()).map_err(|e| format!("seize {tid}: {e}"))?;
        nix::sys::ptrace::interrupt(t).map_err(|e| format!("interrupt {tid}: {e}"))?;
        let mut stopped = false;
        for _ in 0..5 {
            match waitpid(t, Some(WaitPidFlag::__WALL)) {
                Ok(WaitStatus::PtraceEvent(_, _, _)) | Ok(WaitStatus::Stopped(_, _)) => {
                    stopped = true;
                    break;
                }
                Ok(WaitStatus::Exited(_, _)) | Ok(WaitStatus::Signaled(_, _, _)) => break,
                Ok(_) => {}
                Err(e) => return Err(format!("wait {tid}: {e}")),
            }
        }
        if !stopped {
            continue;
        }
        let d7 = e2e::peek_debugreg(tid, 7)?;
        let mut a = [0u64; 4];
        for (i, x) in a.iter_mut().enumerate() {
            *x = e2e::peek_debugreg(tid, i)?;
        }
        out.push((tid, d7, a));
        nix::sys::ptrace::detach(t, None).map_err(|e| format!("detach {tid}: {e}"))?;
    }
    Ok(out)
}

/// the forwarder thread of the harness may be starved on a loaded machine: wait (bounded) for the expected bytes
fn wait_captured_eq(c: &std::sync::Arc<std::sync::Mutex<Vec<u8>>>, want: &[u8], ms: u64) -> Vec<u8> {
    let t0 = std::time::Instant::now();
    loop {
        let got = c.lock().unwrap().clone();
        if got == want || t0.elapsed() > std::time::Duration::from_millis(ms) {
            return got;
        }
        std::thread::sleep(std::time::Duration::from_millis(3));
    }
}

/// inspect a process that must have been released alive; then let it finish and compare with native
#[allow(clippy::too_many_arguments)]
fn inspect_released(log: &mut iso::Log, pid: i32, bin: &Path, flag: Option<&Path>, out_file: Option<&Path>, captured: Option<&std::sync::Arc<std::sync::Mutex<Vec<u8>>>>,
                    native_out: &[u8], native_code: Option<i32>, is_our_child: bool) {
    std::thread::sleep(std::time::Duration::from_millis(15));
    let st = proc_state(pid);
    let mut how = String::new();
    if st == Some('Z') && is_our_child && flag.is_none() {
        // nothing holds this program back: it may simply have finished between the release and this look
        let w = waitpid(Pid::from_raw(pid), Some(WaitPidFlag::WNOHANG));
        let code = match w {
            Ok(WaitStatus::Exited(_, c)) => Some(c),
            _ => None,
        };
        check(log, "released-finished-native", code.is_some() && code == native_code, format!("released program finished with {w:?}, native status {native_code:?}"));
        return;
    }
    if st == Some('Z') && is_our_child {
        how = format!(", wait status {:?}", waitpid(Pid::from_raw(pid), Some(WaitPidFlag::WNOHANG)));
    }
    check(log, "released-alive", matches!(st, Some('R') | Some('S') | Some('D')), format!("process state {st:?}{how}"));
    if st.is_none() || st == Some('Z') {
        return;
    }
    let tids = live_tids(pid);
    let bad_states: Vec<(i32, Option<char>)> = tids.iter().map(|t| (*t, e2e::task_state(Pid::from_raw(pid), *t))).filter(|(_, s)| matches!(s, Some('t') | Some('T'))).collect();
    check(log, "released-threads-running", bad_states.is_empty(), format!("threads left stopped: {bad_states:?} of {tids:?}"));
    let tracers: Vec<(i32, Option<i32>)> = tids.iter().map(|t| (*t, tracer_pid(pid, *t))).filter(|(_, p)| *p != Some(0)).collect();
    check(log, "released-untraced", tracers.is_empty(), format!("TracerPid != 0: {tracers:?}"));
    match leg_c01::patched_addresses(Pid::from_raw(pid), bin) {
        Ok(v) => check(log, "released-text-original", v.is_empty(), format!("text bytes differing from the ELF file at {:x?}", v.iter().take(8).collect::<Vec<_>>())),
        Err(e) => check(log, "released-text-original", false, format!("cannot read text: {e}")),
    }
    match debug_regs_of(pid) {
        Ok(v) => {
            let armed: Vec<_> = v.iter().filter(|(_, d7, _)| d7 & 0xff != 0).collect();
            check(log, "released-dr7-clear", armed.is_empty(), format!("threads with DR7 enable bits: {armed:x?} (all: {} threads)", v.len()));
        }
        Err(e) => check(log, "released-dr7-clear", false, format!("own ptrace attach failed: {e}")),
    }
    // let it run to completion
    if let Some(f) = flag {
        let _ = std::fs::write(f, b"go");
    }
    let mut code: Option<i32> = None;
    let mut gone = false;
    for _ in 0..30000 {
        if is_our_child {
            match waitpid(Pid::from_raw(pid), Some(WaitPidFlag::WNOHANG)) {
                Ok(WaitStatus::Exited(_, c)) => {
                    code = Some(c);
                    gone = true;
                    break;
                }
                Ok(WaitStatus::Signaled(_, s, _)) => {
                    code = Some(128 + s as i32);
                    gone = true;
                    break;
                }
                Err(_) => {
                    gone = true;
                    break;
                }
                _ => {}
            }
        } else if proc_state(pid).is_none() {
            gone = true;
            break;
        }
        std::thread::sleep(std::time::Duration::from_millis(2));
    }
    check(log, "released-completes", gone, "the released process did not finish within 60 s".into());
    if !gone {
        let _ = nix::sys::signal::kill(Pid::from_raw(pid), nix::sys::signal::Signal::SIGKILL);
        return;
    }
    std::thread::sleep(std::time::Duration::from_millis(15));
    let out: Vec<u8> = match (out_file, captured) {
        (Some(f), _) => std::fs::read(f).unwrap_or_default(),
        (None, Some(c)) => wait_captured_eq(c, native_out, 10_000),
        _ => vec![],
    };
    check(log, "released-native-output", out == native_out, format!("output {:?}, native {:?}", String::from_utf8_lossy(&out), String::from_utf8_lossy(native_out)));
    if code.is_some() {
        check(log, "released-native-status", code == native_code, format!("exit status {code:?}, native {native_code:?}"));
    }
}

fn inspect_gone(log: &mut iso::Log, pid: i32, what: &str) {
    let st = proc_state(pid);
    check(log, what, st.is_none(), format!("/proc/{pid} still exists, state {st:?} (Z = not reaped, others = orphan left running/stopped)"));
    if st.is_some() {
        // clean up without blocking: a tracee stuck in PTRACE_EVENT_EXIT never reports again
        let _ = nix::sys::signal::kill(Pid::from_raw(pid), nix::sys::signal::Signal::SIGKILL);
        for _ in 0..200 {
            match waitpid(Pid::from_raw(pid), Some(WaitPidFlag::WNOHANG)) {
                Ok(WaitStatus::StillAlive) => {
                    let _ = nix::sys::ptrace::cont(Pid::from_raw(pid), None);
                    std::thread::sleep(std::time::Duration::from_millis(5));
                }
                _ => break,
            }
        }
    }
}

fn counter_addr(bin: &Path) -> Option<u64> {
    let out = std::process::Command::new("nm").arg("-C").arg(bin).output().ok()?;
    String::from_utf8_lossy(&out.stdout).lines().find_map(|l| {
        let mut it = l.split_whitespace();
        let a = it.next()?;
        let _k = it.next()?;
        let n = it.next()?;
        if n.ends_with("::COUNTER") { u64::from_str_radix(a, 16).ok() } else { None }
    })
}

/// child side of a world history
fn world_child(log: &mut iso::Log, bin: &Path, scratch: &str, tag: &str, plan: &WorldPlan, native_out: &[u8], native_code: Option<i32>) {
    let src = "c11mt.rs";
    let flag = PathBuf::from(scratch).join(format!("{tag}.flag"));
    let _ = std::fs::remove_file(&flag);
    let events = e2e::Events::default();
    // ---- bring the debugger up
    let mut ext_child: Option<std::process::Child> = None;
    let out_file = PathBuf::from(scratch).join(format!("{tag}.out"));
    let (mut dbg, captured, pid0) = if plan.attached {
        let of = std::fs::File::create(&out_file).unwrap();
        let child = std::process::Command::new(bin)
            .arg(plan.threads.to_string())
            .arg(&flag)
            .stdout(of.try_clone().unwrap())
            .stderr(of)
            .spawn()
            .expect("spawn sleeper");
        let pid = child.id() as i32;
        ext_child = Some(child);
        std::thread::sleep(std::time::Duration::from_millis(60));
        let (_r, w) = os_pipe::pipe().unwrap();
        bugstalker::debugger::rust::Environment::init(None);
        let d = DebuggerBuilder::<Hooks>::new().with_hooks(Hooks(events.clone())).build_attached(Pid::from_raw(pid), w.try_clone().unwrap(), w);
        match d {
            Ok(d) => (d, None, pid),
            Err(e) => {
                log.put(json!({"ev": "error", "what": format!("attach: {e}")}));
                let _ = ext_child.unwrap().kill();
                return;
            }
        }
    } else {
        match e2e::launch(bin, &[plan.threads.to_string()]) {
            Ok(s) => {
                let pid = s.pid.as_raw();
                let e2e::Session { dbg, events: ev, out, .. } = s;
                // share the event list
                let _ = ev;
                (dbg, Some(out), pid)
            }
            Err(e) => {
                log.put(json!({"ev": "error", "what": format!("launch: {e}")}));
                return;
            }
        }
    };
    // e2e::launch installs its own hooks object: re-install ours so that we see the events
    dbg.set_hook(Hooks(events.clone()));
    log.put(json!({"ev": "up", "pid": pid0, "attached": plan.attached}));
    // ---- history
    let mut exited = false;
    let mut exit_code: Option<i32> = None;
    if plan.n_bps >= 1 {
        let r = dbg.set_breakpoint_at_line(src, MT_LINE_TICK).map(|v| v.len());
        log.put(json!({"ev": "break", "what": "tick line", "res": format!("{r:?}")}));
    }
    if plan.n_bps >= 2 {
        let r = dbg.set_breakpoint_at_fn("worker").map(|v| v.len());
        log.put(json!({"ev": "break", "what": "worker", "res": format!("{:?}", r.map_err(|e| e.to_string()))}));
    }
    let started = plan.stop != StopKind::NotStarted;
    if started {
        let want_exit = plan.stop == StopKind::AfterExit;
        if want_exit {
            // run to the end: no breakpoints in the way
            for v in dbg.breakpoints_snapshot().iter().map(|v| v.number).collect::<Vec<_>>() {
                let _ = dbg.remove_breakpoint_by_number(v);
            }
            let _ = std::fs::write(&flag, b"go");
        }
        let rounds = if want_exit { 200 } else { 1 + plan.continues };
        for k in 0..rounds {
            let r = if !plan.attached && k == 0 { dbg.start_debugee_with_reason() } else { dbg.continue_debugee_with_reason() };
            match r {
                Ok(StopReason::DebugeeExit(c)) => {
                    exited = true;
                    exit_code = Some(c);
                    break;
                }
                Ok(StopReason::Breakpoint(_, _)) => {}
                Ok(o) => {
                    log.put(json!({"ev": "note", "what": format!("stop {o:?}")}));
                }
                Err(e) => {
                    log.put(json!({"ev": "error", "what": format!("run: {e}")}));
                    break;
                }
            }
        }
        if !exited && plan.watch {
            if let Some(a) = counter_addr(bin) {
                let r = dbg.set_watchpoint_on_memory(RelocatedAddress::from((a + leg_c01::PIE_BIAS) as usize), BreakSize::Bytes8, BreakCondition::DataWrites, false).map(|v| v.number);
                log.put(json!({"ev": "watch", "res": format!("{:?}", r.map_err(|e| e.to_string()))}));
            }
        }
        if !exited && plan.stop == StopKind::WorkerFocusBp {
            let main_pid = dbg.process().pid();
            let mut worker_stop = false;
            for _ in 0..40 {
                let focus = dbg.ecx().pid_on_focus();
                if focus != main_pid {
                    worker_stop = true;
                    break;
                }
                match dbg.continue_debugee_with_reason() {
                    Ok(StopReason::Breakpoint(_, _)) => {}
                    Ok(StopReason::DebugeeExit(c)) => {
                        exited = true;
                        exit_code = Some(c);
                        break;
                    }
                    Ok(o) => {
                        log.put(json!({"ev": "note", "what": format!("stop {o:?}")}));
                    }
                    Err(e) => {
                        log.put(json!({"ev": "error", "what": format!("run: {e}")}));
                        break;
                    }
                }
            }
            log.put(json!({"ev": "note", "what": format!("worker in focus: {worker_stop}")}));
            if worker_stop && !exited {
                let r = dbg.set_breakpoint_at_fn("finale").map(|v| v.len());
                log.put(json!({"ev": "break", "what": "finale (created with a worker thread in focus)", "res": format!("{:?}", r.map_err(|e| e.to_string()))}));
                for v in dbg.breakpoints_snapshot().iter().filter(|v| v.place.as_ref().map(|p| p.line_number == MT_LINE_TICK).unwrap_or(false)).map(|v| v.number).collect::<Vec<_>>() {
                    let _ = dbg.remove_breakpoint_by_number(v);
                }
                let _ = std::fs::write(&flag, b"go");
                match dbg.continue_debugee_with_reason() {
                    Ok(StopReason::Breakpoint(p, _)) => {
                        check(log, "finale-stop-by-main", p == main_pid, format!("stop at finale reported for thread {p}, main thread is {main_pid}"));
                    }
                    Ok(StopReason::DebugeeExit(c)) => {
                        exited = true;
                        exit_code = Some(c);
                        check(log, "finale-breakpoint-hit", false, "the program ran to its end: the breakpoint on `finale` was not hit".into());
                    }
                    Ok(o) => {
                        log.put(json!({"ev": "note", "what": format!("stop {o:?}")}));
                    }
                    Err(e) => {
                        log.put(json!({"ev": "error", "what": format!("run: {e}")}));
                    }
                }
            }
        }
        if !exited && plan.stop == StopKind::AfterStepi {
            for _ in 0..3 {
                if let Err(e) = dbg.stepi() {
                    log.put(json!({"ev": "note", "what": format!("stepi: {e}")}));
                }
                if std::env::var("C11_DUMP").is_ok() {
                    log.put(json!({"ev": "note", "what": format!("after stepi: {:?}", dbg.thread_state().map(|v| v.iter().map(|t| (t.thread.pid.as_raw(), t.in_focus, t.place.as_ref().map(|p| p.address))).collect::<Vec<_>>()).map_err(|e| e.to_string()))}));
                }
            }
        }
    }
    let pid = dbg.process().pid().as_raw();
    let n_threads_live = live_tids(pid).len();
    if std::env::var("C11_DUMP").is_ok() {
        log.put(json!({"ev": "note", "what": format!("all tasks: {:?}", e2e::kernel_tids(Pid::from_raw(pid)).iter().map(|t| (*t, e2e::task_state(Pid::from_raw(pid), *t))).collect::<Vec<_>>())}));
        for t in live_tids(pid) {
            let sc = std::fs::read_to_string(format!("/proc/{pid}/task/{t}/syscall")).unwrap_or_default();
            log.put(json!({"ev": "note", "what": format!("tid {t} state {:?} syscall {}", e2e::task_state(Pid::from_raw(pid), t), sc.trim())}));
        }
        log.put(json!({"ev": "note", "what": format!("dbg threads {:?}", dbg.thread_state().map(|v| v.iter().map(|t| (t.thread.pid.as_raw(), t.place.as_ref().map(|p| p.address))).collect::<Vec<_>>()).map_err(|e| e.to_string()))}));
    }
    log.put(json!({"ev": "before_end", "pid": pid, "exited": exited, "threads": n_threads_live, "exit_code": exit_code,
        "bps": dbg.breakpoints_snapshot().len()}));
    if exited {
        check(log, "exit-code-native", exit_code == native_code, format!("exit hook / stop reason gave {exit_code:?}, native status {native_code:?}"));
    }
    // ---- the ending
    log.put(json!({"ev": "ending", "what": format!("{:?}", plan.ending)}));
    if plan.ending == Ending::DetachDrop {
        let r = dbg.detach();
        log.put(json!({"ev": "detach", "res": format!("{:?}", r.map_err(|e| e.to_string()))}));
    }
    drop(dbg);
    log.put(json!({"ev": "dropped"}));
    // ---- the world
    if exited {
        std::thread::sleep(std::time::Duration::from_millis(10));
        inspect_gone(log, pid, "exited-process-reaped");
        let out: Vec<u8> = match &captured {
            Some(c) => wait_captured_eq(c, native_out, 10_000),
            None => std::fs::read(&out_file).unwrap_or_default(),
        };
        check(log, "exited-native-output", out == native_out, format!("output {:?}, native {:?}", String::from_utf8_lossy(&out), String::from_utf8_lossy(native_out)));
    } else if plan.attached {
        // (in the worker-focus plan the flag is already written: the released program may simply run to its end)
        let held_by = if plan.stop == StopKind::WorkerFocusBp { None } else { Some(flag.as_path()) };
        inspect_released(log, pid, bin, held_by, Some(&out_file), None, native_out, native_code, true);
    } else if plan.ending == Ending::Drop {
        inspect_gone(log, pid, "launched-no-process-left");
    } else {
        // detach of a launched debuggee, then quit
        let st = proc_state(pid);
        check(log, "launched-detach-no-process-left", st.is_none(), format!("after detach + drop the launched program is still there: /proc/{pid} state {st:?}"));
        if st.is_some() && st != Some('Z') {
            inspect_released(log, pid, bin, None, None, captured.as_ref(), native_out, native_code, true);
        } else if st == Some('Z') {
            let _ = waitpid(Pid::from_raw(pid), None);
        }
    }
    if let Some(mut c) = ext_child {
        let _ = c.kill();
        let _ = c.wait();
    }
    let _ = std::fs::remove_file(&flag);
    let _ = std::fs::remove_file(&out_file);
}

// ------------------------------------------------------------------------------------------
// restart histories on generated programs

#[derive(Clone, Debug)]
pub enum ROp {
    Add(u64),
    Continue,
    Restart,
}

fn view_addr(a: &Address, bias: u64) -> u64 {
    match a {
        Address::Relocated(r) => r.as_usize() as u64,
        Address::Global(g) => usize::from(*g) as u64 + bias,
    }
}

fn restart_child(log: &mut iso::Log, bin: &Path, ops: &[ROp], bias: u64) {
    let mut s = match e2e::launch(bin, &[]) {
        Ok(s) => s,
        Err(e) => {
            log.put(json!({"ev": "error", "what": format!("launch: {e}")}));
            return;
        }
    };
    let mut pids: Vec<i32> = vec![s.pid.as_raw()];
    let mut started = false;
    let mut exited = false;
    let snap = |s: &e2e::Session| -> Vec<Value> {
        s.dbg.breakpoints_snapshot().iter().map(|v| json!({"num": v.number, "addr": view_addr(&v.addr, bias), "line": v.place.as_ref().map(|p| p.line_number)})).collect()
    };
    let stops = |s: &e2e::Session| -> Vec<Value> {
        s.events.take().iter().filter_map(|e| match e {
            Ev::Breakpoint { pc, num, line, .. } => Some(json!({"t": "bp", "pc": pc, "num": num, "line": line})),
            Ev::Exit(c) => Some(json!({"t": "exit", "code": c})),
            _ => None,
        }).collect()
    };
    for (k, op) in ops.iter().enumerate() {
        match op {
            ROp::Add(a) => {
                let r = s.dbg.set_breakpoint_at_addr(RelocatedAddress::from(*a as usize)).map(|v| v.number);
                log.put(json!({"ev": "op", "k": k, "op": "add", "addr": a, "res": format!("{:?}", r.as_ref().map_err(|e| e.to_string())), "num": r.ok()}));
            }
            ROp::Continue => {
                let r = if !started { s.dbg.start_debugee_with_reason() } else { s.dbg.continue_debugee_with_reason() };
                started = true;
                if matches!(r, Ok(StopReason::DebugeeExit(_))) {
                    exited = true;
                }
                log.put(json!({"ev": "op", "k": k, "op": "continue", "res": format!("{:?}", r.as_ref().map_err(|e| e.to_string())), "stops": stops(&s), "snap": snap(&s)}));
            }
            ROp::Restart => {
                let before = snap(&s);
                let r = s.dbg.start_debugee_force_with_reason();
                started = true;
                exited = false;
                let st = stops(&s);
                if st.iter().any(|x| x["t"] == "exit") {
                    exited = true;
                }
                let np = s.pid_now().as_raw();
                pids.push(np);
                log.put(json!({"ev": "op", "k": k, "op": "restart", "res": format!("{:?}", r.as_ref().map_err(|e| e.to_string())), "stops": st, "before": before, "snap": snap(&s), "pid": np}));
            }
        }
    }
    let _ = exited;
    drop(s.dbg);
    std::thread::sleep(std::time::Duration::from_millis(10));
    for p in pids {
        inspect_gone(log, p, "restart-no-process-left");
    }
    log.put(json!({"ev": "stdout", "text": String::from_utf8_lossy(&s.out.lock().unwrap()).to_string()}));
}

pub fn run(args: &[String]) -> i32 {
    let seed: u64 = args.first().and_then(|s| s.parse().ok()).unwrap_or(1);
    let n_world: usize = args.get(1).and_then(|s| s.parse().ok()).unwrap_or(24);
    let out_dir = args.get(2).cloned().unwrap_or_else(|| "../coq/cases".into());
    let scratch = args.get(3).cloned().unwrap_or_else(|| "/verif/.scratch/c11".into());
    let n_progs: usize = args.get(4).and_then(|s| s.parse().ok()).unwrap_or(2);
    let hist_per_prog: usize = args.get(5).and_then(|s| s.parse().ok()).unwrap_or(6);
    let mut rng = Rng::new(seed ^ 0xC11);
    let mut hist: BTreeMap<String, u64> = BTreeMap::new();
    let mut errors: Vec<String> = vec![];
    let mut failures: Vec<Value> = vec![];
    let mut samples: Vec<Value> = vec![];
    let mut seen = HashSet::new();
    let (mut n_cases, mut nontrivial, mut n_checks) = (0usize, 0usize, 0usize);
    let mut files: Vec<String> = vec![];
    let mut case_meta: Vec<Value> = vec![];

    // ---------------- world histories ----------------
    match e2e::compile(&scratch, "c11mt", MT_SRC, &[], None) {
        Ok(bin) => {
            let flag_native = PathBuf::from(&scratch).join("native.flag");
            let _ = std::fs::write(&flag_native, b"go");
            let mut natives: BTreeMap<u64, (Vec<u8>, Option<i32>)> = BTreeMap::new();
            for t in [0u64, 3] {
                natives.insert(t, reftrace::native_run(&bin, &[t.to_string(), flag_native.to_string_lossy().to_string()]));
            }
            // the full grid first, then random fill
            let mut plans: Vec<WorldPlan> = vec![];
            for attached in [false, true] {
                for threads in [0u64, 3] {
                    for stop in [StopKind::NotStarted, StopKind::AtBreakpoint, StopKind::AfterStepi, StopKind::AfterExit] {
                        for ending in [Ending::Drop, Ending::DetachDrop] {
                            if attached && stop == StopKind::NotStarted {
                                // an attached process is "started" by definition: the stop right after attaching
                                plans.push(WorldPlan { attached, threads, stop: StopKind::NotStarted, ending: ending.clone(), n_bps: 1, watch: false, continues: 0 });
                                continue;
                            }
                            plans.push(WorldPlan { attached, threads, stop: stop.clone(), ending: ending.clone(), n_bps: 1, watch: stop == StopKind::AtBreakpoint, continues: 1 });
                        }
                    }
                }
            }
            for ending in [Ending::Drop, Ending::DetachDrop] {
                plans.push(WorldPlan { attached: true, threads: 3, stop: StopKind::WorkerFocusBp, ending: ending.clone(), n_bps: 1, watch: false, continues: 0 });
            }
            let grid = plans.len();
            while plans.len() < n_world.max(grid) {
                let stop = rng.pick(&[StopKind::NotStarted, StopKind::AtBreakpoint, StopKind::AtBreakpoint, StopKind::AfterStepi, StopKind::AfterExit]).clone();
                plans.push(WorldPlan { attached: rng.chance(1, 2), threads: *rng.pick(&[0, 3]), stop, ending: rng.pick(&[Ending::Drop, Ending::DetachDrop]).clone(),
                    n_bps: rng.range(0, 2), watch: rng.chance(1, 2), continues: rng.range(0, 6) });
            }
            plans.truncate(n_world.max(1));
            // stress tail: multi-threaded attached histories repeated while spinner threads keep every core busy
            // (a trap raised but not yet reported at the moment of the release needs a loaded machine to show)
            let n_stress: usize = args.get(6).and_then(|s| s.parse().ok()).unwrap_or(0);
            let stress_from = plans.len();
            for k in 0..n_stress {
                let stop = if k % 2 == 0 { StopKind::AfterStepi } else { StopKind::AtBreakpoint };
                plans.push(WorldPlan { attached: true, threads: 3, stop, ending: if k % 4 < 2 { Ending::Drop } else { Ending::DetachDrop }, n_bps: 1, watch: false, continues: 1 + (k as u64 % 3) });
            }
            let spin_stop = std::sync::Arc::new(std::sync::atomic::AtomicBool::new(false));
            let mut spinners = vec![];
            let only: Option<usize> = std::env::var("C11_ONLY").ok().and_then(|v| v.parse().ok());
            let repeat: usize = std::env::var("C11_REPEAT").ok().and_then(|v| v.parse().ok()).unwrap_or(1);
            let plans: Vec<WorldPlan> = match only {
                Some(k) => std::iter::repeat(plans[k.min(plans.len() - 1)].clone()).take(repeat).collect(),
                None => plans,
            };
            for (wi, plan) in plans.iter().enumerate() {
                let tag = format!("w{wi}");
                if only.is_none() && wi == stress_from && n_stress > 0 {
                    let n = std::thread::available_parallelism().map(|n| n.get()).unwrap_or(8) + 4;
                    for _ in 0..n {
                        let st = spin_stop.clone();
                        spinners.push(std::thread::spawn(move || {
                            let mut x = 0u64;
                            while !st.load(std::sync::atomic::Ordering::Relaxed) {
                                x = std::hint::black_box(x.wrapping_add(1));
                            }
                        }));
                    }
                    *hist.entry("stress-histories".into()).or_default() += n_stress as u64;
                }
                let (nout, ncode) = natives.get(&plan.threads).cloned().unwrap_or_default();
                let bin2 = bin.clone();
                let plan2 = plan.clone();
                let scratch2 = scratch.clone();
                let tag2 = tag.clone();
                let res = iso::run_isolated(&scratch, &tag, 120_000, None, move |log| world_child(log, &bin2, &scratch2, &tag2, &plan2, &nout, ncode));
                n_cases += 1;
                let key = format!("{:?}", plan);
                let mut checks_here = 0;
                let mut phase = "setup".to_string();
                for l in &res.lines {
                    match l["ev"].as_str().unwrap_or("") {
                        "check" => {
                            n_checks += 1;
                            checks_here += 1;
                            *hist.entry(format!("check:{}", l["name"].as_str().unwrap_or("?"))).or_default() += 1;
                            if l["ok"] != true {
                                let name = l["name"].as_str().unwrap_or("?");
                                let who = if plan.attached { "attached" } else { "launched" };
                                failures.push(json!({"key": format!("c11-e2e:{who}:{name}"), "note": l["detail"], "plan": key}));
                            }
                        }
                        "error" => errors.push(format!("{tag} {key}: {}", l["what"].as_str().unwrap_or("?"))),
                        "panic" => {
                            let loc = l["loc"].as_str().unwrap_or("");
                            failures.push(json!({"key": format!("c11-e2e:panic:{}:{}", phase, loc.rsplit('/').next().unwrap_or(loc)), "note": l["msg"], "plan": key}));
                        }
                        "ending" => phase = "ending".into(),
                        "dropped" => phase = "after".into(),
                        _ => {}
                    }
                }
                if std::env::var("C11_DUMP").is_ok() && res.lines.iter().any(|l| l["ev"] == "check" && l["ok"] != true) {
                    for l in &res.lines {
                        eprintln!("DUMP {tag} {l}");
                    }
                    eprintln!("DUMP {tag} stderr: {}", res.stderr);
                }
                match &res.end {
                    End::Completed => {}
                    End::Timeout => failures.push(json!({"key": format!("c11-e2e:hang:{phase}"), "note": "history made no progress for 120 s", "plan": key})),
                    End::Crashed(w) => {
                        if !res.lines.iter().any(|l| l["ev"] == "panic") {
                            failures.push(json!({"key": format!("c11-e2e:crash:{phase}"), "note": format!("{w}: {}", res.stderr.chars().take(300).collect::<String>()), "plan": key}));
                        }
                    }
                }
                *hist.entry(format!("world:{}:{}:{:?}:{:?}", if plan.attached { "attached" } else { "launched" }, if plan.threads > 0 { "mt" } else { "st" }, plan.stop, plan.ending)).or_default() += 1;
                if seen.insert(key.clone()) && checks_here >= 1 {
                    nontrivial += 1;
                }
                if samples.len() < 2 && checks_here >= 4 {
                    samples.push(json!({"plan": key, "checks": res.lines.iter().filter(|l| l["ev"] == "check").map(|l| json!([l["name"], l["ok"]])).collect::<Vec<_>>()}));
                }
            }
            spin_stop.store(true, std::sync::atomic::Ordering::Relaxed);
            for h in spinners {
                let _ = h.join();
            }
        }
        Err(e) => errors.push(format!("compile mt: {e}")),
    }
    // (spinner threads, if any, are stopped inside the block above)

    // ---------------- restart histories ----------------
    let mut cases = CasesFile::new(&["Model.BpMachine"], "stop_case", "stop_check");
    for pi in 0..n_progs {
        let pseed = seed.wrapping_mul(1000) + 500 + pi as u64;
        let prog = match leg_c01::prepare(&scratch, pseed, &[], None) {
            Ok(p) => p,
            Err(e) => {
                errors.push(format!("prepare {pseed}: {e}"));
                continue;
            }
        };
        let mut freq: BTreeMap<u64, u64> = BTreeMap::new();
        for (pc, _) in &prog.trace {
            *freq.entry(*pc).or_default() += 1;
        }
        let all: Vec<u64> = freq.keys().copied().collect();
        let rare: Vec<u64> = freq.iter().filter(|(_, c)| **c <= 3).map(|(a, _)| *a).collect();
        if rare.is_empty() {
            errors.push(format!("{pseed}: empty trace"));
            continue;
        }
        let entry = std::fs::read(&prog.bin).ok().and_then(|b| b.get(24..32).map(|x| u64::from_le_bytes(x.try_into().unwrap()))).unwrap_or(0) + prog.bias;
        let mut used: BTreeSet<u64> = BTreeSet::new();
        let mut pending: Vec<(Vec<String>, Vec<String>, Value)> = vec![];
        for hi in 0..hist_per_prog {
            // ops: some breakpoints, some continues, a restart at a chosen kind of stop, continues to the end
            let nb = rng.range(1, 3);
            let mut ops: Vec<ROp> = vec![];
            for _ in 0..nb {
                ops.push(ROp::Add(if rng.chance(3, 4) { *rng.pick(&rare) } else { *rng.pick(&all) }));
            }
            let at = rng.below(3); // 0: restart before start, 1: at a breakpoint, 2: after exit
            match at {
                0 => {}
                1 => {
                    for _ in 0..rng.range(1, 3) {
                        ops.push(ROp::Continue);
                    }
                }
                _ => {
                    for _ in 0..14 {
                        ops.push(ROp::Continue);
                    }
                }
            }
            ops.push(ROp::Restart);
            if rng.chance(1, 3) {
                ops.push(ROp::Add(*rng.pick(&rare)));
            }
            for _ in 0..rng.range(1, 5) {
                ops.push(ROp::Continue);
            }
            if rng.chance(1, 3) {
                ops.push(ROp::Restart);
                ops.push(ROp::Continue);
            }
            let tag = format!("r{pseed}-{hi}");
            let bin2 = prog.bin.clone();
            let ops2 = ops.clone();
            let bias = prog.bias;
            let res = iso::run_isolated(&scratch, &tag, 120_000, None, move |log| restart_child(log, &bin2, &ops2, bias));
            n_cases += 1;
            *hist.entry(format!("restart-at:{}", ["not-started", "breakpoint", "after-exit"][at as usize])).or_default() += 1;
            let key = format!("{pseed}:{:?}", ops);
            let mut coq_ops: Vec<String> = vec![];
            let mut coq_stops: Vec<String> = vec![];
            let mut n_stops = 0;
            let mut usable = res.end == End::Completed;
            // the model stops continuing after the exit: drop `continue` ops given to an exited program
            for l in &res.lines {
                match l["ev"].as_str().unwrap_or("") {
                    "op" => {
                        let op = l["op"].as_str().unwrap_or("");
                        match op {
                            "add" => {
                                if let Some(a) = l["addr"].as_u64() {
                                    if l["num"].is_null() {
                                        usable = false;
                                        errors.push(format!("{tag}: break at {a:#x} refused: {}", l["res"]));
                                    }
                                    used.insert(a);
                                    coq_ops.push(format!("Add {}", cf::n(a as u128)));
                                }
                            }
                            "continue" => coq_ops.push("Continue".into()),
                            "restart" => {
                                coq_ops.push("Restart".into());
                                // numbers and places survive the restart
                                let strip = |v: &Value| -> Vec<(u64, u64, Option<u64>)> {
                                    v.as_array().map(|a| a.iter().map(|x| (x["num"].as_u64().unwrap_or(0), x["addr"].as_u64().unwrap_or(0), x["line"].as_u64())).collect()).unwrap_or_default()
                                };
                                n_checks += 1;
                                *hist.entry("check:restart-keeps-breakpoints".into()).or_default() += 1;
                                // same numbers at the same addresses, in the same order; a place that was
                                // known before must be the same place (a breakpoint given by address before
                                // the first run has no place yet)
                                let (b, a) = (strip(&l["before"]), strip(&l["snap"]));
                                let same = b.len() == a.len() && b.iter().zip(a.iter()).all(|(x, y)| x.0 == y.0 && x.1 == y.1 && (x.2.is_none() || x.2 == y.2));
                                if !same {
                                    failures.push(json!({"key": "c11-e2e:restart-keeps-breakpoints", "note": format!("before {} after {}", l["before"], l["snap"]), "plan": key}));
                                }
                            }
                            _ => {}
                        }
                        for st in l["stops"].as_array().cloned().unwrap_or_default() {
                            n_stops += 1;
                            if st["t"] == "bp" {
                                coq_stops.push(format!("StopBp {} {}", cf::n(st["pc"].as_u64().unwrap_or(0) as u128), cf::n(st["num"].as_u64().unwrap_or(0) as u128)));
                            } else {
                                coq_stops.push(format!("StopExit {}", cf::z(st["code"].as_i64().unwrap_or(0) as i128)));
                            }
                        }
                    }
                    "check" => {
                        n_checks += 1;
                        *hist.entry(format!("check:{}", l["name"].as_str().unwrap_or("?"))).or_default() += 1;
                        if l["ok"] != true {
                            failures.push(json!({"key": format!("c11-e2e:launched:{}", l["name"].as_str().unwrap_or("?")), "note": l["detail"], "plan": key}));
                        }
                    }
                    "error" => {
                        usable = false;
                        errors.push(format!("{tag}: {}", l["what"].as_str().unwrap_or("?")));
                    }
                    "panic" => {
                        usable = false;
                        let loc = l["loc"].as_str().unwrap_or("");
                        failures.push(json!({"key": format!("c11-e2e:panic:restart:{}", loc.rsplit('/').next().unwrap_or(loc)), "note": l["msg"], "plan": key}));
                    }
                    _ => {}
                }
            }
            if res.end != End::Completed && !res.lines.iter().any(|l| l["ev"] == "panic") {
                failures.push(json!({"key": "c11-e2e:restart-history-died", "note": format!("{:?} {}", res.end, res.stderr.chars().take(200).collect::<String>()), "plan": key}));
            }
            if usable {
                if seen.insert(key.clone()) && n_stops >= 2 {
                    nontrivial += 1;
                }
                if samples.len() < 3 {
                    samples.push(json!({"program_seed": pseed, "ops": coq_ops, "stops": coq_stops}));
                }
                pending.push((coq_ops, coq_stops, json!({"program_seed": pseed, "restart_at": at})));
            }
        }
        // collapse rep iterations; project on the used addresses; the entry point comes first
        let mut proj: Vec<u64> = vec![entry];
        let mut last: Option<u64> = None;
        for (pc, _) in &prog.trace {
            if Some(*pc) != last && used.contains(pc) {
                proj.push(*pc);
            }
            last = Some(*pc);
        }
        // the projection must not end with a breakpoint address: in the model the last position is the
        // instruction that ends the process (stepping over it is a different story: C02_exit_step_panics)
        proj.push(2);
        let tr_name = format!("tr{pi}");
        cases.prelude.push_str(&format!("Definition {tr_name} : list N := {}.\n", cf::list(&proj, |a| cf::n(*a as u128))));
        for (ops, stops, meta) in pending {
            cases.push(format!(
                "mk_stop_case {tr_name} {} 1 {} [{}] [{}]",
                cf::n(entry as u128),
                cf::z(prog.native_code.unwrap_or(0) as i128),
                ops.join("; "),
                stops.join("; ")
            ));
            case_meta.push(meta);
        }
        let _ = std::fs::remove_file(&prog.bin);
    }
    let shard = 50usize;
    if !cases.cases.is_empty() {
        files.extend(cases.write(&out_dir, "cases_C11", shard));
    }
    let mut fk: BTreeMap<String, u64> = BTreeMap::new();
    for f in &failures {
        *fk.entry(f["key"].as_str().unwrap_or("?").to_string()).or_default() += 1;
    }
    println!(
        "{}",
        json!({"leg": "c11-e2e", "seed": seed, "cases": n_cases, "distinct_nontrivial": nontrivial, "checks": n_checks, "coq_cases": cases.cases.len(),
            "histogram": hist, "failure_keys": fk, "samples": samples, "files": files, "errors": errors, "failures": failures,
            "case_meta": case_meta, "shard": shard})
    );
    0
}
