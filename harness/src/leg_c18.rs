//! C18 e2e leg: load-address handling of the real debugger.
//! Link modes of the executable: PIE / non-PIE (dynamic) / static non-PIE / static-PIE; a cdylib linked at
//! startup (DT_NEEDED + rpath) and a cdylib loaded, closed and re-loaded with dlopen/dlclose by a seeded script;
//! breakpoints (by function or by line) requested before start, before the library is loaded (deferred when
//! the API answers NoSuitablePlace) and after it is loaded; optionally with `ldd` unavailable (PATH emptied).
//! Ground truth, all taken by the harness itself: ELF symbols and PT_LOAD addresses (`object`), the real
//! stop pc (PTRACE_GETREGS), /proc/<pid>/maps.
use crate::coqfmt::{self as cf, CasesFile};
use crate::e2e::{self, Ev, MapEntry};
use crate::rng::Rng;
use bugstalker::debugger::Error;
use bugstalker::debugger::address::Address;
use object::{Object, ObjectSegment, ObjectSymbol};
use std::collections::{BTreeMap, HashMap, HashSet};
use std::path::{Path, PathBuf};
use std::process::Command;

pub const LIB_SRC: &str = r#"use std::hint::black_box;
#[no_mangle]
#[inline(never)]
pub extern "C" fn lib_add(a: u64, b: u64) -> u64 {
    let s = a.wrapping_add(b);
    black_box(s)
}
#[no_mangle]
#[inline(never)]
pub extern "C" fn lib_mul(a: u64, b: u64) -> u64 {
    let p = a.wrapping_mul(b | 1);
    black_box(p)
}
"#;

pub const DL_SRC: &str = r#"use std::hint::black_box;
#[no_mangle]
#[inline(never)]
pub extern "C" fn dl_twice(a: u64) -> u64 {
    let t = a.wrapping_mul(2);
    black_box(t)
}
#[no_mangle]
#[inline(never)]
pub extern "C" fn dl_inc(a: u64) -> u64 {
    let t = a.wrapping_add(1);
    black_box(t)
}
"#;

pub const MAIN_SRC: &str = r#"use std::ffi::{c_char, c_int, c_void, CString};
use std::hint::black_box;
extern "C" {
    fn dlopen(filename: *const c_char, flag: c_int) -> *mut c_void;
    fn dlsym(handle: *mut c_void, symbol: *const c_char) -> *mut c_void;
    fn dlclose(handle: *mut c_void) -> c_int;
}
#[cfg(feature = "startup_lib")]
#[link(name = "c18lib")]
extern "C" {
    fn lib_add(a: u64, b: u64) -> u64;
    fn lib_mul(a: u64, b: u64) -> u64;
}
#[inline(never)]
#[no_mangle]
pub extern "C" fn exe_work(a: u64) -> u64 {
    let w = a.wrapping_mul(3).wrapping_add(1);
    black_box(w)
}
#[inline(never)]
#[no_mangle]
pub extern "C" fn marker(step: u64) -> u64 {
    let m = step + 1;
    black_box(m)
}
fn main() {
    let script = std::env::args().nth(1).unwrap_or_default();
    let dlpath = std::env::args().nth(2).unwrap_or_default();
    let mut acc = 1u64;
    let mut handle: *mut c_void = std::ptr::null_mut();
    let mut step = 0u64;
    for c in script.chars() {
        match c {
            'e' => { acc = exe_work(acc); println!("call exe_work"); }
            #[cfg(feature = "startup_lib")]
            'a' => { acc = unsafe { lib_add(acc, 5) }; println!("call lib_add"); }
            #[cfg(feature = "startup_lib")]
            'u' => { acc = unsafe { lib_mul(acc, 5) }; println!("call lib_mul"); }
            'o' => {
                if handle.is_null() {
                    let p = CString::new(dlpath.clone()).unwrap();
                    handle = unsafe { dlopen(p.as_ptr(), 2) };
                    println!("dlopen {}", !handle.is_null());
                }
            }
            'c' => {
                if !handle.is_null() { let r = unsafe { dlclose(handle) }; println!("dlclose {}", r); handle = std::ptr::null_mut(); }
            }
            't' | 'i' => {
                if !handle.is_null() {
                    let name = CString::new(if c == 't' { "dl_twice" } else { "dl_inc" }).unwrap();
                    let f = unsafe { dlsym(handle, name.as_ptr()) };
                    if !f.is_null() {
                        let f: extern "C" fn(u64) -> u64 = unsafe { std::mem::transmute(f) };
                        acc = f(acc);
                        println!("call {}", name.to_str().unwrap());
                    }
                }
            }
            'm' => { step = marker(step); println!("marker {}", step); }
            _ => {}
        }
    }
    println!("acc={}", acc);
}
"#;

#[derive(Clone, Copy, PartialEq, Eq, Debug, Hash)]
pub enum Mode {
    Pie,
    NoPie,
    Static,
    StaticPie,
}

impl Mode {
    fn name(self) -> &'static str {
        match self {
            Mode::Pie => "pie",
            Mode::NoPie => "nopie",
            Mode::Static => "static",
            Mode::StaticPie => "staticpie",
        }
    }
    fn dynamic(self) -> bool {
        matches!(self, Mode::Pie | Mode::NoPie)
    }
}

/// What the harness itself reads from an ELF file.
pub struct Elf {
    pub canon: String,
    pub min_vaddr: u64,
    pub et_exec: bool,
    pub syms: HashMap<String, (u64, u64)>,
}

pub fn read_elf(path: &Path) -> Result<Elf, String> {
    let data = std::fs::read(path).map_err(|e| format!("{}: {e}", path.display()))?;
    let f = object::File::parse(&*data).map_err(|e| e.to_string())?;
    let min_vaddr = f.segments().map(|s| s.address()).min().unwrap_or(0) & !0xfff;
    let mut syms = HashMap::new();
    for s in f.symbols().chain(f.dynamic_symbols()) {
        if s.kind() == object::SymbolKind::Text && s.size() > 0 {
            if let Ok(n) = s.name() {
                syms.entry(n.to_string()).or_insert((s.address(), s.size()));
            }
        }
    }
    Ok(Elf {
        canon: path.canonicalize().map_err(|e| e.to_string())?.to_string_lossy().to_string(),
        min_vaddr,
        et_exec: f.kind() == object::ObjectKind::Executable,
        syms,
    })
}

impl Elf {
    /// where the image really is: lowest mapping start - lowest p_vaddr
    pub fn bias(&self, maps: &[MapEntry]) -> Option<u64> {
        let lo = maps.iter().filter(|m| m.path == self.canon).map(|m| m.start).min()?;
        lo.checked_sub(self.min_vaddr)
    }
    pub fn sym_at(&self, maps: &[MapEntry], pc: u64) -> Option<String> {
        let b = self.bias(maps)?;
        let g = pc.checked_sub(b)?;
        self.syms.iter().find(|(_, (a, sz))| g >= *a && g < a + sz).map(|(n, _)| n.clone())
    }
}

fn line_of(src: &str, needle: &str) -> u64 {
    src.lines().position(|l| l.contains(needle)).map(|i| i as u64 + 1).unwrap_or(0)
}

fn rustc(dir: &str, args: &[String]) -> std::process::Child {
    Command::new("rustc").current_dir(dir).args(["-g", "--edition=2021", "-A", "warnings"]).args(args).stderr(std::process::Stdio::piped()).spawn().expect("rustc")
}

fn wait_ok(mut c: std::process::Child, what: &str) -> Result<(), String> {
    let out = c.wait_with_output().map_err(|e| e.to_string())?;
    if out.status.success() { Ok(()) } else { Err(format!("{what}: {}", String::from_utf8_lossy(&out.stderr))) }
}

/// write a source only when it changed, so that the binaries of an earlier run in the same scratch are reused
fn put_src(dir: &str, name: &str, src: &str) -> bool {
    let p = Path::new(dir).join(name);
    if std::fs::read_to_string(&p).map(|s| s == src).unwrap_or(false) {
        return false;
    }
    std::fs::write(&p, src).unwrap();
    true
}

pub struct Built {
    pub lib: PathBuf,
    pub dl: PathBuf,
    pub mains: HashMap<Mode, PathBuf>,
}

pub fn build_all(dir: &str, modes: &[Mode]) -> Result<Built, String> {
    std::fs::create_dir_all(dir).map_err(|e| e.to_string())?;
    let d = Path::new(dir).canonicalize().map_err(|e| e.to_string())?;
    let dir = d.to_string_lossy().to_string();
    let c1 = put_src(&dir, "c18lib.rs", LIB_SRC);
    let c2 = put_src(&dir, "c18dl.rs", DL_SRC);
    let c3 = put_src(&dir, "c18main.rs", MAIN_SRC);
    let lib = d.join("libc18lib.so");
    let dl = d.join("libc18dl.so");
    let mut jobs = vec![];
    if c1 || !lib.exists() {
        jobs.push(("lib", rustc(&dir, &["--crate-type".into(), "cdylib".into(), "-o".into(), "libc18lib.so".into(), "c18lib.rs".into()])));
    }
    if c2 || !dl.exists() {
        jobs.push(("dl", rustc(&dir, &["--crate-type".into(), "cdylib".into(), "-o".into(), "libc18dl.so".into(), "c18dl.rs".into()])));
    }
    // the startup library must exist before the executables are linked against it
    let mut rest = vec![];
    for (w, j) in jobs {
        if w == "lib" { wait_ok(j, "libc18lib")?; } else { rest.push(j); }
    }
    let mut mains = HashMap::new();
    let mut mjobs = vec![];
    for m in modes {
        let out = d.join(format!("c18main_{}", m.name()));
        if c3 || c1 || !out.exists() {
            let mut a: Vec<String> = vec!["-o".into(), out.to_string_lossy().to_string()];
            if m.dynamic() {
                a.extend(["--cfg".into(), "feature=\"startup_lib\"".into(), "-L".into(), dir.clone(), "-C".into(), format!("link-arg=-Wl,-rpath,{dir}")]);
            }
            match m {
                Mode::Pie => {}
                Mode::NoPie => a.extend(["-C".into(), "relocation-model=static".into()]),
                Mode::Static => a.extend(["-C".into(), "relocation-model=static".into(), "-C".into(), "target-feature=+crt-static".into()]),
                Mode::StaticPie => a.extend(["-C".into(), "target-feature=+crt-static".into()]),
            }
            a.push("c18main.rs".into());
            mjobs.push(rustc(&dir, &a));
        }
        mains.insert(*m, out);
    }
    for j in rest { wait_ok(j, "libc18dl")?; }
    for j in mjobs { wait_ok(j, "c18main")?; }
    Ok(Built { lib, dl, mains })
}

#[derive(Clone, Copy, PartialEq, Eq, Debug)]
enum Timing {
    BeforeStart,
    AtMarker(usize),
}

#[derive(Clone, Debug)]
struct Plan {
    func: &'static str,
    file: &'static str,
    line: u64,
    by_line: bool,
    timing: Timing,
}

/// seeded script of the debuggee: e exe_work, a lib_add, u lib_mul, o dlopen, c dlclose, t dl_twice, i dl_inc, m marker
fn gen_script(rng: &mut Rng, dynamic: bool) -> String {
    let mut s = String::from("m");
    let mut open = false;
    let n = rng.range(6, 16);
    let mut since_marker = 0;
    for _ in 0..n {
        let ops: &[char] = if dynamic { &['e', 'a', 'u', 'o', 'c', 't', 'i', 'm', 't', 'a'] } else { &['e', 'm', 'e'] };
        let mut c = *rng.pick(ops);
        if c == 'o' && open { c = 't'; }
        if c == 'c' && !open { c = 'o'; }
        if c == 'o' { open = true; }
        if c == 'c' { open = false; }
        s.push(c);
        since_marker += 1;
        if (c == 'o' || c == 'c' || since_marker >= 4) && rng.chance(2, 3) {
            s.push('m');
            since_marker = 0;
        }
    }
    if dynamic && !s.contains('o') {
        s.push_str("motim");
    }
    s.push('e');
    s
}

fn fn_of_op(c: char) -> Option<&'static str> {
    match c { 'e' => Some("exe_work"), 'a' => Some("lib_add"), 'u' => Some("lib_mul"), 't' => Some("dl_twice"), 'i' => Some("dl_inc"), 'm' => Some("marker"), _ => None }
}

/// the stops that must happen: every call of a function with an active request, in program order
fn expected_stops(script: &str, plans: &[Plan]) -> Vec<String> {
    let mut out = vec![];
    let mut open = false;
    let mut markers = 0usize;
    let active = |f: &str, markers: usize| plans.iter().any(|p| p.func == f && match p.timing { Timing::BeforeStart => true, Timing::AtMarker(k) => k <= markers });
    for c in script.chars() {
        match c {
            'o' => open = true,
            'c' => open = false,
            'm' => { markers += 1; out.push("marker".to_string()); }
            't' | 'i' => { if open && active(fn_of_op(c).unwrap(), markers) { out.push(fn_of_op(c).unwrap().to_string()); } }
            _ => { if let Some(f) = fn_of_op(c) { if active(f, markers) { out.push(f.to_string()); } } }
        }
    }
    out
}

struct Interner(Vec<String>);
impl Interner {
    fn id(&mut self, p: &str) -> u128 {
        let c = std::fs::canonicalize(p).map(|x| x.to_string_lossy().to_string()).unwrap_or_else(|_| p.to_string());
        if let Some(i) = self.0.iter().position(|x| *x == c) { return i as u128 + 1; }
        self.0.push(c);
        self.0.len() as u128
    }
}

fn pmaps_term(it: &mut Interner, maps: &[MapEntry]) -> String {
    let ids: Vec<Option<u128>> = maps.iter().map(|m| if m.path.is_empty() { None } else { Some(it.id(&m.path)) }).collect();
    let rows: Vec<(Option<u128>, u64, u64)> = maps.iter().zip(ids).map(|(m, i)| (i, m.start, m.end - m.start)).collect();
    cf::list(&rows, |(f, a, sz)| format!("(mk_pmap {} {} {})", cf::option(f, |x| cf::n(*x)), cf::n(*a as u128), cf::n(*sz as u128)))
}

struct Collector {
    cases: CasesFile,
    meta: Vec<serde_json::Value>,
    seen: HashSet<String>,
    hist: BTreeMap<String, u64>,
    nontrivial: usize,
}

impl Collector {
    fn push(&mut self, case: String, meta: serde_json::Value, nontrivial: bool, class: &str) {
        if !self.seen.insert(case.clone()) {
            return;
        }
        *self.hist.entry(class.to_string()).or_default() += 1;
        if nontrivial { self.nontrivial += 1; }
        self.cases.push(case);
        self.meta.push(meta);
    }
}

/// cases (c) and (d) at one stop
fn collect_registry_cases(s: &e2e::Session, col: &mut Collector, rng: &mut Rng, mode: Mode, tag: &str, main_canon: &str, fails: &mut Vec<serde_json::Value>) {
    let pid = s.pid_now();
    let maps = e2e::proc_maps(pid);
    let mut it = Interner(vec![]);
    let main_id = it.id(main_canon);
    let dump = s.dbg.shared_libs();
    // (c) dump vs /proc/<pid>/maps
    let files: Vec<u128> = dump.iter().map(|r| it.id(&r.path.to_string_lossy())).collect();
    let real = cf::list(&dump, |r| {
        let id = it_id_ro(&it, &r.path.to_string_lossy());
        match &r.range {
            Some(rg) => format!("({}, Some ({}, {}))", cf::n(id), cf::n(rg.from.as_usize() as u128), cf::n(rg.to.as_usize() as u128)),
            None => format!("({}, None)", cf::n(id)),
        }
    });
    let maps_t = pmaps_term(&mut it, &maps);
    let case = format!("CMaps (mk_maps_case {} {} {} {})", cf::n(main_id), cf::list(&files, |f| cf::n(*f)), maps_t, real);
    col.push(case, serde_json::json!({"kind": "maps", "mode": mode.name(), "at": tag, "files": dump.len()}), dump.len() >= 3, &format!("maps:{}", mode.name()));
    // `sharedlib info` lists exactly the mapped objects (objects = files with an executable mapping)
    let mapped: HashSet<String> = maps.iter().filter(|m| m.path.starts_with('/') && m.perms.contains('x')).map(|m| m.path.clone()).collect();
    let listed: HashSet<String> = dump.iter().filter(|r| r.range.is_some()).map(|r| std::fs::canonicalize(&r.path).map(|p| p.to_string_lossy().to_string()).unwrap_or_default()).collect();
    if mapped != listed {
        let mut missing: Vec<_> = mapped.difference(&listed).cloned().collect();
        let mut extra: Vec<_> = listed.difference(&mapped).cloned().collect();
        missing.sort();
        extra.sort();
        fails.push(serde_json::json!({"key": "sharedlib-list", "mode": mode.name(), "at": tag, "mapped_not_listed": missing, "listed_not_mapped": extra}));
    }
    // (d) lookups at range starts / ends / inside
    let mut ranges: Vec<(u128, u64, u64)> = dump.iter().filter_map(|r| r.range.as_ref().map(|rg| (it_id_ro(&it, &r.path.to_string_lossy()), rg.from.as_usize() as u64, rg.to.as_usize() as u64))).collect();
    ranges.sort_by_key(|r| r.1);
    let mappings: Vec<(u128, u64)> = s.dbg.verif_mappings().iter().map(|(p, o)| (it.id(&p.to_string_lossy()), *o as u64)).collect();
    let ranges_t = cf::list(&ranges, |(f, a, b)| format!("(mk_rrange {} {} {})", cf::n(*a as u128), cf::n(*b as u128), cf::n(*f)));
    let mut ms = mappings.clone();
    ms.sort();
    let maps_tt = cf::list(&ms, |(f, o)| format!("({}, {})", cf::n(*f), cf::n(*o as u128)));
    let mut probes: Vec<(u64, &str)> = vec![(0, "zero"), (u64::MAX >> 1, "high")];
    for (_, a, b) in &ranges {
        probes.push((a.wrapping_sub(1), "start-1"));
        probes.push((*a, "start"));
        probes.push((a + 1, "start+1"));
        probes.push((a + (b - a) / 2, "inside"));
        probes.push((b - 1, "end-1"));
        probes.push((*b, "end"));
        probes.push((b + 1, "end+1"));
    }
    if let (Some(lo), Some(hi)) = (ranges.first().map(|r| r.1), ranges.last().map(|r| r.2)) {
        for _ in 0..6 {
            probes.push((rng.range(lo.saturating_sub(0x10000), hi + 0x10000), "random"));
        }
    }
    for (a, what) in probes {
        let real = s.dbg.verif_mapping_offset_for_pc(a as usize).map(|o| o as u64);
        let case = format!("CReloc (mk_reloc_case {} {} {} {})", ranges_t, maps_tt, cf::n(a as u128), cf::option(&real, |o| cf::n(*o as u128)));
        col.push(case, serde_json::json!({"kind": "reloc", "mode": mode.name(), "at": tag, "probe": what, "addr": format!("{a:#x}")}), what != "zero" && what != "high", &format!("reloc:{what}"));
    }
}

fn it_id_ro(it: &Interner, p: &str) -> u128 {
    let c = std::fs::canonicalize(p).map(|x| x.to_string_lossy().to_string()).unwrap_or_else(|_| p.to_string());
    it.0.iter().position(|x| *x == c).map(|i| i as u128 + 1).unwrap_or(0)
}

/// case (a): link-time address g of `elf`, relocated by the debugger to `real`
fn relocate_case(col: &mut Collector, elf: &Elf, maps: &[MapEntry], g: u64, real: Option<u64>, mode: Mode, what: &str, func: &str) {
    let mut it = Interner(vec![]);
    let f = it.id(&elf.canon);
    let case = format!(
        "CRelocate (mk_relocate_case (mk_image {} {}) {} {} {})",
        cf::n(f), cf::n(elf.min_vaddr as u128), pmaps_term(&mut it, maps), cf::n(g as u128), cf::option(&real, |o| cf::n(*o as u128))
    );
    col.push(case, serde_json::json!({"kind": "relocate", "mode": mode.name(), "what": what, "func": func, "et_exec": elf.et_exec, "g": format!("{g:#x}"), "real": real.map(|r| format!("{r:#x}"))}),
        true, &format!("relocate:{}:{}", mode.name(), what));
}

pub fn run(args: &[String]) -> i32 {
    let seed: u64 = args.first().and_then(|s| s.parse().ok()).unwrap_or(1);
    let count: usize = args.get(1).and_then(|s| s.parse().ok()).unwrap_or(8);
    let out_dir = args.get(2).cloned().unwrap_or_else(|| "../coq/cases".into());
    let scratch = args.get(3).cloned().unwrap_or_else(|| "/verif/.scratch/c18".into());
    let only_mode = args.get(4).cloned();
    let mut rng = Rng::new(seed ^ 0xC18);
    let modes = [Mode::Pie, Mode::NoPie, Mode::Static, Mode::StaticPie];
    let built = match build_all(&scratch, &modes) {
        Ok(b) => b,
        Err(e) => {
            eprintln!("build failed: {e}");
            return 3;
        }
    };
    let lib_elf = read_elf(&built.lib).unwrap();
    let dl_elf = read_elf(&built.dl).unwrap();
    let main_elfs: HashMap<Mode, Elf> = modes.iter().map(|m| (*m, read_elf(&built.mains[m]).unwrap())).collect();
    let prelude = "Inductive c18_case := CReloc (c : reloc_case) | CMaps (c : maps_case) | CRelocate (c : relocate_case).\n\
        Definition c18_check (c : c18_case) : N := match c with CReloc x => reloc_check x | CMaps x => maps_check x | CRelocate x => relocate_check x end.";
    let mut cases = CasesFile::new(&["Model.Reloc"], "c18_case", "c18_check");
    cases.prelude = prelude.into();
    let mut col = Collector { cases, meta: vec![], seen: HashSet::new(), hist: BTreeMap::new(), nontrivial: 0 };
    let mut errors: Vec<String> = vec![];
    let mut fails: Vec<serde_json::Value> = vec![];
    let mut samples = vec![];
    let mut sessions = vec![];
    let saved_path = std::env::var("PATH").unwrap_or_default();
    let all_fns: [(&str, &str, u64); 5] = [
        ("exe_work", "c18main.rs", line_of(MAIN_SRC, "let w = ")),
        ("lib_add", "c18lib.rs", line_of(LIB_SRC, "let s = ")),
        ("lib_mul", "c18lib.rs", line_of(LIB_SRC, "let p = ")),
        ("dl_twice", "c18dl.rs", line_of(DL_SRC, "let t = a.wrapping_mul")),
        ("dl_inc", "c18dl.rs", line_of(DL_SRC, "let t = a.wrapping_add")),
    ];
    for case_no in 0..count {
        let mode = match only_mode.as_deref() {
            Some("pie") => Mode::Pie,
            Some("nopie") => Mode::NoPie,
            Some("static") => Mode::Static,
            Some("staticpie") => Mode::StaticPie,
            _ => match case_no % 6 { 0 | 3 => Mode::Pie, 1 | 4 => Mode::NoPie, 2 => Mode::Static, _ => Mode::StaticPie },
        };
        let noldd = mode.dynamic() && case_no % 4 == 3;
        let mut script = gen_script(&mut rng, mode.dynamic());
        if noldd {
            // without the ldd pre-scan a request made before start in the startup library is deferred; the library
            // is called before any dlopen
            script.insert(1, 'a');
        }
        let n_markers = script.matches('m').count();
        // requests: every function gets one with probability 3/4; timing before start or at a marker stop
        let mut plans: Vec<Plan> = vec![];
        for (f, file, line) in all_fns.iter() {
            if !mode.dynamic() && *f != "exe_work" { continue; }
            if mode.dynamic() && !rng.chance(3, 4) { continue; }
            let timing = if rng.chance(2, 5) { Timing::BeforeStart } else { Timing::AtMarker(rng.range(1, n_markers as u64) as usize) };
            plans.push(Plan { func: f, file, line: *line, by_line: rng.chance(1, 3), timing });
        }
        if noldd && !plans.iter().any(|p| p.func == "lib_add") {
            plans.push(Plan { func: "lib_add", file: "c18lib.rs", line: all_fns[1].2, by_line: rng.chance(1, 3), timing: Timing::BeforeStart });
        } else if noldd {
            for p in plans.iter_mut().filter(|p| p.func == "lib_add") { p.timing = Timing::BeforeStart; }
        }
        let want = expected_stops(&script, &plans);
        let main_elf = &main_elfs[&mode];
        let bin = &built.mains[&mode];
        let desc = serde_json::json!({"mode": mode.name(), "noldd": noldd, "script": script,
            "requests": plans.iter().map(|p| format!("{}{}@{:?}", p.func, if p.by_line { format!("(line {}:{})", p.file, p.line) } else { String::new() }, p.timing)).collect::<Vec<_>>()});
        *col.hist.entry(format!("session:{}{}", mode.name(), if noldd { ":noldd" } else { "" })).or_default() += 1;
        if noldd {
            // the pre-scan of dependencies runs `ldd`: make it unavailable
            unsafe { std::env::set_var("PATH", "/nonexistent") };
        }
        // how the program spells the path it hands to dlopen: canonical, with `/./`, through `..`, or through a symlinked directory
        // (the dynamic linker reports the path as spelled; /proc/<pid>/maps shows the real file)
        let dl_abs = built.dl.to_string_lossy().to_string();
        let dl_dir = built.dl.parent().map(|p| p.to_string_lossy().to_string()).unwrap_or_default();
        let dl_name = built.dl.file_name().map(|p| p.to_string_lossy().to_string()).unwrap_or_default();
        let dir_name = std::path::Path::new(&dl_dir).file_name().map(|p| p.to_string_lossy().to_string()).unwrap_or_default();
        let spelling = rng.below(4);
        let dl_arg = match spelling {
            0 => dl_abs.clone(),
            1 => format!("{dl_dir}/./{dl_name}"),
            2 => format!("{dl_dir}/../{dir_name}/{dl_name}"),
            _ => {
                let link = format!("{dl_dir}_link");
                let _ = std::os::unix::fs::symlink(&dl_dir, &link);
                format!("{link}/{dl_name}")
            }
        };
        *col.hist.entry(format!("dlopen-path:{}", ["canonical", "dot", "dotdot", "symlinked-dir"][spelling as usize])).or_default() += 1;
        let launched = e2e::launch(bin, &[script.clone(), dl_arg]);
        unsafe { std::env::set_var("PATH", &saved_path) };
        let mut s = match launched {
            Ok(s) => s,
            Err(e) => {
                errors.push(format!("launch {}: {e}", mode.name()));
                continue;
            }
        };
        let mut got: Vec<String> = vec![];
        let mut outcomes: Vec<String> = vec![];
        // one request through the public API, the way the console does it: NoSuitablePlace -> deferred
        let mut request = |s: &mut e2e::Session, p: &Plan, outcomes: &mut Vec<String>| -> Vec<(String, Address)> {
            let r = if p.by_line { s.dbg.set_breakpoint_at_line(p.file, p.line) } else { s.dbg.set_breakpoint_at_fn(p.func) };
            match r {
                Ok(views) => {
                    outcomes.push(format!("{}:set({})", p.func, views.len()));
                    views.iter().map(|v| (p.func.to_string(), v.addr)).collect()
                }
                Err(Error::NoSuitablePlace) => {
                    if p.by_line { s.dbg.add_deferred_at_line(p.file, p.line) } else { s.dbg.add_deferred_at_function(p.func) }
                    outcomes.push(format!("{}:deferred", p.func));
                    vec![]
                }
                Err(e) => {
                    outcomes.push(format!("{}:error({e})", p.func));
                    vec![]
                }
            }
        };
        let marker_plan = Plan { func: "marker", file: "c18main.rs", line: 0, by_line: false, timing: Timing::BeforeStart };
        let mut views: Vec<(String, Address)> = request(&mut s, &marker_plan, &mut outcomes);
        for p in plans.iter().filter(|p| p.timing == Timing::BeforeStart) {
            views.extend(request(&mut s, p, &mut outcomes));
        }
        let mut res = s.dbg.start_debugee();
        let mut markers = 0usize;
        let mut start_failed = None;
        let mut steps = 0;
        loop {
            steps += 1;
            if steps > 200 { errors.push(format!("{}: too many stops", desc)); break; }
            if let Err(e) = &res {
                if got.is_empty() && markers == 0 { start_failed = Some(e.to_string()); } else { errors.push(format!("continue failed: {e} ({desc})")); }
                break;
            }
            let evs = s.events.take();
            if evs.iter().any(|e| matches!(e, Ev::Exit(_))) { break; }
            let Some(Ev::Breakpoint { func, .. }) = evs.iter().rev().find(|e| matches!(e, Ev::Breakpoint { .. })).cloned() else {
                errors.push(format!("unexpected stop {evs:?} ({desc})"));
                break;
            };
            let pid = s.pid_now();
            let maps = e2e::proc_maps(pid);
            let rip = nix::sys::ptrace::getregs(pid).map(|r| r.rip).unwrap_or(0);
            // where the process really is: the symbol that contains rip, from the ELF files and /proc/maps
            let here = [main_elf, &lib_elf, &dl_elf].iter().find_map(|e| e.sym_at(&maps, rip)).unwrap_or_else(|| format!("?{rip:#x}"));
            if func.as_deref().map(|f| f.rsplit("::").next().unwrap_or(f).to_string()) != Some(here.clone()) {
                fails.push(serde_json::json!({"key": "stop-function-name", "mode": mode.name(), "real": here, "reported": func}));
            }
            got.push(here.clone());
            if here == "marker" {
                markers += 1;
                for p in plans.iter().filter(|p| p.timing == Timing::AtMarker(markers)) {
                    views.extend(request(&mut s, p, &mut outcomes));
                }
            }
            collect_registry_cases(&s, &mut col, &mut rng, mode, &format!("stop {} in {}", got.len(), here), &main_elf.canon, &mut fails);
            // (a) every installed user breakpoint: the place's link-time address (DWARF) and the address the trap was
            // planted at, against the real position of the image; the place must lie inside the requested function
            for v in s.dbg.breakpoints_snapshot() {
                let (Address::Relocated(a), Some(place)) = (v.addr, v.place.as_ref()) else { continue };
                let a = a.as_usize() as u64;
                let g = usize::from(place.address) as u64;
                let src = place.file.file_name().map(|f| f.to_string_lossy().to_string()).unwrap_or_default();
                let elf = match src.as_str() { "c18main.rs" => main_elf, "c18lib.rs" => &lib_elf, "c18dl.rs" => &dl_elf, _ => continue };
                let Some(b) = elf.bias(&maps) else { continue };
                let sym = elf.syms.iter().find(|(_, (sv, sz))| g >= *sv && g < sv + sz).map(|(n, _)| n.clone());
                let fname = sym.clone().unwrap_or_default();
                if sym.is_none() || !(fname == "marker" || plans.iter().any(|p| p.func == fname)) {
                    fails.push(serde_json::json!({"key": "place-outside-function", "mode": mode.name(), "global": format!("{g:#x}"), "symbol": sym}));
                }
                if a != g + b {
                    fails.push(serde_json::json!({"key": format!("breakpoint-address:{}", mode.name()), "mode": mode.name(), "func": fname, "planted_at": format!("{a:#x}"), "really_at": format!("{:#x}", g + b)}));
                }
                relocate_case(&mut col, elf, &maps, g, Some(a), mode, "breakpoint", &fname);
            }
            // (a') the relocation function itself on symbol values and segment bounds
            for (elf, path) in [(main_elf, bin.as_path()), (&lib_elf, built.lib.as_path()), (&dl_elf, built.dl.as_path())] {
                if elf.bias(&maps).is_none() { continue; }
                let mut gs: Vec<(u64, String)> = vec![(elf.min_vaddr, "min_vaddr".into())];
                for (f, _, _) in all_fns.iter() {
                    if let Some((v, _)) = elf.syms.get(*f) { gs.push((*v, f.to_string())); }
                }
                // the registry keys files by the path it learnt (ldd / link map): try the plain path, then the listed one
                let listed: Vec<PathBuf> = s.dbg.shared_libs().iter().map(|r| r.path.clone()).filter(|p| std::fs::canonicalize(p).map(|c| c.to_string_lossy() == elf.canon).unwrap_or(false)).collect();
                let key = listed.first().cloned().unwrap_or_else(|| path.to_path_buf());
                for (g, f) in gs {
                    let real = s.dbg.verif_relocate(&key, g as usize).ok().map(|x| x as u64);
                    relocate_case(&mut col, elf, &maps, g, real, mode, "relocate_to_segment", &f);
                }
            }
            res = s.dbg.continue_debugee();
        }
        if let Some(e) = &start_failed {
            // the registry was refreshed at the exec stop: record what the relocation would have been
            let pid = s.pid_now();
            let maps = e2e::proc_maps(pid);
            if main_elf.bias(&maps).is_some() {
                for (f, (v, _)) in main_elf.syms.iter().filter(|(n, _)| ["marker", "exe_work"].contains(&n.as_str())) {
                    let real = s.dbg.verif_relocate(bin, *v as usize).ok().map(|x| x as u64);
                    relocate_case(&mut col, main_elf, &maps, *v, real, mode, "relocate_to_segment(after failed start)", f);
                }
            }
            fails.push(serde_json::json!({"key": format!("start-failed:{}", mode.name()), "mode": mode.name(), "error": e, "et_exec": main_elf.et_exec, "min_vaddr": format!("{:#x}", main_elf.min_vaddr)}));
        } else if got != want {
            // classify: which function's stops are missing / extra
            let mut key = "stops".to_string();
            let miss: Vec<&String> = want.iter().filter(|w| want.iter().filter(|x| x == w).count() > got.iter().filter(|x| x == w).count()).collect();
            let reopened = script.matches('o').count() > 1;
            if noldd && miss.iter().all(|m| m.starts_with("lib_")) && !miss.is_empty() { key = "stops:deferred-at-entry".into(); }
            else if reopened && miss.iter().all(|m| m.starts_with("dl_")) && !miss.is_empty() { key = "stops:after-reopen".into(); }
            fails.push(serde_json::json!({"key": key, "session": desc, "outcomes": outcomes, "want": want, "got": got}));
        }
        if samples.len() < 3 {
            samples.push(serde_json::json!({"session": desc, "outcomes": outcomes, "stops": got, "start_failed": start_failed}));
        }
        sessions.push(serde_json::json!({"session": desc, "stops": got.len(), "ok": start_failed.is_none() && got == want}));
        drop(s);
    }
    let shard = 150;
    let files = col.cases.write(&out_dir, "cases_C18_e2e", shard);
    println!(
        "{}",
        serde_json::json!({"leg": "c18-e2e", "seed": seed, "cases": col.cases.cases.len(), "distinct_nontrivial": col.nontrivial,
            "histogram": col.hist, "samples": samples, "files": files, "errors": errors, "behaviour_failures": fails,
            "sessions": sessions, "case_meta": col.meta, "shard": shard})
    );
    0
}
