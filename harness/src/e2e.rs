//! End-to-end infrastructure: compile a debuggee, drive the real `Debugger`, observe the
//! process independently (ptrace PEEKUSER, /proc/<pid>/mem, /proc/<pid>/task).
use bugstalker::debugger::address::RelocatedAddress;
use bugstalker::debugger::process::{Child, Installed};
use bugstalker::debugger::register::debug::BreakCondition;
use bugstalker::debugger::variable::value::Value;
use bugstalker::debugger::{Debugger, DebuggerBuilder, EventHook, FunctionInfo, PlaceDescriptor, rust};
use nix::sys::signal::Signal;
use nix::unistd::Pid;
use std::cell::RefCell;
use std::io::Read;
use std::path::{Path, PathBuf};
use std::process::Command;
use std::rc::Rc;
use std::sync::{Arc, Mutex};

#[derive(Clone, Debug)]
pub enum Ev {
    Breakpoint { pc: usize, num: u32, line: Option<u64>, file: Option<String>, func: Option<String> },
    Watchpoint { pc: usize, num: u32, line: Option<u64>, end_of_scope: bool, old: Option<String>, new: Option<String> },
    Step { pc: usize, line: Option<u64>, file: Option<String>, func: Option<String> },
    Signal(i32),
    Exit(i32),
}

#[derive(Clone, Default)]
pub struct Events(pub Rc<RefCell<Vec<Ev>>>);

impl Events {
    pub fn take(&self) -> Vec<Ev> {
        std::mem::take(&mut *self.0.borrow_mut())
    }
}

pub struct Hooks(pub Events);

fn place_parts(p: &Option<PlaceDescriptor>) -> (Option<u64>, Option<String>) {
    match p {
        Some(p) => (Some(p.line_number), Some(p.file.to_string_lossy().to_string())),
        None => (None, None),
    }
}

fn value_str(v: Option<&Value>) -> Option<String> {
    v.map(|v| format!("{:?}", v))
}

impl EventHook for Hooks {
    fn on_breakpoint(
        &self,
        pc: RelocatedAddress,
        num: u32,
        place: Option<PlaceDescriptor>,
        func: Option<&FunctionInfo>,
        _: Option<u32>,
    ) -> anyhow::Result<()> {
        let (line, file) = place_parts(&place);
        self.0.0.borrow_mut().push(Ev::Breakpoint {
            pc: pc.as_usize(),
            num,
            line,
            file,
            func: func.and_then(|f| f.name.clone()),
        });
        Ok(())
    }
    fn on_watchpoint(
        &self,
        pc: RelocatedAddress,
        num: u32,
        place: Option<PlaceDescriptor>,
        _: BreakCondition,
        _: Option<&str>,
        old: Option<&Value>,
        new: Option<&Value>,
        end_of_scope: bool,
    ) -> anyhow::Result<()> {
        let (line, _) = place_parts(&place);
        self.0.0.borrow_mut().push(Ev::Watchpoint {
            pc: pc.as_usize(),
            num,
            line,
            end_of_scope,
            old: value_str(old),
            new: value_str(new),
        });
        Ok(())
    }
    fn on_step(
        &self,
        pc: RelocatedAddress,
        place: Option<PlaceDescriptor>,
        func: Option<&FunctionInfo>,
        _: Option<u32>,
    ) -> anyhow::Result<()> {
        let (line, file) = place_parts(&place);
        self.0.0.borrow_mut().push(Ev::Step { pc: pc.as_usize(), line, file, func: func.and_then(|f| f.name.clone()) });
        Ok(())
    }
    fn on_async_step(
        &self,
        _: RelocatedAddress,
        _: Option<PlaceDescriptor>,
        _: Option<&FunctionInfo>,
        _: u64,
        _: bool,
    ) -> anyhow::Result<()> {
        Ok(())
    }
    fn on_signal(&self, s: Signal) {
        self.0.0.borrow_mut().push(Ev::Signal(s as i32));
    }
    fn on_exit(&self, code: i32) {
        self.0.0.borrow_mut().push(Ev::Exit(code));
    }
    fn on_process_install(&self, _: Pid, _: Option<&object::File>) {}
}

/// Compile `src` with rustc into `dir/name`; returns the binary path.
pub fn compile(dir: &str, name: &str, src: &str, extra: &[&str], toolchain: Option<&str>) -> Result<PathBuf, String> {
    std::fs::create_dir_all(dir).map_err(|e| e.to_string())?;
    let src_path = Path::new(dir).join(format!("{name}.rs"));
    std::fs::write(&src_path, src).map_err(|e| e.to_string())?;
    let bin = Path::new(dir).join(name);
    let mut cmd = Command::new("rustc");
    if let Some(tc) = toolchain {
        cmd.arg(format!("+{tc}"));
    }
    cmd.current_dir(dir)
        .arg("-g")
        .arg("--edition=2021")
        .arg("-A")
        .arg("warnings")
        .arg("-o")
        .arg(&bin)
        .args(extra)
        .arg(&src_path);
    let out = cmd.output().map_err(|e| e.to_string())?;
    if !out.status.success() {
        return Err(String::from_utf8_lossy(&out.stderr).to_string());
    }
    Ok(bin)
}

pub struct Session {
    pub dbg: Debugger,
    pub events: Events,
    pub out: Arc<Mutex<Vec<u8>>>,
    pub pid: Pid,
    _reader: std::thread::JoinHandle<()>,
}

pub fn launch(prog: &Path, args: &[String]) -> Result<Session, String> {
    let (mut reader, writer) = os_pipe::pipe().map_err(|e| e.to_string())?;
    let out = Arc::new(Mutex::new(Vec::new()));
    let out2 = out.clone();
    let handle = std::thread::spawn(move || {
        let mut buf = [0u8; 4096];
        loop {
            match reader.read(&mut buf) {
                Ok(0) | Err(_) => return,
                Ok(n) => out2.lock().unwrap().extend_from_slice(&buf[..n]),
            }
        }
    });
    rust::Environment::init(None);
    let template = Child::new(
        prog.to_string_lossy().to_string(),
        args.to_vec(),
        None::<&Path>,
        writer.try_clone().map_err(|e| e.to_string())?,
        writer,
    );
    let process: Child<Installed> = template.install().map_err(|e| format!("install: {e}"))?;
    drop(template);
    let pid = process.pid();
    let events = Events::default();
    let dbg = DebuggerBuilder::<Hooks>::new()
        .with_hooks(Hooks(events.clone()))
        .build(process)
        .map_err(|e| format!("build: {e}"))?;
    Ok(Session { dbg, events, out, pid, _reader: handle })
}

impl Session {
    pub fn stdout(&self) -> String {
        String::from_utf8_lossy(&self.out.lock().unwrap()).to_string()
    }
    /// wait (bounded) until the captured output contains `needle`
    pub fn wait_out(&self, needle: &str, ms: u64) -> bool {
        for _ in 0..ms {
            if self.stdout().contains(needle) {
                return true;
            }
            std::thread::sleep(std::time::Duration::from_millis(1));
        }
        false
    }
    /// wait (bounded, generous: the forwarder thread may be starved on a loaded machine) until the captured
    /// output equals `want`; returns what was captured when the wait ended
    pub fn wait_stdout_eq(&self, want: &[u8], ms: u64) -> Vec<u8> {
        let t0 = std::time::Instant::now();
        loop {
            let got = self.out.lock().unwrap().clone();
            if got == want || t0.elapsed() > std::time::Duration::from_millis(ms) {
                return got;
            }
            std::thread::sleep(std::time::Duration::from_millis(3));
        }
    }
    pub fn pid_now(&self) -> Pid {
        self.dbg.process().pid()
    }
}

/// thread ids of a process as the kernel lists them
pub fn kernel_tids(pid: Pid) -> Vec<i32> {
    let mut v: Vec<i32> = std::fs::read_dir(format!("/proc/{}/task", pid))
        .map(|rd| rd.filter_map(|e| e.ok()?.file_name().to_string_lossy().parse().ok()).collect())
        .unwrap_or_default();
    v.sort();
    v
}

/// state letter of a task (R, S, t, Z, ...)
pub fn task_state(pid: Pid, tid: i32) -> Option<char> {
    let s = std::fs::read_to_string(format!("/proc/{}/task/{}/stat", pid, tid)).ok()?;
    let rp = s.rfind(')')?;
    s[rp + 1..].trim_start().chars().next()
}

/// u_debugreg[n] of a stopped thread, read by the harness itself (we are the tracer)
pub fn peek_debugreg(tid: i32, n: usize) -> Result<u64, String> {
    let off = std::mem::offset_of!(libc::user, u_debugreg) + n * 8;
    nix::sys::ptrace::read_user(Pid::from_raw(tid), off as nix::sys::ptrace::AddressType)
        .map(|v| v as u64)
        .map_err(|e| e.to_string())
}

/// bytes of the process' memory through /proc/<pid>/mem (independent of ptrace PEEK)
pub fn proc_mem_read(pid: Pid, addr: u64, len: usize) -> Result<Vec<u8>, String> {
    use std::os::unix::fs::FileExt;
    let f = std::fs::File::open(format!("/proc/{}/mem", pid)).map_err(|e| e.to_string())?;
    let mut buf = vec![0u8; len];
    f.read_exact_at(&mut buf, addr).map_err(|e| e.to_string())?;
    Ok(buf)
}

#[derive(Clone, Debug)]
pub struct MapEntry {
    pub start: u64,
    pub end: u64,
    pub perms: String,
    pub offset: u64,
    pub path: String,
}

pub fn proc_maps(pid: Pid) -> Vec<MapEntry> {
    let s = std::fs::read_to_string(format!("/proc/{}/maps", pid)).unwrap_or_default();
    s.lines()
        .filter_map(|l| {
            let mut it = l.split_whitespace();
            let range = it.next()?;
            let perms = it.next()?.to_string();
            let offset = u64::from_str_radix(it.next()?, 16).ok()?;
            let _dev = it.next()?;
            let _inode = it.next()?;
            let path = it.next().unwrap_or("").to_string();
            let (a, b) = range.split_once('-')?;
            Some(MapEntry { start: u64::from_str_radix(a, 16).ok()?, end: u64::from_str_radix(b, 16).ok()?, perms, offset, path })
        })
        .collect()
}
