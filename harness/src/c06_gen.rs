//! C06: seeded generator of Rust debuggees that declare values from a recursive type grammar
//! (depth <= 3) and keep the ground-truth value tree of every variable.
use crate::rng::Rng;
use std::cmp::Ordering;
use std::collections::VecDeque;

#[derive(Clone, Copy, Debug, PartialEq, Eq)]
pub enum IntK { I8, I16, I32, I64, I128, Isize, U8, U16, U32, U64, U128, Usize }
pub const INT_KINDS: [IntK; 12] = [IntK::I8, IntK::I16, IntK::I32, IntK::I64, IntK::I128, IntK::Isize, IntK::U8, IntK::U16, IntK::U32, IntK::U64, IntK::U128, IntK::Usize];

impl IntK {
    pub fn name(self) -> &'static str {
        match self {
            IntK::I8 => "i8", IntK::I16 => "i16", IntK::I32 => "i32", IntK::I64 => "i64", IntK::I128 => "i128", IntK::Isize => "isize",
            IntK::U8 => "u8", IntK::U16 => "u16", IntK::U32 => "u32", IntK::U64 => "u64", IntK::U128 => "u128", IntK::Usize => "usize",
        }
    }
    pub fn bits(self) -> u32 {
        match self {
            IntK::I8 | IntK::U8 => 8, IntK::I16 | IntK::U16 => 16, IntK::I32 | IntK::U32 => 32,
            IntK::I64 | IntK::U64 | IntK::Isize | IntK::Usize => 64, IntK::I128 | IntK::U128 => 128,
        }
    }
    pub fn signed(self) -> bool {
        matches!(self, IntK::I8 | IntK::I16 | IntK::I32 | IntK::I64 | IntK::I128 | IntK::Isize)
    }
    /// value of the type from a raw bit pattern (truncation like `as`)
    pub fn from_bits(self, raw: u128) -> IntV {
        let b = self.bits();
        let m = if b == 128 { raw } else { raw & ((1u128 << b) - 1) };
        if self.signed() {
            let v = if b == 128 { m as i128 } else if m >> (b - 1) & 1 == 1 { (m as i128) - (1i128 << b) } else { m as i128 };
            IntV::S(v)
        } else {
            IntV::U(m)
        }
    }
}

#[derive(Clone, Copy, Debug, PartialEq, Eq, PartialOrd, Ord)]
pub enum IntV { S(i128), U(u128) }
impl IntV {
    pub fn dec(self) -> String {
        match self { IntV::S(v) => v.to_string(), IntV::U(v) => v.to_string() }
    }
    /// two's complement bit pattern in `bits` bits
    pub fn pattern(self, bits: u32) -> u128 {
        let raw = match self { IntV::S(v) => v as u128, IntV::U(v) => v };
        if bits == 128 { raw } else { raw & ((1u128 << bits) - 1) }
    }
}

#[derive(Clone, Debug, PartialEq)]
pub enum Ty {
    Int(IntK), F32, F64, Bool, Char, Unit,
    Tuple(Vec<Ty>),
    Struct(usize),
    Generic(Box<Ty>, Box<Ty>), // G<A, B> { a: A, b: B }
    CEnum(usize),
    DEnum(usize),
    Opt(Box<Ty>),
    NonZeroU32,
    Array(Box<Ty>, usize),
    Slice(Box<Ty>),
    Str, String,
    Vec(Box<Ty>), VecDeque(Box<Ty>),
    HashMap(Box<Ty>, Box<Ty>), HashSet(Box<Ty>),
    BTreeMap(Box<Ty>, Box<Ty>), BTreeSet(Box<Ty>),
    Box(Box<Ty>), Rc(Box<Ty>), Arc(Box<Ty>), Cell(Box<Ty>), RefCell(Box<Ty>),
    Ref(Box<Ty>), RefMut(Box<Ty>), RawConst(Box<Ty>), RawMut(Box<Ty>),
}

#[derive(Clone, Debug, PartialEq)]
pub enum Val {
    Int(IntV), F32(u32), F64(u64), Bool(bool), Char(char), Unit,
    Tuple(Vec<Val>),        // tuples, structs (fields in declaration order), Generic
    CEnum(usize),
    DEnum(usize, Vec<Val>),
    None, Some(Box<Val>),
    NonZero(u32),
    Seq(Vec<Val>),          // arrays, slices, Vec
    Str(String),
    Deque { cap0: usize, ops: Vec<DqOp>, bulk: Option<(u64, u64)>, content: Vec<Val> },
    Map { ins: Vec<(Val, Val)>, del: Vec<Val>, bulk: Option<Bulk>, content: Vec<(Val, Val)> },
    Set { ins: Vec<Val>, del: Vec<Val>, bulk: Option<Bulk>, content: Vec<Val> },
    Ptr(Box<Val>),          // Box, Rc, Arc, &, &mut, *const, *mut
    Cell(Box<Val>),         // Cell, RefCell
}

#[derive(Clone, Debug, PartialEq)]
pub enum DqOp { PushBack(Val), PushFront(Val), PopFront, PopBack }

/// bulk-filled map/set: for i in 0..n insert (i*mul+add) as K [-> (i*vmul+vadd) as V]; then remove every `del_step`-th key
#[derive(Clone, Debug, PartialEq)]
/// `keep_mod` > 0: afterwards every key whose index i has i % keep_mod != 0 is removed (a grown, then drained table: whole
/// control groups without a full bucket); `reserve` > 0: the table is created with that capacity (sparse table)
pub struct Bulk { pub n: u64, pub mul: u64, pub add: u64, pub vmul: u64, pub vadd: u64, pub del_step: u64, pub keep_mod: u64, pub reserve: u64 }

#[derive(Clone, Debug)]
pub struct StructDecl { pub name: String, pub tuple: bool, pub fields: Vec<(String, Ty)> }
#[derive(Clone, Debug)]
pub struct CEnumDecl { pub name: String, pub repr: Option<IntK>, pub variants: Vec<(String, Option<IntV>)> }
#[derive(Clone, Debug)]
pub struct DVariant { pub name: String, pub named: bool, pub fields: Vec<(String, Ty)>, pub discr: Option<IntV> }
#[derive(Clone, Debug)]
pub struct DEnumDecl { pub name: String, pub repr: Option<IntK>, pub variants: Vec<DVariant> }

#[derive(Clone, Debug, Default)]
pub struct Decls { pub structs: Vec<StructDecl>, pub cenums: Vec<CEnumDecl>, pub denums: Vec<DEnumDecl> }

pub const HASHER: &str = "BuildHasherDefault<DefaultHasher>";

impl Ty {
    /// the Rust spelling of the type (what a user calls it; DWARF names are normalised to this form)
    pub fn name(&self, d: &Decls) -> String {
        match self {
            Ty::Int(k) => k.name().into(),
            Ty::F32 => "f32".into(), Ty::F64 => "f64".into(), Ty::Bool => "bool".into(), Ty::Char => "char".into(), Ty::Unit => "()".into(),
            Ty::Tuple(ts) => format!("({})", ts.iter().map(|t| t.name(d)).collect::<Vec<_>>().join(", ")),
            Ty::Struct(i) => d.structs[*i].name.clone(),
            Ty::Generic(a, b) => format!("G<{}, {}>", a.name(d), b.name(d)),
            Ty::CEnum(i) => d.cenums[*i].name.clone(),
            Ty::DEnum(i) => d.denums[*i].name.clone(),
            Ty::Opt(t) => format!("Option<{}>", t.name(d)),
            Ty::NonZeroU32 => "NonZero<u32>".into(),
            Ty::Array(t, n) => format!("[{}; {}]", t.name(d), n),
            Ty::Slice(t) => format!("&[{}]", t.name(d)),
            Ty::Str => "&str".into(), Ty::String => "String".into(),
            Ty::Vec(t) => format!("Vec<{}>", t.name(d)),
            Ty::VecDeque(t) => format!("VecDeque<{}>", t.name(d)),
            Ty::HashMap(k, v) => format!("HashMap<{}, {}, {}>", k.name(d), v.name(d), HASHER),
            Ty::HashSet(k) => format!("HashSet<{}, {}>", k.name(d), HASHER),
            Ty::BTreeMap(k, v) => format!("BTreeMap<{}, {}>", k.name(d), v.name(d)),
            Ty::BTreeSet(k) => format!("BTreeSet<{}>", k.name(d)),
            Ty::Box(t) => format!("Box<{}>", t.name(d)),
            Ty::Rc(t) => format!("Rc<{}>", t.name(d)),
            Ty::Arc(t) => format!("Arc<{}>", t.name(d)),
            Ty::Cell(t) => format!("Cell<{}>", t.name(d)),
            Ty::RefCell(t) => format!("RefCell<{}>", t.name(d)),
            Ty::Ref(t) => format!("&{}", t.name(d)),
            Ty::RefMut(t) => format!("&mut {}", t.name(d)),
            Ty::RawConst(t) => format!("*const {}", t.name(d)),
            Ty::RawMut(t) => format!("*mut {}", t.name(d)),
        }
    }
    /// the type as written in the generated source: like `name` but every reference is `&'static`
    pub fn src_name(&self, d: &Decls) -> String {
        let n = self.name(d);
        let mut out = String::new();
        let b: Vec<char> = n.chars().collect();
        let mut i = 0;
        while i < b.len() {
            out.push(b[i]);
            if b[i] == '&' { out.push_str("'static "); }
            i += 1;
        }
        out.replace("NonZero<u32>", "NonZeroU32")
    }
    /// top-level category for histograms
    pub fn kind(&self) -> &'static str {
        match self {
            Ty::Int(_) => "int", Ty::F32 | Ty::F64 => "float", Ty::Bool => "bool", Ty::Char => "char", Ty::Unit => "unit",
            Ty::Tuple(_) => "tuple", Ty::Struct(_) | Ty::Generic(..) => "struct", Ty::CEnum(_) => "c-enum", Ty::DEnum(_) => "data-enum",
            Ty::Opt(_) => "option", Ty::NonZeroU32 => "nonzero", Ty::Array(..) => "array", Ty::Slice(_) => "slice", Ty::Str => "&str",
            Ty::String => "String", Ty::Vec(_) => "Vec", Ty::VecDeque(_) => "VecDeque", Ty::HashMap(..) => "HashMap", Ty::HashSet(_) => "HashSet",
            Ty::BTreeMap(..) => "BTreeMap", Ty::BTreeSet(_) => "BTreeSet", Ty::Box(_) => "Box", Ty::Rc(_) => "Rc", Ty::Arc(_) => "Arc",
            Ty::Cell(_) => "Cell", Ty::RefCell(_) => "RefCell", Ty::Ref(_) | Ty::RefMut(_) => "ref", Ty::RawConst(_) | Ty::RawMut(_) => "raw-ptr",
        }
    }
    fn contains_hash(&self) -> bool {
        match self {
            Ty::HashMap(..) | Ty::HashSet(_) => true,
            Ty::Tuple(ts) => ts.iter().any(|t| t.contains_hash()),
            Ty::Generic(a, b) | Ty::BTreeMap(a, b) => a.contains_hash() || b.contains_hash(),
            Ty::Opt(t) | Ty::Array(t, _) | Ty::Slice(t) | Ty::Vec(t) | Ty::VecDeque(t) | Ty::BTreeSet(t) | Ty::Box(t) | Ty::Rc(t) | Ty::Arc(t)
            | Ty::Cell(t) | Ty::RefCell(t) | Ty::Ref(t) | Ty::RefMut(t) => t.contains_hash(),
            _ => false,
        }
    }
}

// ------------------------------------------------------------------------------------------
// generation of types and values
// ------------------------------------------------------------------------------------------
pub struct Gen<'a> { pub rng: &'a mut Rng, pub d: Decls }

fn boundary_int(rng: &mut Rng, k: IntK) -> IntV {
    let b = k.bits();
    let max_u: u128 = if b == 128 { u128::MAX } else { (1u128 << b) - 1 };
    if k.signed() {
        let max = (max_u >> 1) as i128;
        let min = -max - 1;
        IntV::S(match rng.below(8) {
            0 => min, 1 => max, 2 => -1, 3 => 0, 4 => 1, 5 => min + 1, 6 => -128,
            _ => k.from_bits(rng.next() as u128 | ((rng.next() as u128) << 64)).pattern(b) as i128 >> 0,
        })
        .fix(k)
    } else {
        IntV::U(match rng.below(8) {
            0 => 0, 1 => max_u, 2 => max_u >> 1, 3 => (max_u >> 1) + 1, 4 => 1, 5 => 128.min(max_u), 6 => 255.min(max_u),
            _ => (rng.next() as u128 | ((rng.next() as u128) << 64)) & max_u,
        })
    }
}
impl IntV {
    /// re-normalise a value into the range of `k`
    fn fix(self, k: IntK) -> IntV { k.from_bits(self.pattern(128)) }
}

const STRS: [&str; 10] = ["", "a", "hello", "h\u{e9}llo w\u{f6}rld", "\u{1F600}", "tab\tnl\n", "quote\"'\\", "0123456789abcdef0123456789abcdef", "\u{0}", " sp "];

impl<'a> Gen<'a> {
    pub fn new(rng: &'a mut Rng) -> Self { Gen { rng, d: Decls::default() } }

    fn scalar_ty(&mut self) -> Ty {
        match self.rng.below(10) {
            0..=5 => Ty::Int(*self.rng.pick(&INT_KINDS)),
            6 => Ty::F32, 7 => Ty::F64, 8 => Ty::Bool, _ => Ty::Char,
        }
    }
    /// a type usable as key of hash and ordered collections (Hash + Eq + Ord + Debug)
    pub fn key_ty(&mut self, depth: u32) -> Ty {
        match self.rng.below(if depth == 0 { 6 } else { 9 }) {
            0..=2 => Ty::Int(*self.rng.pick(&INT_KINDS)),
            3 => Ty::Char, 4 => Ty::String, 5 => Ty::Bool,
            6 => Ty::Str,
            7 => { let i = self.new_cenum(); Ty::CEnum(i) }
            _ => Ty::Tuple(vec![self.key_ty(depth - 1), self.key_ty(depth - 1)]),
        }
    }
    fn new_cenum(&mut self) -> usize {
        let name = format!("E{}", self.d.cenums.len());
        let (repr, variants): (Option<IntK>, Vec<(String, Option<IntV>)>) = match self.rng.below(13) {
            0 => (None, (0..2).map(|i| (format!("V{i}"), None)).collect()),
            1 => (None, (0..5).map(|i| (format!("V{i}"), None)).collect()),
            2 => (None, (0..129).map(|i| (format!("V{i}"), None)).collect()),
            3 => (None, (0..201).map(|i| (format!("V{i}"), None)).collect()),
            4 => (None, (0..256).map(|i| (format!("V{i}"), None)).collect()),
            5 => (None, (0..300).map(|i| (format!("V{i}"), None)).collect()),
            6 => (Some(IntK::I8), vec![("Min".into(), Some(IntV::S(-128))), ("Neg".into(), Some(IntV::S(-1))), ("Zero".into(), Some(IntV::S(0))), ("Max".into(), Some(IntV::S(127)))]),
            7 => (Some(IntK::U8), vec![("Zero".into(), Some(IntV::U(0))), ("Mid".into(), Some(IntV::U(127))), ("Hi".into(), Some(IntV::U(128))), ("Max".into(), Some(IntV::U(255)))]),
            8 => (Some(IntK::U16), vec![("A".into(), Some(IntV::U(1))), ("B".into(), Some(IntV::U(0x7fff))), ("C".into(), Some(IntV::U(0x8000))), ("D".into(), Some(IntV::U(0xffff)))]),
            9 => (Some(IntK::I32), vec![("A".into(), Some(IntV::S(-2147483648))), ("B".into(), Some(IntV::S(-7))), ("C".into(), Some(IntV::S(2147483647)))]),
            10 => (Some(IntK::U32), vec![("A".into(), Some(IntV::U(5))), ("B".into(), Some(IntV::U(0x8000_0000))), ("C".into(), Some(IntV::U(0xffff_ffff)))]),
            11 => (Some(IntK::U64), vec![("A".into(), Some(IntV::U(1))), ("B".into(), Some(IntV::U(0x8000_0000_0000_0000))), ("C".into(), Some(IntV::U(u64::MAX as u128)))]),
            _ => (Some(IntK::I64), vec![("A".into(), Some(IntV::S(i64::MIN as i128))), ("B".into(), Some(IntV::S(-1))), ("C".into(), Some(IntV::S(i64::MAX as i128)))]),
        };
        self.d.cenums.push(CEnumDecl { name, repr, variants });
        self.d.cenums.len() - 1
    }
    fn new_struct(&mut self, depth: u32) -> usize {
        let n = self.rng.range(1, 4) as usize;
        let tuple = self.rng.chance(1, 4);
        let fields = (0..n).map(|i| (if tuple { format!("__{i}") } else { format!("f{i}") }, self.ty(depth))).collect();
        let name = format!("S{}", self.d.structs.len());
        self.d.structs.push(StructDecl { name, tuple, fields });
        self.d.structs.len() - 1
    }
    fn new_denum(&mut self, depth: u32) -> usize {
        let mut variants = vec![];
        let mut repr = None;
        match self.rng.below(6) {
            0 => {
                // many data variants: tags above 0x7f
                let n = *self.rng.pick(&[130usize, 200, 260]);
                for i in 0..n {
                    variants.push(DVariant { name: format!("V{i}"), named: false, fields: vec![("__0".into(), Ty::Int(IntK::U8))], discr: None });
                }
            }
            1 => {
                // explicit unsigned discriminants above the sign bit
                let k = *self.rng.pick(&[IntK::U8, IntK::U16, IntK::U32, IntK::I8, IntK::I16]);
                repr = Some(k);
                let ds: Vec<IntV> = match k {
                    IntK::U8 => vec![IntV::U(1), IntV::U(127), IntV::U(128), IntV::U(200), IntV::U(255)],
                    IntK::U16 => vec![IntV::U(0), IntV::U(0x7fff), IntV::U(0x8000), IntV::U(0xfffe)],
                    IntK::U32 => vec![IntV::U(7), IntV::U(0x7fff_ffff), IntV::U(0x8000_0000), IntV::U(0xffff_ffff)],
                    IntK::I8 => vec![IntV::S(-128), IntV::S(-1), IntV::S(0), IntV::S(127)],
                    _ => vec![IntV::S(-32768), IntV::S(-2), IntV::S(300), IntV::S(32767)],
                };
                for (i, dv) in ds.into_iter().enumerate() {
                    let fields = if i % 2 == 0 { vec![("__0".to_string(), self.ty(depth.min(1)))] } else { vec![] };
                    variants.push(DVariant { name: format!("V{i}"), named: false, fields, discr: Some(dv) });
                }
            }
            _ => {
                let n = self.rng.range(2, 5) as usize;
                for i in 0..n {
                    let nf = self.rng.below(3) as usize;
                    let named = nf > 0 && self.rng.chance(1, 3);
                    let fields = (0..nf).map(|j| (if named { format!("f{j}") } else { format!("__{j}") }, self.ty(depth))).collect();
                    variants.push(DVariant { name: format!("V{i}"), named, fields, discr: None });
                }
                // at least one data variant so that it is not a C-like enum
                if variants.iter().all(|v| v.fields.is_empty()) {
                    variants[0].fields.push(("__0".into(), self.ty(depth)));
                    variants[0].named = false;
                }
            }
        }
        let name = format!("D{}", self.d.denums.len());
        self.d.denums.push(DEnumDecl { name, repr, variants });
        self.d.denums.len() - 1
    }

    /// a type of nesting depth <= depth
    pub fn ty(&mut self, depth: u32) -> Ty {
        if depth == 0 {
            return match self.rng.below(14) {
                0..=8 => self.scalar_ty(),
                9 => Ty::Unit, 10 => Ty::Str, 11 => Ty::String, 12 => Ty::NonZeroU32,
                _ => { let i = self.new_cenum(); Ty::CEnum(i) }
            };
        }
        let d1 = depth - 1;
        match self.rng.below(34) {
            0 | 1 => self.ty(0),
            2 => Ty::Tuple((0..self.rng.range(2, 4)).map(|_| self.ty(d1)).collect()),
            3 | 4 => { let i = self.new_struct(d1); Ty::Struct(i) }
            5 => Ty::Generic(Box::new(self.ty(d1)), Box::new(self.ty(d1))),
            6 | 7 => { let i = self.new_denum(d1); Ty::DEnum(i) }
            8 => Ty::Opt(Box::new(Ty::Ref(Box::new(self.ty(d1))))),
            9 => Ty::Opt(Box::new(Ty::Box(Box::new(self.ty(d1))))),
            10 => Ty::Opt(Box::new(Ty::NonZeroU32)),
            11 | 12 => Ty::Opt(Box::new(self.ty(d1))),
            13 => Ty::Array(Box::new(self.ty(d1)), *self.rng.pick(&[0usize, 1, 2, 3, 7, 16])),
            14 => Ty::Slice(Box::new(self.ty(d1))),
            15 | 16 => Ty::Vec(Box::new(self.ty(d1))),
            17 | 18 => Ty::VecDeque(Box::new(self.ty(d1))),
            19 | 20 => Ty::HashMap(Box::new(self.key_ty(d1.min(1))), Box::new(self.ty(d1))),
            21 => Ty::HashSet(Box::new(self.key_ty(d1.min(1)))),
            22 | 23 => Ty::BTreeMap(Box::new(self.key_ty(d1.min(1))), Box::new(self.ty(d1))),
            24 => Ty::BTreeSet(Box::new(self.key_ty(d1.min(1)))),
            25 => Ty::Box(Box::new(self.ty(d1))),
            26 => Ty::Rc(Box::new(self.ty(d1))),
            27 => Ty::Arc(Box::new(self.ty(d1))),
            28 => Ty::Cell(Box::new(self.ty(d1))),
            29 => Ty::RefCell(Box::new(self.ty(d1))),
            30 => Ty::Ref(Box::new(self.ty(d1))),
            31 => Ty::RefMut(Box::new(self.ty(d1))),
            32 => Ty::RawConst(Box::new(self.ty(d1))),
            _ => Ty::RawMut(Box::new(self.ty(d1))),
        }
    }

    fn small_len(&mut self) -> usize {
        *self.rng.pick(&[0usize, 1, 1, 2, 3, 5, 9])
    }
    fn distinct_keys(&mut self, kt: &Ty, n: usize) -> Vec<Val> {
        let mut out: Vec<Val> = vec![];
        let mut tries = 0;
        while out.len() < n && tries < n * 30 + 50 {
            tries += 1;
            let v = self.val(kt);
            if !out.iter().any(|x| cmp_val(x, &v) == Ordering::Equal) {
                out.push(v);
            }
        }
        out
    }
    fn bulk_ok(kt: &Ty) -> Option<IntK> {
        match kt { Ty::Int(k) if k.bits() >= 16 => Some(*k), _ => None }
    }

    pub fn val(&mut self, t: &Ty) -> Val {
        match t {
            Ty::Int(k) => Val::Int(boundary_int(self.rng, *k)),
            Ty::F32 => Val::F32(*self.rng.pick(&[0u32, 0x8000_0000, 0x3f80_0000, 0x7f80_0000, 0xff80_0000, 0x7fc0_0000, 0x0000_0001, 0x7f7f_ffff, 0xc2f6_e979, 0x3dcc_cccd])),
            Ty::F64 => Val::F64(*self.rng.pick(&[0u64, 0x8000_0000_0000_0000, 0x3ff0_0000_0000_0000, 0x7ff0_0000_0000_0000, 0xfff0_0000_0000_0000, 0x7ff8_0000_0000_0000, 1, 0x7fef_ffff_ffff_ffff, 0xc05e_dd2f_1a9f_be77, 0x3fb9_9999_9999_999a])),
            Ty::Bool => Val::Bool(self.rng.chance(1, 2)),
            Ty::Char => Val::Char(*self.rng.pick(&['\0', 'a', 'Z', '\u{7f}', '\u{80}', '\u{e9}', '\u{7ff}', '\u{800}', '\u{d7ff}', '\u{e000}', '\u{ffff}', '\u{10000}', '\u{1F600}', '\u{10FFFF}'])),
            Ty::Unit => Val::Unit,
            Ty::Tuple(ts) => Val::Tuple(ts.iter().map(|t| self.val(t)).collect()),
            Ty::Struct(i) => { let fs = self.d.structs[*i].fields.clone(); Val::Tuple(fs.iter().map(|(_, t)| self.val(t)).collect()) }
            Ty::Generic(a, b) => Val::Tuple(vec![self.val(a), self.val(b)]),
            Ty::CEnum(i) => { let n = self.d.cenums[*i].variants.len(); Val::CEnum(match self.rng.below(4) { 0 => 0, 1 => n - 1, 2 => (n - 1).min(128), _ => self.rng.below(n as u64) as usize }) }
            Ty::DEnum(i) => {
                let n = self.d.denums[*i].variants.len();
                let vi = match self.rng.below(4) { 0 => 0, 1 => n - 1, 2 => (n - 1).min(150), _ => self.rng.below(n as u64) as usize };
                let fs = self.d.denums[*i].variants[vi].fields.clone();
                Val::DEnum(vi, fs.iter().map(|(_, t)| self.val(t)).collect())
            }
            Ty::Opt(inner) => if self.rng.chance(2, 5) { Val::None } else { Val::Some(Box::new(self.val(inner))) },
            Ty::NonZeroU32 => Val::NonZero(*self.rng.pick(&[1u32, 2, 0x7fff_ffff, 0x8000_0000, 0xffff_ffff])),
            Ty::Array(t, n) => Val::Seq((0..*n).map(|_| self.val(t)).collect()),
            Ty::Slice(t) | Ty::Vec(t) => { let n = self.small_len(); Val::Seq((0..n).map(|_| self.val(t)).collect()) }
            Ty::Str | Ty::String => Val::Str(self.rng.pick(&STRS).to_string()),
            Ty::VecDeque(t) => self.deque(t),
            Ty::HashMap(k, v) | Ty::BTreeMap(k, v) => self.map(k, v, matches!(t, Ty::HashMap(..))),
            Ty::HashSet(k) | Ty::BTreeSet(k) => {
                match self.map(k, &Ty::Unit, matches!(t, Ty::HashSet(_))) {
                    Val::Map { ins, del, bulk, content } => Val::Set { ins: ins.into_iter().map(|p| p.0).collect(), del, bulk, content: content.into_iter().map(|p| p.0).collect() },
                    _ => unreachable!(),
                }
            }
            Ty::Box(t) | Ty::Rc(t) | Ty::Arc(t) | Ty::Ref(t) | Ty::RefMut(t) | Ty::RawConst(t) | Ty::RawMut(t) => Val::Ptr(Box::new(self.val(t))),
            Ty::Cell(t) | Ty::RefCell(t) => Val::Cell(Box::new(self.val(t))),
        }
    }

    fn deque(&mut self, t: &Ty) -> Val {
        // one in eight integer deques is the big one (capacity > 10000, head far inside)
        if let Ty::Int(k) = t {
            if k.bits() >= 16 && k.bits() <= 64 && self.rng.chance(1, 8) {
                let (n, pops) = *self.rng.pick(&[(15000u64, 12000u64), (10500, 10400), (12000, 3000), (20000, 19990)]);
                let content = (pops..n).map(|i| Val::Int(k.from_bits((i * 7 + 1) as u128))).collect();
                return Val::Deque { cap0: 20000, ops: vec![], bulk: Some((n, pops)), content };
            }
        }
        let cap0 = *self.rng.pick(&[0usize, 1, 2, 4, 8]);
        let nops = *self.rng.pick(&[0usize, 1, 3, 6, 10, 17, 30]);
        let mut sim: VecDeque<Val> = VecDeque::new();
        let mut ops = vec![];
        for _ in 0..nops {
            let op = match self.rng.below(10) {
                0..=4 => DqOp::PushBack(self.val(t)),
                5 | 6 => DqOp::PushFront(self.val(t)),
                7 | 8 => DqOp::PopFront,
                _ => DqOp::PopBack,
            };
            match &op {
                DqOp::PushBack(v) => sim.push_back(v.clone()),
                DqOp::PushFront(v) => sim.push_front(v.clone()),
                DqOp::PopFront => { sim.pop_front(); }
                DqOp::PopBack => { sim.pop_back(); }
            }
            ops.push(op);
        }
        Val::Deque { cap0, ops, bulk: None, content: sim.into_iter().collect() }
    }

    fn map(&mut self, kt: &Ty, vt: &Ty, hash: bool) -> Val {
        let sizes: &[usize] = if hash { &[0, 1, 7, 8, 15, 16, 17, 100] } else { &[0, 1, 5, 11, 12, 40, 90, 200, 500] };
        let mut n = *self.rng.pick(sizes);
        let bulk_k = Self::bulk_ok(kt);
        let bulk_v = matches!(vt, Ty::Int(_) | Ty::Unit);
        // sparse hash tables (1 in 4 when the types allow bulk filling): reserved-but-nearly-empty, or grown and drained
        let (mut keep_mod, mut reserve) = (0u64, 0u64);
        if hash && bulk_k.is_some() && bulk_v && self.rng.chance(1, 4) {
            if self.rng.chance(1, 2) {
                reserve = *self.rng.pick(&[40u64, 100, 500, 2000]);
                n = *self.rng.pick(&[18usize, 19, 21, 25]);
                keep_mod = *self.rng.pick(&[5u64, 7, 9, 13]);
            } else {
                n = *self.rng.pick(&[60usize, 100, 240, 600]);
                keep_mod = *self.rng.pick(&[16u64, 37, 64, 101]);
            }
        }
        if n > 17 || (n > 8 && bulk_k.is_some() && bulk_v && self.rng.chance(1, 2)) {
            // big collections are bulk-filled; when the key type does not allow it fall back to the largest small size
            if let (Some(k), true) = (bulk_k, bulk_v) {
                let mul = *self.rng.pick(&[1u64, 3, 7, 0x9E37]);
                let add = self.rng.below(1000);
                let b = Bulk { n: n as u64, mul, add, vmul: 5, vadd: self.rng.below(50), del_step: if keep_mod > 0 { 0 } else { *self.rng.pick(&[0u64, 0, 2, 3, 10]) }, keep_mod, reserve };
                let mut content: Vec<(Val, Val)> = vec![];
                for i in 0..b.n {
                    let key = Val::Int(k.from_bits((i as u128) * (b.mul as u128) + b.add as u128));
                    let v = match vt { Ty::Int(vk) => Val::Int(vk.from_bits((i as u128) * (b.vmul as u128) + b.vadd as u128)), _ => Val::Unit };
                    if let Some(p) = content.iter().position(|x| x.0 == key) { content[p].1 = v; } else { content.push((key, v)); }
                }
                if b.del_step > 0 {
                    for i in (0..b.n).step_by(b.del_step as usize) {
                        let key = Val::Int(k.from_bits((i as u128) * (b.mul as u128) + b.add as u128));
                        content.retain(|x| x.0 != key);
                    }
                }
                if b.keep_mod > 0 {
                    for i in (0..b.n).filter(|i| i % b.keep_mod != 0) {
                        let key = Val::Int(k.from_bits((i as u128) * (b.mul as u128) + b.add as u128));
                        content.retain(|x| x.0 != key);
                    }
                }
                content.sort_by(|a, c| cmp_val(&a.0, &c.0));
                return Val::Map { ins: vec![], del: vec![], bulk: Some(b), content };
            }
        }
        let n = n.min(17);
        let keys = self.distinct_keys(kt, n);
        let ins: Vec<(Val, Val)> = keys.into_iter().map(|k| { let v = self.val(vt); (k, v) }).collect();
        let mut del = vec![];
        if !ins.is_empty() && self.rng.chance(1, 2) {
            let nd = self.rng.range(1, (ins.len() as u64 + 1) / 2) as usize;
            for j in 0..nd { del.push(ins[(j * 2) % ins.len()].0.clone()); }
        }
        let mut content: Vec<(Val, Val)> = ins.iter().filter(|(k, _)| !del.iter().any(|d| cmp_val(d, k) == Ordering::Equal)).cloned().collect();
        content.sort_by(|a, c| cmp_val(&a.0, &c.0));
        Val::Map { ins, del, bulk: None, content }
    }
}

/// Rust's derived/primitive Ord on key values
pub fn cmp_val(a: &Val, b: &Val) -> Ordering {
    match (a, b) {
        (Val::Int(x), Val::Int(y)) => match (x, y) { (IntV::S(p), IntV::S(q)) => p.cmp(q), (IntV::U(p), IntV::U(q)) => p.cmp(q), _ => Ordering::Equal },
        (Val::Bool(x), Val::Bool(y)) => x.cmp(y),
        (Val::Char(x), Val::Char(y)) => x.cmp(y),
        (Val::Str(x), Val::Str(y)) => x.as_bytes().cmp(y.as_bytes()),
        (Val::CEnum(x), Val::CEnum(y)) => x.cmp(y), // overridden for explicit discriminants in `cmp_key`
        (Val::Unit, Val::Unit) => Ordering::Equal,
        (Val::Tuple(x), Val::Tuple(y)) => {
            for (p, q) in x.iter().zip(y.iter()) {
                let c = cmp_val(p, q);
                if c != Ordering::Equal { return c; }
            }
            Ordering::Equal
        }
        _ => Ordering::Equal,
    }
}

// ------------------------------------------------------------------------------------------
// source text
// ------------------------------------------------------------------------------------------
fn int_lit(k: IntK, v: IntV) -> String {
    format!("({}{})", v.dec(), k.name())
}

pub fn expr(d: &Decls, t: &Ty, v: &Val) -> String {
    match (t, v) {
        (Ty::Int(k), Val::Int(x)) => int_lit(*k, *x),
        (Ty::F32, Val::F32(b)) => format!("f32::from_bits({:#x})", b),
        (Ty::F64, Val::F64(b)) => format!("f64::from_bits({:#x})", b),
        (Ty::Bool, Val::Bool(b)) => b.to_string(),
        (Ty::Char, Val::Char(c)) => format!("'\\u{{{:x}}}'", *c as u32),
        (Ty::Unit, _) => "()".into(),
        (Ty::Tuple(ts), Val::Tuple(vs)) => format!("({})", ts.iter().zip(vs).map(|(t, v)| expr(d, t, v)).collect::<Vec<_>>().join(", ")),
        (Ty::Struct(i), Val::Tuple(vs)) => {
            let s = &d.structs[*i];
            if s.tuple {
                format!("{}({})", s.name, s.fields.iter().zip(vs).map(|((_, t), v)| expr(d, t, v)).collect::<Vec<_>>().join(", "))
            } else {
                format!("{} {{ {} }}", s.name, s.fields.iter().zip(vs).map(|((n, t), v)| format!("{n}: {}", expr(d, t, v))).collect::<Vec<_>>().join(", "))
            }
        }
        (Ty::Generic(a, b), Val::Tuple(vs)) => format!("G {{ a: {}, b: {} }}", expr(d, a, &vs[0]), expr(d, b, &vs[1])),
        (Ty::CEnum(i), Val::CEnum(vi)) => format!("{}::{}", d.cenums[*i].name, d.cenums[*i].variants[*vi].0),
        (Ty::DEnum(i), Val::DEnum(vi, vs)) => {
            let e = &d.denums[*i];
            let var = &e.variants[*vi];
            if var.fields.is_empty() {
                format!("{}::{}", e.name, var.name)
            } else if var.named {
                format!("{}::{} {{ {} }}", e.name, var.name, var.fields.iter().zip(vs).map(|((n, t), v)| format!("{n}: {}", expr(d, t, v))).collect::<Vec<_>>().join(", "))
            } else {
                format!("{}::{}({})", e.name, var.name, var.fields.iter().zip(vs).map(|((_, t), v)| expr(d, t, v)).collect::<Vec<_>>().join(", "))
            }
        }
        (Ty::Opt(_), Val::None) => "None".into(),
        (Ty::Opt(t), Val::Some(v)) => format!("Some({})", expr(d, t, v)),
        (Ty::NonZeroU32, Val::NonZero(x)) => format!("NonZeroU32::new({x}u32).unwrap()"),
        (Ty::Array(t, _), Val::Seq(vs)) => format!("[{}]", vs.iter().map(|v| expr(d, t, v)).collect::<Vec<_>>().join(", ")),
        (Ty::Slice(t), Val::Seq(vs)) => format!("&*Box::leak(vec![{}].into_boxed_slice())", vs.iter().map(|v| expr(d, t, v)).collect::<Vec<_>>().join(", ")),
        (Ty::Vec(t), Val::Seq(vs)) => format!("vec![{}]", vs.iter().map(|v| expr(d, t, v)).collect::<Vec<_>>().join(", ")),
        (Ty::Str, Val::Str(s)) => format!("{:?}", s),
        (Ty::String, Val::Str(s)) => format!("String::from({:?})", s),
        (Ty::VecDeque(t), Val::Deque { cap0, ops, bulk, .. }) => {
            let mut s = format!("{{ let mut d: {} = VecDeque::with_capacity({cap0}); ", Ty::VecDeque(t.clone()).src_name(d));
            if let Some((n, pops)) = bulk {
                s += &format!("for i in 0..{n}u64 {{ d.push_back((i * 7 + 1) as {}); }} for _ in 0..{pops} {{ d.pop_front(); }} ", t.src_name(d));
            }
            for op in ops {
                s += &match op {
                    DqOp::PushBack(v) => format!("d.push_back({}); ", expr(d, t, v)),
                    DqOp::PushFront(v) => format!("d.push_front({}); ", expr(d, t, v)),
                    DqOp::PopFront => "d.pop_front(); ".to_string(),
                    DqOp::PopBack => "d.pop_back(); ".to_string(),
                };
            }
            s + "d }"
        }
        (Ty::HashMap(kt, vt), Val::Map { ins, del, bulk, .. }) | (Ty::BTreeMap(kt, vt), Val::Map { ins, del, bulk, .. }) => {
            let reserve = bulk.as_ref().map(|b| b.reserve).unwrap_or(0);
            let ctor = if matches!(t, Ty::HashMap(..)) { if reserve > 0 { format!("HashMap::with_capacity_and_hasher({reserve}, Default::default())") } else { "HashMap::default()".to_string() } } else { "BTreeMap::new()".to_string() };
            let mut s = format!("{{ let mut m: {} = {ctor}; ", t.src_name(d));
            if let Some(b) = bulk {
                let vexpr = match &**vt { Ty::Int(vk) => format!("(i * {} + {}) as {}", b.vmul, b.vadd, vk.name()), _ => "()".into() };
                s += &format!("for i in 0..{}u128 {{ m.insert((i * {} + {}) as {}, {vexpr}); }} ", b.n, b.mul, b.add, kt.src_name(d));
                if b.del_step > 0 {
                    s += &format!("for i in (0..{}u128).step_by({}) {{ m.remove(&((i * {} + {}) as {})); }} ", b.n, b.del_step, b.mul, b.add, kt.src_name(d));
                }
                if b.keep_mod > 0 {
                    s += &format!("for i in (0..{}u128).filter(|i| i % {} != 0) {{ m.remove(&((i * {} + {}) as {})); }} ", b.n, b.keep_mod, b.mul, b.add, kt.src_name(d));
                }
            }
            for (k, v) in ins { s += &format!("m.insert({}, {}); ", expr(d, kt, k), expr(d, vt, v)); }
            for k in del { s += &format!("m.remove(&{}); ", expr(d, kt, k)); }
            s + "m }"
        }
        (Ty::HashSet(kt), Val::Set { ins, del, bulk, .. }) | (Ty::BTreeSet(kt), Val::Set { ins, del, bulk, .. }) => {
            let reserve = bulk.as_ref().map(|b| b.reserve).unwrap_or(0);
            let ctor = if matches!(t, Ty::HashSet(..)) { if reserve > 0 { format!("HashSet::with_capacity_and_hasher({reserve}, Default::default())") } else { "HashSet::default()".to_string() } } else { "BTreeSet::new()".to_string() };
            let mut s = format!("{{ let mut m: {} = {ctor}; ", t.src_name(d));
            if let Some(b) = bulk {
                s += &format!("for i in 0..{}u128 {{ m.insert((i * {} + {}) as {}); }} ", b.n, b.mul, b.add, kt.src_name(d));
                if b.del_step > 0 {
                    s += &format!("for i in (0..{}u128).step_by({}) {{ m.remove(&((i * {} + {}) as {})); }} ", b.n, b.del_step, b.mul, b.add, kt.src_name(d));
                }
                if b.keep_mod > 0 {
                    s += &format!("for i in (0..{}u128).filter(|i| i % {} != 0) {{ m.remove(&((i * {} + {}) as {})); }} ", b.n, b.keep_mod, b.mul, b.add, kt.src_name(d));
                }
            }
            for k in ins { s += &format!("m.insert({}); ", expr(d, kt, k)); }
            for k in del { s += &format!("m.remove(&{}); ", expr(d, kt, k)); }
            s + "m }"
        }
        (Ty::Box(t), Val::Ptr(v)) => format!("Box::new({})", expr(d, t, v)),
        (Ty::Rc(t), Val::Ptr(v)) => format!("Rc::new({})", expr(d, t, v)),
        (Ty::Arc(t), Val::Ptr(v)) => format!("Arc::new({})", expr(d, t, v)),
        (Ty::Cell(t), Val::Cell(v)) => format!("Cell::new({})", expr(d, t, v)),
        (Ty::RefCell(t), Val::Cell(v)) => format!("RefCell::new({})", expr(d, t, v)),
        (Ty::Ref(t), Val::Ptr(v)) => format!("&*Box::leak(Box::new({}))", expr(d, t, v)),
        (Ty::RefMut(t), Val::Ptr(v)) => format!("Box::leak(Box::new({}))", expr(d, t, v)),
        (Ty::RawConst(t), Val::Ptr(v)) => format!("(Box::leak(Box::new({})) as *const {})", expr(d, t, v), t.src_name(d)),
        (Ty::RawMut(t), Val::Ptr(v)) => format!("(Box::leak(Box::new({})) as *mut {})", expr(d, t, v), t.src_name(d)),
        _ => panic!("expr: type/value mismatch {:?} / {:?}", t, v),
    }
}

pub struct Program {
    pub src: String,
    pub decls: Decls,
    pub vars: Vec<(String, Ty, Val)>,
    pub stop_line: u64,
}

fn decl_src(d: &Decls) -> String {
    let mut s = String::new();
    s += "#[derive(Debug)] struct G<A, B> { a: A, b: B }\n";
    for st in &d.structs {
        if st.tuple {
            s += &format!("#[derive(Debug)] struct {}({});\n", st.name, st.fields.iter().map(|(_, t)| t.src_name(d)).collect::<Vec<_>>().join(", "));
        } else {
            s += &format!("#[derive(Debug)] struct {} {{ {} }}\n", st.name, st.fields.iter().map(|(n, t)| format!("{n}: {}", t.src_name(d))).collect::<Vec<_>>().join(", "));
        }
    }
    for e in &d.cenums {
        if let Some(r) = e.repr { s += &format!("#[repr({})] ", r.name()); }
        s += &format!("#[derive(Debug, Clone, Copy, PartialEq, Eq, Hash, PartialOrd, Ord)] enum {} {{ ", e.name);
        for (n, dv) in &e.variants {
            match dv { Some(x) => s += &format!("{n} = {}, ", x.dec()), None => s += &format!("{n}, ") }
        }
        s += "}\n";
    }
    for e in &d.denums {
        if let Some(r) = e.repr { s += &format!("#[repr({})] ", r.name()); }
        s += &format!("#[derive(Debug)] enum {} {{ ", e.name);
        for v in &e.variants {
            s += &v.name;
            if !v.fields.is_empty() {
                if v.named {
                    s += &format!(" {{ {} }}", v.fields.iter().map(|(n, t)| format!("{n}: {}", t.src_name(d))).collect::<Vec<_>>().join(", "));
                } else {
                    s += &format!("({})", v.fields.iter().map(|(_, t)| t.src_name(d)).collect::<Vec<_>>().join(", "));
                }
            }
            if let Some(x) = v.discr { s += &format!(" = {}", x.dec()); }
            s += ", ";
        }
        s += "}\n";
    }
    s
}

/// a program declaring `vars` and stopping (by a call of `anchor`) where all of them are initialised
pub fn program(decls: Decls, vars: Vec<(String, Ty, Val)>) -> Program {
    let mut src = String::new();
    src += "#![allow(unused, dead_code, non_camel_case_types)]\n";
    src += "use std::collections::{HashMap, HashSet, BTreeMap, BTreeSet, VecDeque};\nuse std::hash::{BuildHasherDefault, DefaultHasher};\n";
    src += "use std::rc::Rc; use std::sync::Arc; use std::cell::{Cell, RefCell}; use std::num::NonZeroU32; use std::num::NonZero;\n";
    src += &decl_src(&decls);
    src += "#[inline(never)] fn anchor(n: u64) -> u64 { std::hint::black_box(n) + 1 }\n";
    src += "fn main() {\n";
    for (n, t, v) in &vars {
        src += &format!("    let {n}: {} = {};\n", t.src_name(&decls), expr(&decls, t, v));
    }
    let stop_line = src.lines().count() as u64 + 1;
    src += "    let stop_here = anchor(1);\n";
    for (n, t, _) in &vars {
        if !t.contains_hash() || matches!(t, Ty::HashMap(..) | Ty::HashSet(_)) {
            match t {
                Ty::HashMap(..) => src += &format!("    println!(\"{n}={{:?}}\", {n}.iter().collect::<BTreeMap<_, _>>());\n"),
                Ty::HashSet(_) => src += &format!("    println!(\"{n}={{:?}}\", {n}.iter().collect::<BTreeSet<_>>());\n"),
                _ => src += &format!("    println!(\"{n}={{:?}}\", {n});\n"),
            }
        } else {
            src += &format!("    println!(\"{n}={{:?}}\", {n});\n");
        }
    }
    src += "    std::hint::black_box(stop_here);\n}\n";
    Program { src, decls, vars, stop_line }
}

// ------------------------------------------------------------------------------------------
// `{:?}` of a ground-truth value, to check the generator against the program's own output
// ------------------------------------------------------------------------------------------
/// None: the text is not predictable (addresses, nested hash collections)
pub fn debug_fmt(d: &Decls, t: &Ty, v: &Val, top: bool) -> Option<String> {
    let list = |items: Vec<Option<String>>, open: &str, close: &str| -> Option<String> {
        let xs: Option<Vec<String>> = items.into_iter().collect();
        Some(format!("{open}{}{close}", xs?.join(", ")))
    };
    Some(match (t, v) {
        (Ty::Int(_), Val::Int(x)) => x.dec(),
        (Ty::F32, Val::F32(b)) => format!("{:?}", f32::from_bits(*b)),
        (Ty::F64, Val::F64(b)) => format!("{:?}", f64::from_bits(*b)),
        (Ty::Bool, Val::Bool(b)) => b.to_string(),
        (Ty::Char, Val::Char(c)) => format!("{:?}", c),
        (Ty::Unit, _) => "()".into(),
        (Ty::Tuple(ts), Val::Tuple(vs)) => list(ts.iter().zip(vs).map(|(t, v)| debug_fmt(d, t, v, false)).collect(), "(", ")")?,
        (Ty::Struct(i), Val::Tuple(vs)) => {
            let s = &d.structs[*i];
            if s.tuple {
                list(s.fields.iter().zip(vs).map(|((_, t), v)| debug_fmt(d, t, v, false)).collect(), &format!("{}(", s.name), ")")?
            } else {
                list(s.fields.iter().zip(vs).map(|((n, t), v)| debug_fmt(d, t, v, false).map(|x| format!("{n}: {x}"))).collect(), &format!("{} {{ ", s.name), " }")?
            }
        }
        (Ty::Generic(a, b), Val::Tuple(vs)) => format!("G {{ a: {}, b: {} }}", debug_fmt(d, a, &vs[0], false)?, debug_fmt(d, b, &vs[1], false)?),
        (Ty::CEnum(i), Val::CEnum(vi)) => d.cenums[*i].variants[*vi].0.clone(),
        (Ty::DEnum(i), Val::DEnum(vi, vs)) => {
            let var = &d.denums[*i].variants[*vi];
            if var.fields.is_empty() { var.name.clone() }
            else if var.named { list(var.fields.iter().zip(vs).map(|((n, t), v)| debug_fmt(d, t, v, false).map(|x| format!("{n}: {x}"))).collect(), &format!("{} {{ ", var.name), " }")? }
            else { list(var.fields.iter().zip(vs).map(|((_, t), v)| debug_fmt(d, t, v, false)).collect(), &format!("{}(", var.name), ")")? }
        }
        (Ty::Opt(_), Val::None) => "None".into(),
        (Ty::Opt(t), Val::Some(v)) => format!("Some({})", debug_fmt(d, t, v, false)?),
        (Ty::NonZeroU32, Val::NonZero(x)) => x.to_string(),
        (Ty::Array(t, _), Val::Seq(vs)) | (Ty::Slice(t), Val::Seq(vs)) | (Ty::Vec(t), Val::Seq(vs)) => list(vs.iter().map(|v| debug_fmt(d, t, v, false)).collect(), "[", "]")?,
        (Ty::Str, Val::Str(s)) | (Ty::String, Val::Str(s)) => format!("{:?}", s),
        (Ty::VecDeque(t), Val::Deque { content, .. }) => list(content.iter().map(|v| debug_fmt(d, t, v, false)).collect(), "[", "]")?,
        (Ty::HashMap(kt, vt), Val::Map { content, .. }) | (Ty::BTreeMap(kt, vt), Val::Map { content, .. }) => {
            if matches!(t, Ty::HashMap(..)) && !top { return None; }
            let mut c = content.clone();
            sort_keys(d, kt, &mut c);
            list(c.iter().map(|(k, v)| Some(format!("{}: {}", debug_fmt(d, kt, k, false)?, debug_fmt(d, vt, v, false)?))).collect(), "{", "}")?
        }
        (Ty::HashSet(kt), Val::Set { content, .. }) | (Ty::BTreeSet(kt), Val::Set { content, .. }) => {
            if matches!(t, Ty::HashSet(..)) && !top { return None; }
            let mut c: Vec<(Val, Val)> = content.iter().map(|k| (k.clone(), Val::Unit)).collect();
            sort_keys(d, kt, &mut c);
            list(c.iter().map(|(k, _)| debug_fmt(d, kt, k, false)).collect(), "{", "}")?
        }
        (Ty::Box(t), Val::Ptr(v)) | (Ty::Rc(t), Val::Ptr(v)) | (Ty::Arc(t), Val::Ptr(v)) | (Ty::Ref(t), Val::Ptr(v)) | (Ty::RefMut(t), Val::Ptr(v)) => debug_fmt(d, t, v, false)?,
        (Ty::RawConst(_), _) | (Ty::RawMut(_), _) => return None,
        (Ty::Cell(t), Val::Cell(v)) => format!("Cell {{ value: {} }}", debug_fmt(d, t, v, false)?),
        (Ty::RefCell(t), Val::Cell(v)) => format!("RefCell {{ value: {} }}", debug_fmt(d, t, v, false)?),
        _ => return None,
    })
}

/// the order Rust's Ord gives to keys of type `kt` (C-like enums order by discriminant)
pub fn cmp_key(d: &Decls, kt: &Ty, a: &Val, b: &Val) -> Ordering {
    match (kt, a, b) {
        (Ty::CEnum(i), Val::CEnum(x), Val::CEnum(y)) => {
            let e = &d.cenums[*i];
            match (e.variants[*x].1, e.variants[*y].1) { (Some(p), Some(q)) => p.cmp(&q), _ => x.cmp(y) }
        }
        (Ty::Tuple(ts), Val::Tuple(x), Val::Tuple(y)) => {
            for ((t, p), q) in ts.iter().zip(x).zip(y) {
                let c = cmp_key(d, t, p, q);
                if c != Ordering::Equal { return c; }
            }
            Ordering::Equal
        }
        _ => cmp_val(a, b),
    }
}
pub fn sort_keys(d: &Decls, kt: &Ty, c: &mut Vec<(Val, Val)>) {
    c.sort_by(|a, b| cmp_key(d, kt, &a.0, &b.0));
}
