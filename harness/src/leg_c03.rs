//! C03 e2e leg: step commands on generated programs against the native execution.
//!
//! Ground truth (no BugStalker code): the harness's own ptrace single-stepper gives the complete
//! native (pc, rsp) sequence from `main` to process exit; activations are derived from that
//! sequence (a call = rsp drops by 8 with a non-sequential pc; an activation is identified by its
//! canonical frame address = rsp at entry + 8; the owner of a position is the innermost activation
//! with cfa > rsp); line table from `llvm-dwarfdump --debug-line`; function ranges from `nm -S`.
//! Every history runs in a forked child with a watchdog (see iso.rs).
use crate::coqfmt::{self as cf, CasesFile};
use crate::e2e;
use crate::gen_prog;
use crate::iso::{self, End};
use crate::lineinfo::{self, Static};
use crate::reftrace;
use crate::rng::Rng;
use bugstalker::debugger::address::{Address, RelocatedAddress};
use bugstalker::debugger::StopReason;
use nix::unistd::Pid;
use serde_json::{Value, json};
use std::collections::{BTreeMap, HashMap, HashSet};

pub const BIAS: u64 = 0x5555_5555_4000;
const OLD_CFA: u64 = 1 << 62; // activations older than `main` (their real CFA is not observed)

pub struct Prep {
    pub name: String,
    pub bin: std::path::PathBuf,
    pub st: Static,
    pub pcs: Vec<u64>,
    pub rsps: Vec<u64>,
    pub cfas: Vec<u64>,
    pub native_out: Vec<u8>,
    pub native_code: Option<i32>,
    pub selfcheck_bad: u64,
    pub by_pc: HashMap<u64, Vec<u32>>,
    pub truncated: bool,
}

pub fn prepare_src(scratch: &str, name: &str, src: &str, args: &[String], max_steps: u64, allow_trunc: bool) -> Result<Prep, String> {
    let bin = e2e::compile(scratch, name, src, &[], None)?;
    let st = lineinfo::load(&bin)?;
    let main = st.funcs.iter().find(|f| f.name == format!("{name}::main")).ok_or("no main symbol")?.clone();
    let (native_out, native_code) = reftrace::native_run(&bin, args);
    let tr = reftrace::trace(&bin, args, &[(0, u64::MAX)], main.lo + BIAS, max_steps)?;
    if tr.truncated && !allow_trunc {
        return Err("reference trace truncated".into());
    }
    if !tr.truncated && (tr.stdout != native_out || tr.exit_code != native_code) {
        return Err(format!("reference tracer changed the program's behaviour: {:?} vs {:?}", tr.exit_code, native_code));
    }
    let pcs: Vec<u64> = tr.steps.iter().map(|s| s.0).collect();
    let rsps: Vec<u64> = tr.steps.iter().map(|s| s.1).collect();
    // activations
    let starts: HashSet<u64> = st.funcs.iter().map(|f| f.lo + BIAS).collect();
    let mut cfas = Vec::with_capacity(pcs.len());
    let mut stack: Vec<u64> = vec![];
    let mut selfcheck_bad = 0u64;
    for k in 0..pcs.len() {
        let mut called = false;
        if k == 0 {
            stack.push(rsps[0] + 8);
            called = true;
        } else if rsps[k] + 8 == rsps[k - 1] {
            let seq = pcs[k] > pcs[k - 1] && pcs[k] <= pcs[k - 1] + 15;
            if !seq || starts.contains(&pcs[k]) {
                stack.push(rsps[k] + 8);
                called = true;
            }
        }
        if !called {
            while let Some(top) = stack.last() {
                if *top <= rsps[k] { stack.pop(); } else { break; }
            }
        }
        // cross-check with the symbol table: a user function's first instruction is reached by a call
        // (or by a jump from a frame that has already popped its own: same cfa)
        if starts.contains(&pcs[k]) && k > 0 && !called && pcs[k - 1] != pcs[k] {
            let tail = stack.last().map(|t| *t == rsps[k] + 8).unwrap_or(true);
            if !tail {
                selfcheck_bad += 1;
            }
        }
        cfas.push(stack.last().copied().unwrap_or(OLD_CFA));
    }
    let mut by_pc: HashMap<u64, Vec<u32>> = HashMap::new();
    for (i, p) in pcs.iter().enumerate() {
        by_pc.entry(*p).or_default().push(i as u32);
    }
    Ok(Prep { name: name.to_string(), bin, st, pcs, rsps, cfas, native_out, native_code, selfcheck_bad, by_pc, truncated: tr.truncated })
}

impl Prep {
    fn ga(&self, pc: u64) -> Option<u64> {
        if pc >= BIAS && pc < BIAS + 0x1000_0000 { Some(pc - BIAS) } else { None }
    }
    fn stmt(&self, j: usize) -> bool {
        self.ga(self.pcs[j]).map(|a| self.st.is_stmt_boundary(a)).unwrap_or(false)
    }
    /// statement boundary, or a position outside the main binary (shared libraries may have
    /// separate debug files which this harness does not read: nothing is claimed there)
    fn stmt_or_foreign(&self, j: usize) -> bool {
        self.ga(self.pcs[j]).is_none() || self.stmt(j)
    }
    fn arrive(&self, j: usize) -> bool {
        j > 0 && self.pcs[j] != self.pcs[j - 1]
    }
    /// (file index, line, unit) of the row describing the position (last row among ties)
    fn line(&self, j: usize) -> Option<(usize, u32, u64)> {
        let a = self.ga(self.pcs[j])?;
        let u = self.st.unit_of(a)?;
        self.st.places(a).last().map(|r| (u, r.file, r.line))
    }
    fn has_func(&self, j: usize) -> bool {
        self.ga(self.pcs[j]).map(|a| self.st.unit_of(a).is_some() && self.st.func_of(a).is_some()).unwrap_or(false)
    }
    fn in_prologue(&self, j: usize) -> bool {
        self.ga(self.pcs[j]).map(|a| self.st.in_prologue(a)).unwrap_or(false)
    }
    /// inside the body of an inlined subroutine (a callee as far as `next` is concerned)
    fn in_inlined(&self, j: usize) -> bool {
        self.ga(self.pcs[j]).map(|a| self.st.in_inlined(a)).unwrap_or(false)
    }
    fn fname(&self, j: usize) -> String {
        self.ga(self.pcs[j]).and_then(|a| self.st.func_of(a)).map(|f| f.name.clone()).unwrap_or_else(|| "?".into())
    }
    /// first index > from with this (pc, rsp)
    pub fn locate(&self, from: usize, pc: u64, rsp: u64, inclusive: bool) -> Option<usize> {
        let v = self.by_pc.get(&pc)?;
        let p = v.partition_point(|i| if inclusive { (*i as usize) < from } else { (*i as usize) <= from });
        v[p..].iter().map(|i| *i as usize).find(|i| self.rsps[*i] == rsp)
    }
    fn stepi_target(&self, i: usize) -> Option<usize> {
        (i + 1..self.pcs.len()).find(|j| self.pcs[*j] != self.pcs[i])
    }
    fn return_point(&self, i: usize) -> Option<usize> {
        (i + 1..self.pcs.len()).find(|j| self.cfas[*j] > self.cfas[i])
    }
    /// the latest position where `step` from i may stop
    fn step_limit(&self, i: usize, from: usize) -> Option<usize> {
        let li = self.line(i);
        (from..self.pcs.len()).find(|j| {
            let j = *j;
            self.arrive(j) && self.stmt(j) && self.has_func(j) && !self.in_prologue(j) && (self.cfas[j] != self.cfas[i] || self.line(j) != li)
        })
    }
    /// the latest position where `next` from i may stop; None = the process exits first
    fn next_limit(&self, i: usize) -> Option<usize> {
        let li = self.line(i);
        let r = self.return_point(i);
        let end = r.unwrap_or(self.pcs.len());
        let b = (i + 1..end).find(|j| {
            let j = *j;
            self.arrive(j) && self.cfas[j] == self.cfas[i] && self.stmt(j) && self.line(j) != li && !self.in_inlined(j)
        });
        if b.is_some() {
            return b;
        }
        let r = r?;
        if self.stmt(r) {
            return Some(r);
        }
        // returned in the middle of the caller's line: the first statement boundary after that
        let lr = self.line(r);
        (r + 1..self.pcs.len()).find(|j| {
            let j = *j;
            self.arrive(j) && self.stmt(j) && self.has_func(j) && !self.in_prologue(j) && (self.cfas[j] != self.cfas[r] || self.line(j) != lr)
        })
    }
}

#[derive(Clone, Copy, Debug, PartialEq)]
pub enum Kind {
    Stepi,
    Step,
    Next,
    Finish,
}
impl Kind {
    fn name(self) -> &'static str {
        match self {
            Kind::Stepi => "stepi",
            Kind::Step => "step",
            Kind::Next => "next",
            Kind::Finish => "finish",
        }
    }
    fn coq(self) -> &'static str {
        match self {
            Kind::Stepi => "KStepi",
            Kind::Step => "KStep",
            Kind::Next => "KNext",
            Kind::Finish => "KFinish",
        }
    }
    fn from(s: &str) -> Kind {
        match s {
            "stepi" => Kind::Stepi,
            "step" => Kind::Step,
            "next" => Kind::Next,
            _ => Kind::Finish,
        }
    }
}

#[derive(Clone, Debug)]
pub enum Cmd {
    Do(Kind),
    BreakLine(usize),
    BreakAddr(u64),
    Continue,
}

#[derive(Clone, Debug)]
pub struct Plan {
    pub args: Vec<String>,
    pub break_line: usize,
    pub continues: usize,
    pub cmds: Vec<Cmd>,
    /// stop the history when the instruction under the pc is a jump to itself, after logging it
    pub selfjump_probe: bool,
}

fn regs_of(pid: Pid) -> Option<(u64, u64)> {
    nix::sys::ptrace::getregs(pid).ok().map(|r| (r.rip, r.rsp))
}

fn evs_json(evs: &[e2e::Ev]) -> Vec<Value> {
    evs.iter()
        .map(|e| match e {
            e2e::Ev::Step { pc, line, file, func } => json!({"t": "step", "pc": pc, "line": line, "file": file, "func": func}),
            e2e::Ev::Breakpoint { pc, num, line, .. } => json!({"t": "bp", "pc": pc, "num": num, "line": line}),
            e2e::Ev::Signal(s) => json!({"t": "signal", "sig": s}),
            e2e::Ev::Exit(c) => json!({"t": "exit", "code": c}),
            e2e::Ev::Watchpoint { pc, .. } => json!({"t": "wp", "pc": pc}),
        })
        .collect()
}

fn view_addr(a: &Address) -> u64 {
    match a {
        Address::Relocated(r) => r.as_usize() as u64,
        Address::Global(g) => usize::from(*g) as u64 + BIAS,
    }
}

/// runs in the forked child
fn history_child(log: &mut iso::Log, bin: &std::path::Path, src_name: &str, plan: &Plan) {
    let mut s = match e2e::launch(bin, &plan.args) {
        Ok(s) => s,
        Err(e) => {
            log.put(json!({"ev": "error", "what": format!("launch: {e}")}));
            return;
        }
    };
    let mut users: Vec<u64> = vec![];
    match s.dbg.set_breakpoint_at_line(src_name, plan.break_line as u64) {
        Ok(views) => {
            for v in views {
                users.push(view_addr(&v.addr));
            }
        }
        Err(e) => {
            log.put(json!({"ev": "nobreak", "what": e.to_string()}));
            return;
        }
    }
    log.put(json!({"ev": "break", "addrs": users}));
    let mut alive = true;
    for k in 0..=plan.continues {
        let r = if k == 0 { s.dbg.start_debugee_with_reason() } else { s.dbg.continue_debugee_with_reason() };
        match r {
            Ok(StopReason::Breakpoint(_, pc)) => {
                let regs = regs_of(s.pid_now());
                log.put(json!({"ev": "at", "pc": pc.as_usize(), "regs": regs}));
            }
            Ok(StopReason::DebugeeExit(c)) => {
                log.put(json!({"ev": "exit_before_steps", "code": c}));
                alive = false;
                break;
            }
            Ok(o) => {
                log.put(json!({"ev": "error", "what": format!("unexpected stop {o:?}")}));
                return;
            }
            Err(e) => {
                log.put(json!({"ev": "error", "what": format!("run: {e}")}));
                return;
            }
        }
    }
    let _ = s.events.take();
    if alive {
        for (k, c) in plan.cmds.iter().enumerate() {
            let pid = s.pid_now();
            match c {
                Cmd::BreakLine(l) => {
                    if let Ok(views) = s.dbg.set_breakpoint_at_line(src_name, *l as u64) {
                        for v in views {
                            users.push(view_addr(&v.addr));
                        }
                    }
                    log.put(json!({"ev": "users", "addrs": users}));
                    continue;
                }
                Cmd::BreakAddr(a) => {
                    let r = s.dbg.set_breakpoint_at_addr(RelocatedAddress::from(*a as usize)).map(|v| view_addr(&v.addr));
                    if let Ok(a) = r {
                        users.push(a);
                    }
                    log.put(json!({"ev": "users", "addrs": users}));
                    continue;
                }
                Cmd::Continue => {
                    let r = s.dbg.continue_debugee_with_reason();
                    let regs = regs_of(pid);
                    let evs = s.events.take();
                    log.put(json!({"ev": "cont", "k": k, "res": format!("{:?}", r.as_ref().map_err(|e| e.to_string())), "regs": regs, "evs": evs_json(&evs)}));
                    if regs.is_none() {
                        break;
                    }
                    continue;
                }
                Cmd::Do(kind) => {
                    if plan.selfjump_probe {
                        if let Some((pc, _)) = regs_of(pid) {
                            if let Ok(b) = e2e::proc_mem_read(pid, pc, 2) {
                                // 0xcc: our own breakpoint may sit on the first byte
                                if b[1] == 0xfe && (b[0] == 0xeb || b[0] == 0xcc) {
                                    log.put(json!({"ev": "selfjump", "pc": pc}));
                                }
                            }
                        }
                    }
                    log.put(json!({"ev": "cmd_begin", "k": k, "kind": kind.name()}));
                    let r = match kind {
                        Kind::Stepi => s.dbg.stepi(),
                        Kind::Step => s.dbg.step_into(),
                        Kind::Next => s.dbg.step_over(),
                        Kind::Finish => s.dbg.step_out(),
                    };
                    let regs = regs_of(pid);
                    let evs = s.events.take();
                    let res = match &r {
                        Ok(()) => "ok".to_string(),
                        Err(bugstalker::debugger::Error::ProcessExit(c)) => format!("process-exit:{c}"),
                        Err(e) => format!("err:{e}"),
                    };
                    // C02 for step commands: afterwards the text differs from the ELF file at the user's breakpoints
                    // (and the entry point) only - no temporary breakpoint of the step may be left behind
                    let patched: Option<Vec<u64>> = if regs.is_some() { crate::leg_c01::patched_addresses(pid, bin).ok() } else { None };
                    log.put(json!({"ev": "cmd_end", "k": k, "kind": kind.name(), "res": res, "regs": regs, "evs": evs_json(&evs), "users": users, "patched": patched}));
                    if regs.is_none() {
                        break;
                    }
                }
            }
        }
    }
    let exit_evs = s.events.take();
    drop(s.dbg);
    // the forwarder thread may lag behind on a loaded machine: wait until the captured output has settled
    let t0 = std::time::Instant::now();
    let mut last = usize::MAX;
    loop {
        let n = s.out.lock().unwrap().len();
        if (n == last && (n > 0 || t0.elapsed().as_millis() > 2000)) || t0.elapsed().as_millis() > 10_000 {
            break;
        }
        last = n;
        std::thread::sleep(std::time::Duration::from_millis(50));
    }
    let out = String::from_utf8_lossy(&s.out.lock().unwrap()).to_string();
    log.put(json!({"ev": "final", "stdout": out, "evs": evs_json(&exit_evs)}));
}

pub struct StepRecord {
    pub kind: Kind,
    pub start: usize,
    pub stop: Option<usize>, // None: the process exited / position not found
    pub ok: bool,
    pub key: String,
    pub note: String,
    pub users: Vec<u64>,
    pub place: Option<(String, u64)>,
    pub nontrivial: bool,
}

fn classify(p: &Prep, kind: Kind, i: usize, s: Option<usize>, exited: bool, lost: bool, users: &[u64]) -> (bool, String, String) {
    let n = p.pcs.len();
    if lost {
        return (false, format!("{}-unknown-position", kind.name()), "the thread was left at a (pc, rsp) that the native execution never reaches after the start position".into());
    }
    match kind {
        Kind::Stepi => {
            let t = p.stepi_target(i);
            match (t, s) {
                (None, None) if exited => (true, "".into(), "".into()),
                (Some(t), Some(s)) if t == s => (true, "".into(), "".into()),
                _ => (false, "stepi".into(), format!("expected position {:?}, got {:?} (exited {exited})", t, s)),
            }
        }
        Kind::Finish => {
            let r = p.return_point(i);
            match (r, s) {
                (None, None) if exited => (true, "".into(), "".into()),
                (Some(r), Some(s)) if r == s => (true, "".into(), "".into()),
                (Some(r), Some(s)) if s < r && p.cfas[s] <= p.cfas[i] && p.pcs[s] == p.pcs[r] => (
                    false,
                    "finish-recursion".into(),
                    format!("finish from {} stopped at the return address when a deeper activation returned (cfa there {:#x}, start cfa {:#x}), {} instructions before the real return", p.fname(i), p.cfas[s], p.cfas[i], r - s),
                ),
                _ => (false, "finish".into(), format!("expected the position after the return {:?}, got {:?} (exited {exited})", r, s)),
            }
        }
        Kind::Next => {
            let lim = p.next_limit(i);
            match (lim, s) {
                (None, None) if exited => (true, "".into(), "".into()),
                (_, None) => (false, "next-exit".into(), format!("the process exited although a stop was due at {:?}", lim)),
                (lim, Some(s)) => {
                    if p.cfas[s] < p.cfas[i] {
                        let same = p.fname(s) == p.fname(i);
                        return (false, if same { "next-recursion".into() } else { "next-in-callee".into() },
                                format!("next from {} stopped in a deeper activation of {} (cfa {:#x} < {:#x})", p.fname(i), p.fname(s), p.cfas[s], p.cfas[i]));
                    }
                    if !p.stmt_or_foreign(s) {
                        return (false, "next-nonstmt".into(), format!("stopped at {:#x} which is not a statement boundary", p.pcs[s]));
                    }
                    let lim = lim.unwrap_or(n);
                    if s > lim {
                        let skipped_user = users.contains(&p.pcs[lim]);
                        return (false, if skipped_user { "next-userbp-skip".into() } else { "next-late".into() },
                                format!("the statement boundary at {:#x} (line {:?}) was passed{}", p.pcs[lim], p.line(lim).map(|l| l.2), if skipped_user { "; a user breakpoint is set there" } else { "" }));
                    }
                    (true, "".into(), "".into())
                }
            }
        }
        Kind::Step => {
            let lim = p.step_limit(i, i + 1);
            match (lim, s) {
                (None, None) if exited => (true, "".into(), "".into()),
                (_, None) => (false, "step-exit".into(), format!("the process exited although a stop was due at {:?}", lim)),
                (lim, Some(s)) => {
                    if !p.stmt_or_foreign(s) {
                        return (false, "step-nonstmt".into(), format!("stopped at {:#x} which is not a statement boundary", p.pcs[s]));
                    }
                    let lim = lim.unwrap_or(n);
                    if s > lim {
                        return (false, "step-late".into(), format!("the statement boundary at {:#x} in {} (line {:?}) was passed", p.pcs[lim], p.fname(lim), p.line(lim).map(|l| l.2)));
                    }
                    (true, "".into(), "".into())
                }
            }
        }
    }
}

/// Gallina step_case for one step (runtime addresses), if the model's inputs can be produced
fn coq_case(p: &Prep, user_unit: usize, rows_txt_funcs: &(String, String, String), rec: &StepRecord) -> Option<String> {
    let s = rec.stop?;
    let i = rec.start;
    let in_user = |j: usize| p.ga(p.pcs[j]).map(|a| p.st.unit_of(a)) == Some(Some(user_unit));
    let no_dwarf = |j: usize| p.ga(p.pcs[j]).map(|a| p.st.unit_of(a).is_none()).unwrap_or(true);
    if !in_user(i) || !in_user(s) {
        return None;
    }
    // how far the model may look: to the stop and, for the spec, a little beyond
    let hi = (s + 3).min(p.pcs.len());
    if hi - i > 2500 {
        return None;
    }
    match rec.kind {
        Kind::Step | Kind::Stepi => {
            if !(i..hi).all(|j| in_user(j) || no_dwarf(j)) {
                return None;
            }
        }
        Kind::Next => {
            // the step_in tail after a return into the middle of a line looks at every pc
            if let Some(r) = p.return_point(i) {
                if r <= s && !(r..hi).all(|j| in_user(j) || no_dwarf(j)) {
                    return None;
                }
            }
        }
        Kind::Finish => {}
    }
    let ret = p.return_point(i).map(|r| p.pcs[r]);
    let trace: Vec<String> = (i..hi).map(|j| format!("{{| pc := {}; cfa := {}; sig := 0 |}}", cf::n(p.pcs[j] as u128), cf::n(p.cfas[j] as u128))).collect();
    let place = rec.place.as_ref().and_then(|(f, l)| {
        let u = &p.st.units[user_unit];
        u.files.iter().find(|(_, n)| f.ends_with(n.as_str())).map(|(fi, _)| (*fi, *l))
    });
    let _ = rows_txt_funcs;
    Some(format!(
        "{{| sc_trace := [{}]; sc_rows := rows; sc_funcs := funcs; sc_units := units; sc_start := 0%nat; sc_kind := {}; sc_ret := {}; sc_users := {}; sc_stop_pc := {}; sc_stop_cfa := {}; sc_place := {} |}}",
        trace.join("; "),
        rec.kind.coq(),
        cf::option(&ret, |a| cf::n(*a as u128)),
        cf::list(&rec.users, |a| cf::n(*a as u128)),
        cf::n(p.pcs[s] as u128),
        cf::n(p.cfas[s] as u128),
        cf::option(&place, |(f, l)| format!("({}, {})", cf::n(*f as u128), cf::n(*l as u128))),
    ))
}

/// rows / funcs / units of the user's compilation unit as Gallina definitions (runtime addresses)
fn coq_prelude(p: &Prep, user_unit: usize) -> String {
    let u = &p.st.units[user_unit];
    let rows: Vec<String> = u.rows.iter().filter(|r| r.addr != 0).map(|r| {
        format!("{{| r_addr := {}; r_file := {}; r_line := {}; r_stmt := {} |}}", cf::n((r.addr + BIAS) as u128), cf::n(r.file as u128), cf::n(r.line as u128), cf::boolean(r.stmt))
    }).collect();
    let mut funcs = vec![];
    for f in &p.st.funcs {
        if p.st.unit_of(f.lo) != Some(user_unit) {
            continue;
        }
        // prolog(): from the row found for low_pc to the first later row flagged prologue_end (the
        // walk does not stop at the end of the function)
        let start = u.rows.partition_point(|r| r.addr <= f.lo).saturating_sub(1);
        let pe = u.rows[start..].iter().find(|r| r.prologue_end).map(|r| r.addr).unwrap_or(f.lo);
        let file = u.rows.iter().find(|r| r.addr == f.lo && !r.end_seq).map(|r| r.file);
        let pe_idx = u.rows[start..].iter().position(|r| r.prologue_end).map(|x| x + start).unwrap_or(start);
        let epi_idx = u.rows[pe_idx..].iter().take_while(|r| r.addr < f.hi).position(|r| r.epilogue_begin && r.addr >= f.lo).map(|x| x + pe_idx);
        let epi = epi_idx.map(|i| u.rows[i].addr + BIAS);
        // step.rs: the epilogue lasts until the first later row of another (file, line)
        let epi_end = epi_idx.and_then(|i| u.rows[i + 1..].iter().find(|r| r.file != u.rows[i].file || r.line != u.rows[i].line).map(|r| r.addr + BIAS));
        funcs.push(format!(
            "{{| f_lo := {}; f_hi := {}; f_prolog_end := {}; f_epilog := {}; f_epilog_end := {}; f_file := {}; f_inline := [] |}}",
            cf::n((f.lo + BIAS) as u128), cf::n((f.hi + BIAS) as u128), cf::n((pe + BIAS) as u128),
            cf::option(&epi, |a| cf::n(*a as u128)), cf::option(&epi_end, |a| cf::n(*a as u128)), cf::option(&file, |x| cf::n(*x as u128))
        ));
    }
    let units: Vec<String> = u.seqs.iter().filter(|s| s.0 != 0).map(|(a, b)| format!("({}, {})", cf::n((a + BIAS) as u128), cf::n((b + BIAS) as u128))).collect();
    format!(
        "Definition rows : list row := [{}].\nDefinition funcs : list func := [{}].\nDefinition units : list (N * N) := [{}].",
        rows.join("; "), funcs.join("; "), units.join("; ")
    )
}

pub struct HistOutcome {
    pub records: Vec<StepRecord>,
    pub findings: Vec<(String, String)>, // (key, note) outside the per-step verdicts
    pub errors: Vec<String>,
    pub end: End,
    pub exit_ok: Option<bool>,
}

/// parent side: run the plan isolated and judge every step on the reference trace
pub fn run_history(p: &Prep, scratch: &str, tag: &str, plan: &Plan, timeout_ms: u64) -> HistOutcome {
    let src_name = format!("{}.rs", p.name);
    let bin = p.bin.clone();
    let plan2 = plan.clone();
    let res = iso::run_isolated(scratch, tag, timeout_ms, Some(("\"selfjump\"", 4_000)), move |log| history_child(log, &bin, &src_name, &plan2));
    let mut out = HistOutcome { records: vec![], findings: vec![], errors: vec![], end: res.end.clone(), exit_ok: None };
    if std::env::var("C03_DEBUG").is_ok() {
        eprintln!("== {tag} {:?}", res.end);
        for l in &res.lines {
            eprintln!("   {l}");
        }
        eprintln!("   stderr: {}", res.stderr.chars().take(400).collect::<String>());
    }
    let mut cur: Option<usize> = None;
    let bin_len = std::fs::metadata(&p.bin).map(|m| m.len()).unwrap_or(0);
    let entry_addr = std::fs::read(&p.bin).ok().and_then(|b| b.get(24..32).map(|x| u64::from_le_bytes(x.try_into().unwrap()))).unwrap_or(0) + BIAS;
    let mut bp_addrs: Vec<u64> = vec![];
    let mut pending: Option<(Kind, bool)> = None; // (kind, at a self-jump)
    let mut selfjump = false;
    let mut lost = false;
    let mut exit_seen: Option<i64> = None;
    for l in &res.lines {
        let ev = l["ev"].as_str().unwrap_or("");
        match ev {
            "error" => out.errors.push(format!("{tag}: {}", l["what"].as_str().unwrap_or("?"))),
            "break" => bp_addrs = l["addrs"].as_array().map(|a| a.iter().filter_map(|x| x.as_u64()).collect()).unwrap_or_default(),
            "at" => {
                let (Some(pc), Some(rsp)) = (l["regs"][0].as_u64(), l["regs"][1].as_u64()) else {
                    out.errors.push(format!("{tag}: no registers at a breakpoint stop"));
                    continue;
                };
                if p.truncated {
                    continue;
                }
                // the next arrival at one of the breakpoint addresses
                let from = cur.map(|c| c + 1).unwrap_or(0);
                let want = (from..p.pcs.len()).find(|j| bp_addrs.contains(&p.pcs[*j]) && (*j == 0 || p.pcs[*j] != p.pcs[*j - 1] || *j == from));
                match want {
                    Some(j) if p.pcs[j] == pc && p.rsps[j] == rsp => cur = Some(j),
                    _ => {
                        out.errors.push(format!("{tag}: breakpoint stop at ({pc:#x}, {rsp:#x}) is not the next arrival {:?} of the native run", want.map(|j| (p.pcs[j], p.rsps[j]))));
                        cur = p.locate(from, pc, rsp, true);
                        if cur.is_none() {
                            lost = true;
                        }
                    }
                }
            }
            "selfjump" => selfjump = true,
            "cmd_begin" => pending = Some((Kind::from(l["kind"].as_str().unwrap_or("")), selfjump)),
            "cont" => {
                // a continue inside a directed history: resynchronise on the registers
                if let (Some(pc), Some(rsp), Some(c)) = (l["regs"][0].as_u64(), l["regs"][1].as_u64(), cur) {
                    cur = p.locate(c, pc, rsp, false);
                    if cur.is_none() {
                        lost = true;
                    }
                }
            }
            "cmd_end" => {
                pending = None;
                let kind = Kind::from(l["kind"].as_str().unwrap_or(""));
                let res_s = l["res"].as_str().unwrap_or("").to_string();
                let regs = match (l["regs"][0].as_u64(), l["regs"][1].as_u64()) {
                    (Some(a), Some(b)) => Some((a, b)),
                    _ => None,
                };
                let evs = l["evs"].as_array().cloned().unwrap_or_default();
                let users: Vec<u64> = l["users"].as_array().map(|a| a.iter().filter_map(|x| x.as_u64()).collect()).unwrap_or_default();
                let exit_ev = evs.iter().find(|e| e["t"] == "exit").and_then(|e| e["code"].as_i64());
                if exit_ev.is_some() {
                    exit_seen = exit_ev;
                }
                let exited = regs.is_none();
                let Some(i) = cur else {
                    continue;
                };
                if lost || p.truncated {
                    continue;
                }
                let (s, lost_now) = match regs {
                    Some((pc, rsp)) => match p.locate(i, pc, rsp, false) {
                        Some(s) => (Some(s), false),
                        None => (None, true),
                    },
                    None => (None, false),
                };
                let (mut ok, mut key, mut note) = classify(p, kind, i, s, exited, lost_now, &users);
                if let Some(pa) = l["patched"].as_array() {
                    let entry = entry_addr;
                    let extra: Vec<u64> = pa.iter().filter_map(|x| x.as_u64()).filter(|a| !users.contains(a) && *a != entry).collect();
                    let missing: Vec<u64> = users.iter().copied().filter(|u| *u >= BIAS && *u < BIAS + bin_len).filter(|u| !pa.iter().any(|x| x.as_u64() == Some(*u))).collect();
                    if !extra.is_empty() || !missing.is_empty() {
                        out.findings.push(("text-not-clean".to_string(), format!("after {} the text differs from the ELF file at {:x?} besides the user's breakpoints; user breakpoints without a trap byte: {:x?}", kind.name(), extra, missing)));
                    }
                }
                // what the debugger said
                let step_ev = evs.iter().find(|e| e["t"] == "step");
                let mut place = None;
                if ok {
                    if exited {
                        // an interrupted step says so: ProcessExit error or the exit hook, with the real status
                        let said = res_s.starts_with("process-exit") || exit_ev.is_some();
                        if !said {
                            ok = false;
                            key = format!("{}-silent-exit", kind.name());
                            note = format!("the process exited during the step; result {res_s}, no exit event");
                        }
                    } else if let Some(se) = step_ev {
                        let (pc, _) = regs.unwrap();
                        let rep_pc = se["pc"].as_u64().unwrap_or(0);
                        let rep_line = se["line"].as_u64();
                        let rep_file = se["file"].as_str().unwrap_or("").to_string();
                        let cands = p.ga(pc).map(|a| p.st.lines_of(a)).unwrap_or_default();
                        let place_ok = rep_pc == pc
                            && match rep_line {
                                Some(rl) => cands.is_empty() || cands.iter().any(|(f, ln)| *ln == rl && rep_file.ends_with(f.as_str())),
                                None => cands.is_empty(),
                            };
                        if let Some(rl) = rep_line {
                            place = Some((rep_file.clone(), rl));
                        }
                        if !place_ok {
                            ok = false;
                            key = "place".into();
                            note = format!("on_step reported pc {rep_pc:#x} {rep_file}:{rep_line:?}; the thread is at {pc:#x} whose line-table place is {cands:?}");
                        }
                    } else if res_s == "ok" && !evs.iter().any(|e| e["t"] == "signal" || e["t"] == "bp" || e["t"] == "wp") {
                        ok = false;
                        key = format!("{}-silent", kind.name());
                        note = "the command returned Ok without any hook (step, breakpoint, signal, exit)".into();
                    }
                    if ok && !res_s.starts_with("ok") && !res_s.starts_with("process-exit") {
                        ok = false;
                        key = format!("{}-error", kind.name());
                        note = format!("the command failed: {res_s}");
                    }
                }
                let nontrivial = match s {
                    Some(s) => kind != Kind::Stepi && (i..=s).any(|j| p.cfas[j] != p.cfas[i]),
                    None => true,
                };
                out.records.push(StepRecord { kind, start: i, stop: s, ok, key, note, users, place, nontrivial });
                match s {
                    Some(s) => cur = Some(s),
                    None => {
                        if lost_now {
                            lost = true;
                        }
                        cur = None;
                    }
                }
            }
            "final" => {
                let evs = l["evs"].as_array().cloned().unwrap_or_default();
                if let Some(c) = evs.iter().find(|e| e["t"] == "exit").and_then(|e| e["code"].as_i64()) {
                    exit_seen = Some(c);
                }
            }
            "panic" => {
                let loc = l["loc"].as_str().unwrap_or("").to_string();
                let msg = l["msg"].as_str().unwrap_or("").to_string();
                let kind = pending.map(|k| k.0.name()).unwrap_or("none");
                // does the native execution end before the step could stop anywhere?
                let runs_to_exit = match (pending, cur) {
                    (Some((Kind::Stepi, _)), Some(c)) => p.stepi_target(c).is_none(),
                    (Some((Kind::Step, _)), Some(c)) => p.step_limit(c, c + 1).is_none(),
                    (Some((Kind::Next, _)), Some(c)) => p.next_limit(c).is_none(),
                    (Some((Kind::Finish, _)), Some(c)) => p.return_point(c).is_none(),
                    _ => false,
                };
                let key = if loc.contains("tracee.rs") && msg.contains("None") && runs_to_exit {
                    "panic-step-at-exit".to_string()
                } else {
                    format!("panic:{}", loc.rsplit('/').next().unwrap_or(&loc))
                };
                out.findings.push((key, format!("panic during `{kind}` at {loc}: {msg}; trace position {:?} of {}", cur, p.pcs.len())));
            }
            _ => {}
        }
    }
    match &res.end {
        End::Timeout => {
            let (kind, sj) = pending.map(|(k, s)| (k.name(), s)).unwrap_or(("none", false));
            if sj {
                out.findings.push(("stepi-selfjump".into(), format!("`{kind}` on an instruction that jumps to itself (eb fe) did not return (watchdog: no progress for 4 s)")));
            } else {
                out.findings.push((format!("hang-{kind}"), format!("`{kind}` did not return within {timeout_ms} ms; trace position {:?}", cur)));
            }
        }
        End::Crashed(w) => {
            if !out.findings.iter().any(|f| f.0.starts_with("panic")) {
                out.findings.push(("crash".into(), format!("the history's process died: {w}; stderr: {}", res.stderr.chars().take(300).collect::<String>())));
            }
        }
        End::Completed => {}
    }
    if let Some(c) = exit_seen {
        out.exit_ok = Some(Some(c as i32) == p.native_code);
        if Some(c as i32) != p.native_code && !p.truncated {
            out.findings.push(("exit-code".into(), format!("exit hook reported {c}, the native exit status is {:?}", p.native_code)));
        }
    }
    out
}


/// one cases file per program (its rows / funcs / units are the file's prelude); file k holds the
/// cases with global indices k * shard ..
#[allow(clippy::too_many_arguments)]
fn flush_cases(p: &Prep, uu: usize, cases: Vec<(String, Value)>, all: &mut CasesFile, meta: &mut Vec<Value>, files: &mut Vec<String>,
               file_no: &mut usize, total: &mut usize, out_dir: &str, shard: usize) {
    if cases.is_empty() {
        return;
    }
    all.prelude = coq_prelude(p, uu);
    all.cases.clear();
    for (c, m) in cases.into_iter().take(shard) {
        all.push(c);
        meta.push(m);
    }
    *total += all.cases.len();
    for f in all.write(out_dir, "tmp_C03", 1_000_000) {
        let to = format!("{}/cases_C03_{}.v", out_dir, *file_no);
        let _ = std::fs::rename(&f, &to);
        files.push(to);
    }
    while meta.len() % shard != 0 {
        meta.push(json!({"pad": true}));
    }
    *file_no += 1;
    all.cases.clear();
}

pub const DIRECTED_SRC: &str = r#"use std::hint::black_box;
#[inline(never)]
fn rec_sum(n: u64, acc: u64) -> u64 {
    if n == 0 {
        return black_box(acc);
    }
    let deeper = rec_sum(n - 1, acc.wrapping_mul(3).wrapping_add(n));
    black_box(deeper).wrapping_add(1)
}
#[inline(never)]
fn spin(mut x: u64) -> u64 {
    x = x.wrapping_add(1);
    black_box(x);
    loop {}
}
#[inline(never)]
fn lines(a: u64) -> u64 {
    let b = a.wrapping_add(1);
    let c = b.wrapping_mul(3);
    let d = c ^ 5;
    black_box(d)
}
fn main() {
    if std::env::args().count() > 1 {
        spin(black_box(1));
    }
    let mut total = rec_sum(black_box(4), black_box(1));
    total = total.wrapping_add(lines(total));
    println!("total={}", total);
    std::process::exit((total % 7) as i32);
}
"#;
const D_LINE_REC_CALL: usize = 7;
const D_LINE_REC_IF: usize = 4;
const D_LINE_SPIN: usize = 14;
const D_LINE_LINES_B: usize = 18;
const D_LINE_LINES_C: usize = 19;
const D_LINE_EXIT: usize = 30;

/// C02 for interrupted steps: a `next` / `finish` / `step` that ends early because a handled signal arrives inside the callee
/// must leave no temporary breakpoint behind (text = ELF + the user's breakpoints), later continues must not stop at ghosts,
/// and the program must end with its native output and status.  Own debuggee, no reference trace needed.
const SIGSTEP_SRC: &str = r#"use std::hint::black_box;
use std::sync::atomic::{AtomicU64, Ordering};
static HITS: AtomicU64 = AtomicU64::new(0);
extern "C" fn on_usr1(_s: i32) { HITS.fetch_add(1, Ordering::SeqCst); }
extern "C" { fn signal(sig: i32, h: extern "C" fn(i32)) -> usize; fn raise(sig: i32) -> i32; }
#[inline(never)]
fn poke(x: u64) -> u64 {
    unsafe { raise(10) };
    black_box(x) + 1
}
#[inline(never)]
fn work(mut a: u64) -> u64 {
    a = a.wrapping_mul(3);
    a = poke(a);
    a = a.wrapping_add(7);
    a = black_box(a) ^ 5;
    a
}
fn main() {
    unsafe { signal(10, on_usr1) };
    let mut t = 1u64;
    for _ in 0..3 { t = work(t); }
    println!("t={} hits={}", t, HITS.load(Ordering::SeqCst));
    std::process::exit((t % 5) as i32);
}
"#;
const SIGSTEP_LINE_CALL: u64 = 14;
const SIGSTEP_LINE_IN_POKE: u64 = 8;

fn sigstep_child(log: &mut iso::Log, bin: &std::path::Path, kind: Kind) {
    let mut s = match e2e::launch(bin, &[]) {
        Ok(s) => s,
        Err(e) => {
            log.put(json!({"ev": "error", "what": format!("launch: {e}")}));
            return;
        }
    };
    let line = if kind == Kind::Finish { SIGSTEP_LINE_IN_POKE } else { SIGSTEP_LINE_CALL };
    let users: Vec<u64> = match s.dbg.set_breakpoint_at_line("sigstep.rs", line) {
        Ok(v) => v.iter().map(|x| view_addr(&x.addr)).collect(),
        Err(e) => {
            log.put(json!({"ev": "error", "what": format!("break: {e}")}));
            return;
        }
    };
    if let Err(e) = s.dbg.start_debugee_with_reason() {
        log.put(json!({"ev": "error", "what": format!("start: {e}")}));
        return;
    }
    let pid = s.pid_now();
    let r = match kind {
        Kind::Next => s.dbg.step_over(),
        Kind::Step => s.dbg.step_into(),
        Kind::Finish => s.dbg.step_out(),
        Kind::Stepi => s.dbg.stepi(),
    };
    let evs = s.events.take();
    let interrupted = evs.iter().any(|e| matches!(e, e2e::Ev::Signal(_)));
    let patched = crate::leg_c01::patched_addresses(pid, bin).ok();
    log.put(json!({"ev": "after_step", "kind": kind.name(), "res": format!("{:?}", r.map_err(|e| e.to_string())), "interrupted": interrupted, "patched": patched, "users": users}));
    // the user's breakpoint goes away; from here on nothing may stop the program but its own signals
    for v in s.dbg.breakpoints_snapshot().iter().map(|v| v.number).collect::<Vec<_>>() {
        let _ = s.dbg.remove_breakpoint_by_number(v);
    }
    let patched2 = crate::leg_c01::patched_addresses(pid, bin).ok();
    let mut ghost_stops = 0u64;
    let mut signal_stops = 0u64;
    let mut code: Option<i32> = None;
    for _ in 0..60 {
        match s.dbg.continue_debugee_with_reason() {
            Ok(StopReason::DebugeeExit(c)) => {
                code = Some(c);
                break;
            }
            Ok(StopReason::SignalStop(_, _)) => signal_stops += 1,
            Ok(_) => ghost_stops += 1,
            Err(e) => {
                log.put(json!({"ev": "error", "what": format!("continue: {e}")}));
                break;
            }
        }
    }
    // the forwarder thread may lag behind on a loaded machine: wait until the captured output has settled
    let t0 = std::time::Instant::now();
    let mut last = usize::MAX;
    loop {
        let n = s.out.lock().unwrap().len();
        if (n == last && (n > 0 || t0.elapsed().as_millis() > 3000)) || t0.elapsed().as_millis() > 10_000 {
            break;
        }
        last = n;
        std::thread::sleep(std::time::Duration::from_millis(100));
    }
    let out = String::from_utf8_lossy(&s.out.lock().unwrap()).to_string();
    log.put(json!({"ev": "end", "patched_after_remove": patched2, "ghost_stops": ghost_stops, "signal_stops": signal_stops, "code": code, "stdout": out}));
}

/// runs the three interrupted-step histories; returns (checks done, findings)
fn sigstep_checks(scratch: &str, hist: &mut BTreeMap<String, u64>, errors: &mut Vec<String>) -> Vec<(String, String)> {
    let mut findings = vec![];
    let bin = match e2e::compile(scratch, "sigstep", SIGSTEP_SRC, &[], None) {
        Ok(b) => b,
        Err(e) => {
            errors.push(format!("sigstep: compile: {e}"));
            return findings;
        }
    };
    let (native_out, native_code) = reftrace::native_run(&bin, &[]);
    let entry = std::fs::read(&bin).ok().and_then(|b| b.get(24..32).map(|x| u64::from_le_bytes(x.try_into().unwrap()))).unwrap_or(0) + BIAS;
    for kind in [Kind::Next, Kind::Step, Kind::Finish] {
        let bin2 = bin.clone();
        let res = iso::run_isolated(scratch, &format!("sigstep-{}", kind.name()), 120_000, None, move |log| sigstep_child(log, &bin2, kind));
        *hist.entry("interrupted-step-histories".into()).or_default() += 1;
        let tag = format!("interrupted {}", kind.name());
        if !matches!(res.end, End::Completed) {
            findings.push(("interrupted-step-crash".into(), format!("{tag}: {:?} {}", res.end, res.stderr.chars().take(200).collect::<String>())));
            continue;
        }
        for l in &res.lines {
            match l["ev"].as_str().unwrap_or("") {
                "error" => errors.push(format!("sigstep {}: {}", kind.name(), l["what"].as_str().unwrap_or("?"))),
                "after_step" => {
                    let users: Vec<u64> = l["users"].as_array().map(|a| a.iter().filter_map(|x| x.as_u64()).collect()).unwrap_or_default();
                    let extra: Vec<u64> = l["patched"].as_array().map(|a| a.iter().filter_map(|x| x.as_u64()).filter(|a| !users.contains(a) && *a != entry).collect()).unwrap_or_default();
                    *hist.entry(format!("interrupted-step:{}:signal-seen:{}", kind.name(), l["interrupted"])).or_default() += 1;
                    if !extra.is_empty() {
                        findings.push(("text-not-clean".into(), format!("{tag} by a handled signal: temporary breakpoints left at {:x?}", extra)));
                    }
                }
                "end" => {
                    let extra: Vec<u64> = l["patched_after_remove"].as_array().map(|a| a.iter().filter_map(|x| x.as_u64()).filter(|a| *a != entry).collect()).unwrap_or_default();
                    if !extra.is_empty() {
                        findings.push(("text-not-clean".into(), format!("{tag}: after removing every breakpoint the text still differs from the ELF file at {:x?}", extra)));
                    }
                    if l["ghost_stops"].as_u64().unwrap_or(0) > 0 {
                        findings.push(("ghost-stops".into(), format!("{tag}: {} stops at no breakpoint of the user afterwards", l["ghost_stops"])));
                    }
                    let out = l["stdout"].as_str().unwrap_or("").as_bytes().to_vec();
                    let code = l["code"].as_i64().map(|c| c as i32);
                    if out != native_out || code != native_code {
                        findings.push(("behaviour-changed".into(), format!("{tag}: output/status {:?}/{:?}, native {:?}/{:?}", String::from_utf8_lossy(&out), code, String::from_utf8_lossy(&native_out), native_code)));
                    }
                }
                _ => {}
            }
        }
    }
    findings
}

pub fn run(args: &[String]) -> i32 {
    let seed: u64 = args.first().and_then(|s| s.parse().ok()).unwrap_or(1);
    let n_progs: usize = args.get(1).and_then(|s| s.parse().ok()).unwrap_or(3);
    let out_dir = args.get(2).cloned().unwrap_or_else(|| "../coq/cases".into());
    let scratch = args.get(3).cloned().unwrap_or_else(|| "/verif/.scratch/c03".into());
    let hist_per_prog: usize = args.get(4).and_then(|s| s.parse().ok()).unwrap_or(8);
    let max_cmds: usize = args.get(5).and_then(|s| s.parse().ok()).unwrap_or(40);
    let mut rng = Rng::new(seed ^ 0xC03);
    let mut hist: BTreeMap<String, u64> = BTreeMap::new();
    let mut errors: Vec<String> = vec![];
    let mut files: Vec<String> = vec![];
    let mut case_meta: Vec<Value> = vec![];
    let mut failures: Vec<Value> = vec![]; // harness-side spec failures, with keys
    let mut samples: Vec<Value> = vec![];
    let mut seen = HashSet::new();
    let (mut n_steps, mut nontrivial) = (0usize, 0usize);
    let mut coq_cases_total = 0usize;
    let shard = 64usize;
    let mut all_cases = CasesFile::new(&["Model.Step"], "step_case", "step_check");
    let mut file_no = 0usize;

    let mut absorb = |p: &Prep, tagname: &str, plan: &Plan, o: HistOutcome, hist: &mut BTreeMap<String, u64>, errors: &mut Vec<String>,
                      failures: &mut Vec<Value>, samples: &mut Vec<Value>, cases: &mut Vec<(String, Value)>, user_unit: Option<usize>| {
        for e in o.errors {
            errors.push(e);
        }
        *hist.entry(format!("end:{}", match &o.end { End::Completed => "completed", End::Timeout => "timeout", End::Crashed(_) => "crashed" })).or_default() += 1;
        for (key, note) in &o.findings {
            failures.push(json!({"key": format!("c03-e2e:{key}"), "note": note, "history": tagname, "plan": format!("{:?}", plan)}));
        }
        for r in &o.records {
            n_steps += 1;
            *hist.entry(format!("kind:{}", r.kind.name())).or_default() += 1;
            *hist.entry(format!("outcome:{}", if r.stop.is_some() { "stop" } else { "exit" })).or_default() += 1;
            if !r.users.is_empty() && r.users.len() > 1 {
                *hist.entry("with-extra-user-bp".into()).or_default() += 1;
            }
            let h = format!("{}:{}:{}:{:?}", p.name, r.start, r.kind.name(), r.stop);
            if seen.insert(h) && r.nontrivial {
                nontrivial += 1;
            }
            if !r.ok {
                failures.push(json!({"key": format!("c03-e2e:{}", r.key), "note": r.note, "history": tagname, "kind": r.kind.name(),
                    "start": {"idx": r.start, "pc": p.pcs[r.start], "fn": p.fname(r.start), "line": p.line(r.start).map(|l| l.2)},
                    "stop": r.stop.map(|s| json!({"idx": s, "pc": p.pcs[s], "fn": p.fname(s), "line": p.line(s).map(|l| l.2)})),
                    "plan": format!("{:?}", plan)}));
            }
            if samples.len() < 3 && r.nontrivial && r.ok {
                samples.push(json!({"program": p.name, "kind": r.kind.name(), "from": {"fn": p.fname(r.start), "line": p.line(r.start).map(|l| l.2)},
                    "to": r.stop.map(|s| json!({"fn": p.fname(s), "line": p.line(s).map(|l| l.2), "instructions": s - r.start}))}));
            }
            if let Some(uu) = user_unit {
                if let Some(c) = coq_case(p, uu, &(String::new(), String::new(), String::new()), r) {
                    cases.push((c, json!({"harness_ok": r.ok, "key": format!("c03-e2e:{}", r.key), "kind": r.kind.name(), "program": p.name,
                        "start_fn": p.fname(r.start), "start_line": p.line(r.start).map(|l| l.2)})));
                }
            }
        }
    };

    // ---------------- directed histories on a fixed program ----------------
    let dname = "c03dir";
    match prepare_src(&scratch, dname, DIRECTED_SRC, &[], 4_000_000, false) {
        Ok(p) => {
            if p.selfcheck_bad > 0 {
                errors.push(format!("{dname}: {} user-function entries not explained by a call", p.selfcheck_bad));
            }
            let user_unit = p.st.funcs.iter().find(|f| f.name == format!("{dname}::main")).and_then(|f| p.st.unit_of(f.lo));
            let mut cases: Vec<(String, Value)> = vec![];
            let mut plans: Vec<(String, Plan, u64)> = vec![];
            for depth in 0..4usize {
                plans.push((format!("dir-finish-d{depth}"), Plan { args: vec![], break_line: D_LINE_REC_CALL, continues: depth, cmds: vec![Cmd::Do(Kind::Finish), Cmd::Do(Kind::Finish)], selfjump_probe: false }, 120_000));
                plans.push((format!("dir-next-d{depth}"), Plan { args: vec![], break_line: D_LINE_REC_CALL, continues: depth, cmds: vec![Cmd::Do(Kind::Next), Cmd::Do(Kind::Next), Cmd::Do(Kind::Next)], selfjump_probe: false }, 120_000));
                plans.push((format!("dir-step-d{depth}"), Plan { args: vec![], break_line: D_LINE_REC_IF, continues: depth, cmds: vec![Cmd::Do(Kind::Step); 6], selfjump_probe: false }, 120_000));
            }
            // `next` with a user breakpoint on the next line
            plans.push(("dir-next-userbp".into(), Plan { args: vec![], break_line: D_LINE_LINES_B, continues: 0, cmds: vec![Cmd::BreakLine(D_LINE_LINES_C), Cmd::Do(Kind::Next), Cmd::Do(Kind::Next)], selfjump_probe: false }, 120_000));
            plans.push(("dir-next-plain".into(), Plan { args: vec![], break_line: D_LINE_LINES_B, continues: 0, cmds: vec![Cmd::Do(Kind::Next); 4], selfjump_probe: false }, 120_000));
            // stepping over the instruction that ends the process: run to ~25 instructions before the end, then stepi
            let n = p.pcs.len();
            let near_end = (n.saturating_sub(60)..n.saturating_sub(8)).rev().find(|k| p.by_pc.get(&p.pcs[*k]).map(|v| v.len() == 1).unwrap_or(false));
            if let Some(k) = near_end {
                let mut cmds = vec![Cmd::BreakAddr(p.pcs[k]), Cmd::Continue];
                cmds.extend(std::iter::repeat(Cmd::Do(Kind::Stepi)).take(n - k + 4));
                plans.push(("dir-stepi-to-exit".into(), Plan { args: vec![], break_line: D_LINE_EXIT, continues: 0, cmds, selfjump_probe: false }, 120_000));
                let cmds = vec![Cmd::BreakAddr(p.pcs[k]), Cmd::Continue, Cmd::Do(Kind::Step), Cmd::Do(Kind::Step)];
                plans.push(("dir-step-to-exit".into(), Plan { args: vec![], break_line: D_LINE_EXIT, continues: 0, cmds, selfjump_probe: false }, 120_000));
                let cmds = vec![Cmd::BreakAddr(p.pcs[k]), Cmd::Continue, Cmd::Do(Kind::Next)];
                plans.push(("dir-next-to-exit".into(), Plan { args: vec![], break_line: D_LINE_EXIT, continues: 0, cmds, selfjump_probe: false }, 120_000));
                let cmds = vec![Cmd::BreakAddr(p.pcs[k]), Cmd::Continue, Cmd::Do(Kind::Finish)];
                plans.push(("dir-finish-to-exit".into(), Plan { args: vec![], break_line: D_LINE_EXIT, continues: 0, cmds, selfjump_probe: false }, 120_000));
            } else {
                errors.push("directed: no unique address near the end of the trace".into());
            }
            for (tag, plan, to) in plans {
                let o = run_history(&p, &scratch, &tag, &plan, to);
                *hist.entry("directed-histories".into()).or_default() += 1;
                absorb(&p, &tag, &plan, o, &mut hist, &mut errors, &mut failures, &mut samples, &mut cases, user_unit);
            }
            // stepi on `loop {}`: no reference trace (the program never ends); watchdog-guarded
            let mut pspin = Prep { name: p.name.clone(), bin: p.bin.clone(), st: lineinfo::Static { units: vec![], funcs: vec![], seq_index: vec![], inlined: vec![] }, pcs: vec![], rsps: vec![], cfas: vec![],
                                   native_out: vec![], native_code: None, selfcheck_bad: 0, by_pc: HashMap::new(), truncated: true };
            pspin.truncated = true;
            let plan = Plan { args: vec!["spin".into()], break_line: D_LINE_SPIN, continues: 0, cmds: vec![Cmd::Do(Kind::Stepi); 12], selfjump_probe: true };
            let o = run_history(&pspin, &scratch, "dir-stepi-selfjump", &plan, 120_000);
            *hist.entry("directed-histories".into()).or_default() += 1;
            let reached = o.findings.iter().any(|f| f.0 == "stepi-selfjump");
            *hist.entry(format!("selfjump-hang:{reached}")).or_default() += 1;
            absorb(&pspin, "dir-stepi-selfjump", &plan, o, &mut hist, &mut errors, &mut failures, &mut samples, &mut cases, None);
            if let Some(uu) = user_unit {
                flush_cases(&p, uu, cases, &mut all_cases, &mut case_meta, &mut files, &mut file_no, &mut coq_cases_total, &out_dir, shard);
            }
            let _ = std::fs::remove_file(&p.bin);
        }
        Err(e) => errors.push(format!("prepare directed: {e}")),
    }

    // ---------------- steps interrupted by a handled signal: nothing may be left behind ----------------
    for (key, note) in sigstep_checks(&scratch, &mut hist, &mut errors) {
        failures.push(json!({"key": format!("c03-e2e:{key}"), "note": note, "history": "sigstep", "plan": "break at the call of poke() / inside poke(); next | step | finish; remove all breakpoints; continue to the exit"}));
    }

    // ---------------- random histories on generated programs ----------------
    for pi in 0..n_progs {
        let pseed = seed.wrapping_mul(1000) + pi as u64;
        let name = format!("gp{pseed}");
        let gp = gen_prog::generate(pseed);
        let p = match prepare_src(&scratch, &name, &gp.source, &[], 4_000_000, false) {
            Ok(p) => p,
            Err(e) => {
                errors.push(format!("prepare {pseed}: {e}"));
                continue;
            }
        };
        if p.selfcheck_bad > 0 {
            errors.push(format!("{name}: {} user-function entries not explained by a call", p.selfcheck_bad));
        }
        *hist.entry(format!("trace-len:{}", match p.pcs.len() { 0..=20_000 => "<=20k", 20_001..=100_000 => "20k-100k", _ => ">100k" })).or_default() += 1;
        let user_unit = p.st.funcs.iter().find(|f| f.name == format!("{name}::main")).and_then(|f| p.st.unit_of(f.lo));
        let mut cases: Vec<(String, Value)> = vec![];
        // which statement lines does the native run reach
        let mut reached: Vec<usize> = vec![];
        let user_file: Option<u32> = user_unit.and_then(|uu| p.st.units[uu].files.iter().find(|(_, n)| n.as_str() == format!("{name}.rs") || n.ends_with(&format!("/{name}.rs"))).map(|(k, _)| *k));
        if let Some(uu) = user_unit {
            let mut set = HashSet::new();
            for j in 0..p.pcs.len() {
                if let Some((u, f, l)) = p.line(j) {
                    if u == uu && Some(f) == user_file && p.stmt(j) {
                        set.insert(l as usize);
                    }
                }
            }
            reached = gp.lines_with_code.iter().copied().filter(|l| set.contains(l)).collect();
        }
        if reached.is_empty() {
            errors.push(format!("{name}: no statement line is reached"));
            continue;
        }
        for hi in 0..hist_per_prog {
            let break_line = *rng.pick(&reached);
            let continues = if rng.chance(1, 2) { 0 } else { rng.range(1, 4) as usize };
            let n = rng.range(6, max_cmds as u64) as usize;
            let profile = rng.below(4); // 0 mixed, 1 line-level only, 2 many stepi, 3 finish/next heavy
            let mut cmds = vec![];
            for _ in 0..n {
                if rng.chance(1, 14) {
                    cmds.push(Cmd::BreakLine(*rng.pick(&reached)));
                    continue;
                }
                let k = match profile {
                    1 => *rng.pick(&[Kind::Step, Kind::Next, Kind::Next, Kind::Finish]),
                    2 => *rng.pick(&[Kind::Stepi, Kind::Stepi, Kind::Stepi, Kind::Step, Kind::Next, Kind::Finish]),
                    3 => *rng.pick(&[Kind::Finish, Kind::Next, Kind::Next, Kind::Step]),
                    _ => *rng.pick(&[Kind::Stepi, Kind::Step, Kind::Next, Kind::Finish]),
                };
                cmds.push(Cmd::Do(k));
            }
            let plan = Plan { args: vec![], break_line, continues, cmds, selfjump_probe: false };
            let tag = format!("p{pseed}-h{hi}");
            let o = run_history(&p, &scratch, &tag, &plan, 120_000);
            *hist.entry("random-histories".into()).or_default() += 1;
            *hist.entry(format!("profile:{profile}")).or_default() += 1;
            absorb(&p, &tag, &plan, o, &mut hist, &mut errors, &mut failures, &mut samples, &mut cases, user_unit);
        }
        if let Some(uu) = user_unit {
            flush_cases(&p, uu, cases, &mut all_cases, &mut case_meta, &mut files, &mut file_no, &mut coq_cases_total, &out_dir, shard);
        }
        let _ = std::fs::remove_file(&p.bin);
    }
    let mut fk: BTreeMap<String, u64> = BTreeMap::new();
    for f in &failures {
        *fk.entry(f["key"].as_str().unwrap_or("?").to_string()).or_default() += 1;
    }
    println!(
        "{}",
        json!({"leg": "c03-e2e", "seed": seed, "cases": n_steps, "distinct_nontrivial": nontrivial, "programs": n_progs + 1,
            "coq_cases": coq_cases_total, "histogram": hist, "failure_keys": fk, "samples": samples, "files": files, "errors": errors,
            "failures": failures, "case_meta": case_meta, "shard": shard})
    );
    0
}
