//! C05 e2e leg: backtraces of a real debuggee (recursion, mutual recursion, closures, generics,
//! depth up to several hundred) against the frame-pointer chain walked by the harness itself.
use crate::coqfmt::{self as cf, CasesFile};
use crate::e2e::{self, Ev};
use crate::rng::Rng;
use bugstalker::debugger::variable::dqe::{Dqe, Selector};
use bugstalker::debugger::variable::value::{SupportedScalar, Value};
use std::collections::{BTreeMap, HashSet};

pub const DEBUGGEE: &str = r#"
use std::hint::black_box;
#[inline(never)]
#[no_mangle]
pub extern "C" fn anchor(n: u64) -> u64 { black_box(n) + 1 }
#[inline(never)]
fn go(shape: &[u8], i: usize, acc: u64) -> u64 {
    if i >= shape.len() { return anchor(acc) + 1; }
    let r = match shape[i] {
        b'f' => fact_step(shape, i, acc),
        b'e' => even_step(shape, i, acc),
        b'c' => { let k = acc; let cl = move |s: &[u8], j: usize| go(s, j + 1, k + 1) + 2; apply(&cl, shape, i) }
        b'g' => generic_step::<u32>(shape, i, acc, 7u32),
        b'h' => generic_step::<u64>(shape, i, acc, 9u64),
        _ => go(shape, i + 1, acc + 1),
    };
    black_box(r) + 1
}
#[inline(never)]
fn fact_step(shape: &[u8], i: usize, acc: u64) -> u64 { let r = go(shape, i + 1, acc + 1); black_box(r).wrapping_mul(3) }
#[inline(never)]
fn even_step(shape: &[u8], i: usize, acc: u64) -> u64 { let r = odd_step(shape, i, acc); black_box(r) + 5 }
#[inline(never)]
fn odd_step(shape: &[u8], i: usize, acc: u64) -> u64 { let r = go(shape, i + 1, acc + 1); black_box(r) ^ 1 }
#[inline(never)]
fn apply(f: &dyn Fn(&[u8], usize) -> u64, shape: &[u8], i: usize) -> u64 { let r = f(shape, i); black_box(r) + 7 }
#[inline(never)]
fn generic_step<T: Into<u64> + Copy>(shape: &[u8], i: usize, acc: u64, t: T) -> u64 { let r = go(shape, i + 1, acc + 1); black_box(r) + t.into() }
fn main() {
    let shape = std::env::args().nth(1).unwrap_or_default();
    let r = go(shape.as_bytes(), 0, 0);
    println!("result {}", r);
}
"#;

/// A call chain that changes stacks: stage k runs `rec` to a given depth on its own stack (a heap
/// buffer = lower addresses than the main stack, or a buffer inside main's frame = higher addresses than
/// a heap stack), then switches to the next stage through an assembly routine with complete CFI. Walking
/// outwards the CFA therefore goes up *and down*.
pub const SWITCH_DEBUGGEE: &str = r##"
use std::arch::global_asm;
use std::hint::black_box;
use std::sync::atomic::{AtomicUsize, Ordering::Relaxed};
global_asm!(
    r#"
    .text
    .globl call_on_stack
    .type call_on_stack,@function
call_on_stack:
    .cfi_startproc
    push rbp
    .cfi_def_cfa_offset 16
    .cfi_offset rbp, -16
    mov rbp, rsp
    .cfi_def_cfa_register rbp
    mov rax, rdi
    mov rdi, rsi
    mov rsp, rdx
    call rax
    mov rsp, rbp
    pop rbp
    .cfi_def_cfa rsp, 8
    ret
    .cfi_endproc
    .size call_on_stack, .-call_on_stack
"#
);
extern "C" {
    fn call_on_stack(f: extern "C" fn(usize) -> usize, arg: usize, stack_top: *mut u8) -> usize;
}
const Z: AtomicUsize = AtomicUsize::new(0);
static DEPTHS: [AtomicUsize; 8] = [Z; 8];
static TOPS: [AtomicUsize; 8] = [Z; 8];
static NSTAGES: AtomicUsize = AtomicUsize::new(0);
#[inline(never)]
#[no_mangle]
pub extern "C" fn anchor(n: u64) -> u64 { black_box(n) + 1 }
#[inline(never)]
fn rec(n: usize, stage: usize) -> usize {
    let l = n + 1000;
    if n == 0 { next_stage(stage) + black_box(l) } else { rec(n - 1, stage) + black_box(l) }
}
#[inline(never)]
fn next_stage(stage: usize) -> usize {
    if stage >= NSTAGES.load(Relaxed) { return anchor(stage as u64) as usize; }
    let r = unsafe { call_on_stack(tramp, stage, TOPS[stage].load(Relaxed) as *mut u8) };
    black_box(r) + 1
}
#[inline(never)]
extern "C" fn tramp(stage: usize) -> usize { rec(DEPTHS[stage].load(Relaxed), stage + 1) + 1 }
fn main() {
    // argument: d0,k1:d1,k2:d2,...  d0 = depth on the main stack, k = h (heap stack) or m (stack inside main's frame)
    let plan = std::env::args().nth(1).unwrap_or_default();
    let mut main_bufs = [0u8; 4 * 64 * 1024];
    let mut heap_bufs: Vec<Vec<u8>> = vec![];
    let mut parts = plan.split(',');
    let d0: usize = parts.next().and_then(|s| s.parse().ok()).unwrap_or(0);
    let mut used_main = 0usize;
    for (k, p) in parts.enumerate().take(8) {
        let (kind, d) = p.split_once(':').unwrap_or(("h", "0"));
        DEPTHS[k].store(d.parse().unwrap_or(0), Relaxed);
        let top = if kind == "m" && used_main < 4 {
            used_main += 1;
            main_bufs.as_mut_ptr() as usize + used_main * 64 * 1024
        } else {
            heap_bufs.push(vec![0u8; 64 * 1024]);
            let b = heap_bufs.last_mut().unwrap();
            b.as_mut_ptr() as usize + b.len()
        };
        TOPS[k].store(top & !0xf, Relaxed);
        NSTAGES.store(k + 1, Relaxed);
    }
    let r = rec(d0, 0);
    println!("result {} {}", r, black_box(&main_bufs)[0]);
}
"##;

fn read_u64(pid: nix::unistd::Pid, addr: u64) -> Option<u64> {
    e2e::proc_mem_read(pid, addr, 8).ok().map(|b| u64::from_le_bytes(b.try_into().unwrap()))
}

/// (ip, cfa) of every frame by following saved frame pointers, innermost first
fn fp_chain(pid: nix::unistd::Pid, max: usize, one_stack: bool) -> Vec<(u64, u64)> {
    let regs = match nix::sys::ptrace::getregs(pid) {
        Ok(r) => r,
        Err(_) => return vec![],
    };
    let mut out = vec![(regs.rip, regs.rbp + 16)];
    let mut rbp = regs.rbp;
    while out.len() < max && rbp != 0 {
        let (Some(saved), Some(ret)) = (read_u64(pid, rbp), read_u64(pid, rbp + 8)) else { break };
        if ret == 0 {
            break;
        }
        if one_stack && saved != 0 && saved <= rbp {
            // not a frame-pointer frame any more
            out.push((ret, saved + 16));
            break;
        }
        out.push((ret, if saved != 0 { saved + 16 } else { rbp + 32 }));
        rbp = saved;
    }
    out
}

pub fn run(args: &[String]) -> i32 {
    let seed: u64 = args.first().and_then(|s| s.parse().ok()).unwrap_or(1);
    let count: usize = args.get(1).and_then(|s| s.parse().ok()).unwrap_or(12);
    let out_dir = args.get(2).cloned().unwrap_or_else(|| "../coq/cases".into());
    let scratch = args.get(3).cloned().unwrap_or_else(|| "/verif/.scratch/c05".into());
    let mut rng = Rng::new(seed ^ 0xC05);
    let bin = match e2e::compile(&scratch, "btdebuggee", DEBUGGEE, &["-C", "force-frame-pointers=yes"], None) {
        Ok(b) => b,
        Err(e) => {
            eprintln!("compile failed: {e}");
            return 3;
        }
    };
    let bin_switch = match e2e::compile(&scratch, "swdebuggee", SWITCH_DEBUGGEE, &["-C", "force-frame-pointers=yes"], None) {
        Ok(b) => b,
        Err(e) => {
            eprintln!("compile failed: {e}");
            return 3;
        }
    };
    // address range of main, to cut both walks at the user's outermost frame
    let nm_of = |b: &std::path::Path| {
        let nm = std::process::Command::new("nm").arg("-S").arg("--defined-only").arg(b).output().ok();
        nm.map(|o| String::from_utf8_lossy(&o.stdout).to_string()).unwrap_or_default()
    };
    let nm_plain = nm_of(&bin);
    let nm_switch = nm_of(&bin_switch);
    let mut cases = CasesFile::new(&["Model.Unwind"], "unwind_case", "unwind_check");
    let mut hist: BTreeMap<String, u64> = BTreeMap::new();
    let mut seen = HashSet::new();
    let mut nontrivial = 0usize;
    let mut samples = vec![];
    let mut errors: Vec<String> = vec![];
    let mut frame_failures: Vec<String> = vec![];
    let mut frame_checks = 0usize;
    for case_no in 0..count {
        let depth = match case_no % 6 {
            0 => rng.range(1, 4),
            1 | 2 => rng.range(4, 30),
            3 | 4 => rng.range(30, 120),
            _ => rng.range(120, 260),
        } as usize;
        let kinds = [b'f', b'e', b'c', b'g', b'h', b'x'];
        let switching = case_no % 4 == 3;
        let shape: String = if switching {
            // 1-5 stack switches, heap and main-frame stacks mixed so that the CFA goes down as well as up
            let n = rng.range(1, 5);
            let mut p = format!("{}", rng.range(0, 40));
            for _ in 0..n {
                p.push_str(&format!(",{}:{}", if rng.chance(1, 2) { "h" } else { "m" }, rng.range(0, 60)));
            }
            p
        } else if case_no % 5 == 0 {
            // pure self recursion through one function: every return address repeats
            std::iter::repeat('f').take(depth).collect()
        } else {
            (0..depth).map(|_| *rng.pick(&kinds) as char).collect()
        };
        let (bin_now, nm_out, bin_name) = if switching { (&bin_switch, &nm_switch, "swdebuggee") } else { (&bin, &nm_plain, "btdebuggee") };
        let mut s = match e2e::launch(bin_now, &[shape.clone()]) {
            Ok(s) => s,
            Err(e) => {
                errors.push(e);
                continue;
            }
        };
        if let Err(e) = s.dbg.set_breakpoint_at_fn("anchor") {
            errors.push(format!("break: {e}"));
            continue;
        }
        if let Err(e) = s.dbg.start_debugee() {
            errors.push(format!("start: {e}"));
            continue;
        }
        let evs = s.events.take();
        if !evs.iter().any(|e| matches!(e, Ev::Breakpoint { .. })) {
            errors.push(format!("no breakpoint stop for shape {shape}: {evs:?}"));
            continue;
        }
        let pid = s.pid_now();
        // load bias = runtime address of `main` symbol minus its file address: take it from /proc/maps
        let maps = e2e::proc_maps(pid);
        let bias = maps.iter().find(|m| m.path.ends_with(bin_name)).map(|m| m.start - m.offset).unwrap_or(0);
        let main_range = nm_out.lines().find_map(|l| {
            let p: Vec<&str> = l.split_whitespace().collect();
            if p.len() == 4 && p[3].ends_with("4main17h") || (p.len() == 4 && p[3].contains(&format!("{bin_name}4main"))) {
                Some((u64::from_str_radix(p[0], 16).ok()? + bias, u64::from_str_radix(p[1], 16).ok()?))
            } else {
                None
            }
        });
        let truth_all = fp_chain(pid, 2000, !switching);
        let cut = main_range.and_then(|(lo, sz)| truth_all.iter().position(|(ip, _)| *ip >= lo && *ip < lo + sz));
        let Some(cut) = cut else {
            errors.push(format!("main frame not found in the frame-pointer chain (shape {shape}, {} frames)", truth_all.len()));
            continue;
        };
        let truth: Vec<(u64, u64)> = truth_all[..=cut].to_vec();
        let bt = match s.dbg.backtrace(pid) {
            Ok(b) => b,
            Err(e) => {
                errors.push(format!("backtrace: {e}"));
                continue;
            }
        };
        let mut ips: Vec<u64> = bt.iter().map(|f| f.ip.as_usize() as u64).collect();
        ips.truncate(truth.len().min(512));
        let case = format!(
            "({}, {})",
            cf::list(&truth, |(ip, cfa)| format!("({}, {})", cf::n(*ip as u128), cf::n(*cfa as u128))),
            cf::list(&ips, |ip| cf::n(*ip as u128))
        );
        let repeats = {
            let mut set = HashSet::new();
            truth.iter().any(|(ip, _)| !set.insert(*ip))
        };
        if seen.insert(shape.clone()) && (repeats || truth.len() > 10) {
            nontrivial += 1;
        }
        *hist.entry(format!("frames:{}", match truth.len() { 0..=10 => "<=10", 11..=100 => "11-100", 101..=511 => "101-511", _ => ">=512" })).or_default() += 1;
        *hist.entry(format!("repeated_return_address:{repeats}")).or_default() += 1;
        if switching {
            let downs = truth.windows(2).filter(|w| w[1].1 <= w[0].1).count();
            *hist.entry(format!("stack_switching:cfa_decreases_outwards:{}", downs.min(3))).or_default() += 1;
        }
        if samples.len() < 3 {
            samples.push(serde_json::json!({"shape": shape, "true_frames": truth.len(), "reported_frames": bt.len(), "repeated_return_address": repeats}));
        }
        cases.push(case);

        // frame selection: in frame k the argument `acc` must be that activation's value, and
        // frame_info's CFA / return address must be the real ones
        let picks: Vec<usize> = (0..4).map(|_| rng.below(truth.len().min(bt.len()) as u64) as usize).collect();
        for k in picks {
            if k == 0 || k >= truth.len() - 1 {
                continue;
            }
            if s.dbg.set_frame_into_focus(k as u32).is_err() {
                frame_failures.push(format!("shape {shape}: frame {k} cannot be selected"));
                continue;
            }
            frame_checks += 1;
            if let Ok(fi) = s.dbg.frame_info() {
                let want_cfa = truth[k].1;
                let want_ret = truth[k + 1].0;
                if fi.cfa.as_usize() as u64 != want_cfa || fi.return_addr.map(|a| a.as_usize() as u64) != Some(want_ret) {
                    frame_failures.push(format!(
                        "shape {shape}: frame {k}: cfa {:#x} (real {:#x}) return {:?} (real {:#x})",
                        fi.cfa.as_usize(), want_cfa, fi.return_addr.map(|a| a.as_usize()), want_ret
                    ));
                }
            } else {
                frame_failures.push(format!("shape {shape}: frame_info failed in frame {k}"));
            }
            // `acc` of that activation: read it straight from the frame with the frame pointer
            // (debug builds keep arguments in the frame; the harness finds the expected value through
            // the function's name: every step/go function of shape index i has acc = i)
            let name = bt[k].func_name.clone().unwrap_or_default();
            if name.contains("_step") || name.ends_with("go") {
                if let Ok(rs) = s.dbg.read_argument(Dqe::Variable(Selector::by_name("acc", false))) {
                    let got: Vec<u64> = rs
                        .iter()
                        .filter_map(|r| match r.value() {
                            Value::Scalar(sv) => match sv.value {
                                Some(SupportedScalar::U64(v)) => Some(v),
                                _ => None,
                            },
                            _ => None,
                        })
                        .collect();
                    let i_arg: Vec<u64> = s
                        .dbg
                        .read_argument(Dqe::Variable(Selector::by_name("i", false)))
                        .map(|rs| {
                            rs.iter()
                                .filter_map(|r| match r.value() {
                                    Value::Scalar(sv) => match sv.value {
                                        Some(SupportedScalar::Usize(v)) => Some(v as u64),
                                        Some(SupportedScalar::U64(v)) => Some(v),
                                        _ => None,
                                    },
                                    _ => None,
                                })
                                .collect()
                        })
                        .unwrap_or_default();
                    // invariant of the program: in every go/step activation acc == i
                    if got.len() != 1 || i_arg.len() != 1 || got[0] != i_arg[0] {
                        frame_failures.push(format!("shape {shape}: frame {k} ({name}): acc={got:?} i={i_arg:?} (must be equal, one each)"));
                    }
                } else {
                    frame_failures.push(format!("shape {shape}: frame {k} ({name}): cannot read acc"));
                }
            }
        }
        let _ = s.dbg.set_frame_into_focus(0);
        drop(s);
    }
    let files = cases.write(&out_dir, "cases_C05_e2e", 6);
    println!(
        "{}",
        serde_json::json!({"leg": "c05-e2e", "seed": seed, "cases": cases.cases.len(), "distinct_nontrivial": nontrivial,
            "histogram": hist, "samples": samples, "files": files, "errors": errors,
            "frame_checks": frame_checks, "frame_failures": frame_failures})
    );
    0
}
