//! C04 e2e leg: address <-> source answers of the real debugger on generated (and hand-written)
//! binaries, against (a) the Coq model of the look-ups fed with the tables the debugger holds and
//! (b) the specification evaluated on the line table as decoded by `llvm-dwarfdump --debug-line`.
//!
//! bsv c04-e2e <seed> <programs> <cases_dir> <scratch> [quick|thorough] [extra: none|witness]
//!
//! For every program x build configuration:
//!   * the debugger loads the binary (`Debugger` built, debuggee not started for the static queries);
//!   * through add-only hooks every unit is exported: unit ranges of ALL units (so that the model's
//!     `find_unit_by_pc` sees the same registry), and rows / function die ranges / function infos of
//!     the units that hold the program's source file ("full" units; a std unit has 40 000 rows);
//!   * `llvm-dwarfdump` gives the program-order rows per CU (`lc_prog`); the multiset of rows must be
//!     the multiset the debugger holds (reported in `rowset_mismatch`);
//!   * queries: QPlace/QExact/QUnit/QFunc for every instruction address of every user function
//!     (`objdump -d` inside `nm` symbol ranges) + boundary addresses, QLine for every source line
//!     (+0, last+1, last+2, u64::MAX), QFnBp for every function info of the full units;
//!   * the same questions are asked through the public API (`set_breakpoint_at_line`,
//!     `set_breakpoint_at_fn`, `breakpoint_places_for_file_range`, `resolve_function_at_pc` after a
//!     real start) and compared with the hook answers (`api_mismatch`).
use crate::coqfmt as cf;
use crate::e2e;
use crate::gen_prog;
use crate::reftrace;
use bugstalker::debugger::address::{Address, GlobalAddress};
use std::collections::{BTreeMap, BTreeSet, HashSet};
use std::fmt::Write as _;
use std::panic::{AssertUnwindSafe, catch_unwind};
use std::path::{Path, PathBuf};
use std::process::Command;

#[derive(Clone, Copy, PartialEq, Eq, PartialOrd, Ord, Hash, Debug)]
pub struct Row {
    addr: u64,
    file: u64,
    line: u64,
    col: u64,
    stmt: bool,
    pe: bool,
    eb: bool,
    es: bool,
}

fn row_s(r: &Row) -> String {
    format!("R {} {} {} {} {} {} {} {}", r.addr, r.file, r.line, r.col, r.stmt, r.pe, r.eb, r.es)
}

struct UnitData {
    full: bool,
    name: String,
    ranges: Vec<(u64, u64)>,
    nfiles: usize,
    rows: Vec<Row>,
    die_ranges: Vec<(u64, u64, usize)>,
    fns: Vec<(usize, Option<String>, Vec<(u64, u64)>)>,
}

/// one CU's line table as llvm-dwarfdump prints it
struct DumpTable {
    version: u32,
    n_file_names: usize,
    rows: Vec<Row>,
}

/// `llvm-dwarfdump --debug-line`: offset -> table
fn dwarfdump_lines(bin: &Path) -> Result<BTreeMap<u64, DumpTable>, String> {
    let out = Command::new("llvm-dwarfdump").arg("--debug-line").arg(bin).output().map_err(|e| e.to_string())?;
    if !out.status.success() {
        return Err(format!("llvm-dwarfdump --debug-line: {}", String::from_utf8_lossy(&out.stderr)));
    }
    let text = String::from_utf8_lossy(&out.stdout);
    let mut res = BTreeMap::new();
    let mut cur: Option<(u64, DumpTable)> = None;
    let mut ncols = 6usize; // numeric columns before the flags
    for l in text.lines() {
        if let Some(rest) = l.strip_prefix("debug_line[0x") {
            if let Some((off, t)) = cur.take() {
                res.insert(off, t);
            }
            let hex = rest.trim_end_matches(']');
            let off = u64::from_str_radix(hex, 16).map_err(|e| format!("offset {hex}: {e}"))?;
            cur = Some((off, DumpTable { version: 0, n_file_names: 0, rows: vec![] }));
            continue;
        }
        let Some((_, t)) = cur.as_mut() else { continue };
        let s = l.trim_start();
        if let Some(v) = s.strip_prefix("version:") {
            t.version = v.trim().parse().unwrap_or(0);
        } else if s.starts_with("file_names[") {
            t.n_file_names += 1;
        } else if s.starts_with("Address ") {
            let cols: Vec<&str> = s.split_whitespace().collect();
            ncols = cols.iter().position(|c| *c == "Flags").unwrap_or(6);
        } else if l.starts_with("0x") {
            let tok: Vec<&str> = l.split_whitespace().collect();
            if tok.len() < ncols {
                return Err(format!("short row line: {l}"));
            }
            let num = |i: usize| -> Result<u64, String> { tok[i].parse::<u64>().map_err(|e| format!("{l}: {e}")) };
            let addr = u64::from_str_radix(tok[0].trim_start_matches("0x"), 16).map_err(|e| format!("{l}: {e}"))?;
            let flags = &tok[ncols..];
            t.rows.push(Row {
                addr,
                line: num(1)?,
                col: num(2)?,
                file: num(3)?,
                stmt: flags.contains(&"is_stmt"),
                pe: flags.contains(&"prologue_end"),
                eb: flags.contains(&"epilogue_begin"),
                es: flags.contains(&"end_sequence"),
            });
        }
    }
    if let Some((off, t)) = cur.take() {
        res.insert(off, t);
    }
    Ok(res)
}

/// `llvm-dwarfdump --debug-info -r 0`: per CU (in .debug_info order) the DW_AT_stmt_list offset
fn dwarfdump_cus(bin: &Path) -> Result<Vec<Option<u64>>, String> {
    let out = Command::new("llvm-dwarfdump").arg("--debug-info").arg("-r").arg("0").arg(bin).output().map_err(|e| e.to_string())?;
    if !out.status.success() {
        return Err(format!("llvm-dwarfdump --debug-info: {}", String::from_utf8_lossy(&out.stderr)));
    }
    let text = String::from_utf8_lossy(&out.stdout);
    let mut res: Vec<Option<u64>> = vec![];
    for l in text.lines() {
        if l.contains(": Compile Unit:") {
            res.push(None);
        } else if let Some(p) = l.find("DW_AT_stmt_list") {
            let rest = &l[p..];
            if let (Some(a), Some(b)) = (rest.find("(0x"), rest.find(')')) {
                if let (Ok(v), Some(last)) = (u64::from_str_radix(&rest[a + 3..b], 16), res.last_mut()) {
                    *last = Some(v);
                }
            }
        }
    }
    Ok(res)
}

/// instruction start addresses (file addresses) inside the given ranges, from `objdump -d`
fn instruction_addresses(bin: &Path, ranges: &[(u64, u64)]) -> Result<Vec<u64>, String> {
    let out = Command::new("objdump").arg("-d").arg("--no-show-raw-insn").arg(bin).output().map_err(|e| e.to_string())?;
    if !out.status.success() {
        return Err("objdump failed".into());
    }
    let text = String::from_utf8_lossy(&out.stdout);
    let mut v = vec![];
    for l in text.lines() {
        let Some((a, _)) = l.split_once(':') else { continue };
        let a = a.trim();
        if a.is_empty() || a.len() > 16 || !l.starts_with(' ') {
            continue;
        }
        if let Ok(addr) = u64::from_str_radix(a, 16) {
            if ranges.iter().any(|(b, e)| *b <= addr && addr < *e) {
                v.push(addr);
            }
        }
    }
    v.sort();
    v.dedup();
    Ok(v)
}

#[derive(Clone)]
pub struct BuildCfg {
    pub label: &'static str,
    pub toolchain: Option<&'static str>,
    pub extra: Vec<&'static str>,
    pub pie: bool,
}

fn configs(tier: &str) -> Vec<BuildCfg> {
    let c = |label, toolchain, extra: &[&'static str], pie| BuildCfg { label, toolchain, extra: extra.to_vec(), pie };
    let mut v = vec![c("default", None, &[], true)];
    if tier == "thorough" {
        v.push(c("stable", Some("stable"), &[], true));
        v.push(c("nightly", Some("nightly"), &[], true));
        v.push(c("opt1", None, &["-C", "opt-level=1"], true));
        v.push(c("stable-opt1", Some("stable"), &["-C", "opt-level=1"], true));
        v.push(c("nightly-dwarf5", Some("nightly"), &["-Z", "dwarf-version=5"], true));
        v.push(c("stable-dwarf5", Some("stable"), &["-C", "dwarf-version=5"], true));
        v.push(c("dwarf5", None, &["-C", "dwarf-version=5"], true));
        v.push(c("nightly-dwarf4", Some("nightly"), &["-C", "debuginfo=2", "-Z", "dwarf-version=4"], true));
        v.push(c("nopie", None, &["-C", "relocation-model=static"], false));
        // the linker orders the function sections by name: address order != line program order
        v.push(c("sortsec", None, &["-C", "link-arg=-Wl,--sort-section=name"], true));
        v.push(c("sortsec-opt1", None, &["-C", "opt-level=1", "-C", "link-arg=-Wl,--sort-section=name"], true));
    }
    v
}

#[derive(Clone, Debug, PartialEq, Eq, Hash)]
enum Ans {
    None,
    Row(usize, usize),
    Unit(usize),
    Func(usize, usize),
    Rows(Vec<(usize, usize)>),
    Err,
    Panic,
}

impl Ans {
    fn coq(&self) -> String {
        match self {
            Ans::None => "ANone".into(),
            Ans::Row(u, i) => format!("(ARow {u} {i})"),
            Ans::Unit(u) => format!("(AUnit {u})"),
            Ans::Func(u, o) => format!("(AFunc {u} {o})"),
            Ans::Rows(l) => format!("(ARows {})", cf::list(l, |(u, i)| format!("({u}, {i})"))),
            Ans::Err => "AErr".into(),
            Ans::Panic => "APanic".into(),
        }
    }
    fn kind(&self) -> &'static str {
        match self {
            Ans::None => "none",
            Ans::Row(..) => "row",
            Ans::Unit(..) => "unit",
            Ans::Func(..) => "func",
            Ans::Rows(l) if l.is_empty() => "rows0",
            Ans::Rows(l) if l.len() == 1 => "rows1",
            Ans::Rows(_) => "rows2+",
            Ans::Err => "err",
            Ans::Panic => "panic",
        }
    }
    fn trivial(&self) -> bool {
        matches!(self, Ans::None) || matches!(self, Ans::Rows(l) if l.is_empty())
    }
}

fn guarded<T>(f: impl FnOnce() -> T) -> Result<T, ()> {
    catch_unwind(AssertUnwindSafe(f)).map_err(|_| ())
}

/// What one (program, configuration) contributes
pub struct ProgCases {
    pub prelude: String,
    pub cases: Vec<String>,
    pub metas: Vec<serde_json::Value>,
}

pub struct Stats {
    pub hist: BTreeMap<String, u64>,
    pub errors: Vec<String>,
    pub rowset_mismatch: Vec<String>,
    pub api_mismatch: Vec<String>,
    pub api_checks: u64,
    pub seen: HashSet<u64>,
    pub nontrivial: usize,
    pub samples: Vec<serde_json::Value>,
}

impl Stats {
    fn bump(&mut self, k: impl Into<String>) {
        *self.hist.entry(k.into()).or_default() += 1;
    }
    fn bump_by(&mut self, k: impl Into<String>, n: u64) {
        *self.hist.entry(k.into()).or_default() += n;
    }
}

fn fnv(s: &str) -> u64 {
    let mut h: u64 = 0xcbf29ce484222325;
    for b in s.as_bytes() {
        h ^= *b as u64;
        h = h.wrapping_mul(0x100000001b3);
    }
    h
}

fn view_global(a: &Address, bias: u64) -> u64 {
    match a {
        Address::Relocated(r) => (r.as_usize() as u64).wrapping_sub(bias),
        Address::Global(g) => usize::from(*g) as u64,
    }
}

/// Export the tables, ask every question, write the Coq terms.
/// `src_name`: the file template used for file:line questions; `user_prefix`: nm prefix of user symbols
/// (None: every function info of the full units is a "user function": hand-written / C programs).
#[allow(clippy::too_many_arguments)]
pub fn examine(
    bin: &Path,
    src_name: &str,
    n_src_lines: usize,
    user_prefix: Option<&str>,
    fn_names: &[String],
    label: &str,
    pie: bool,
    max_addrs: usize,
    st: &mut Stats,
) -> Result<ProgCases, String> {
    let t0 = std::time::Instant::now();
    let ovf = cfg!(debug_assertions);
    let bias: u64 = if pie { crate::leg_c01::PIE_BIAS } else { 0 };
    // ---------- independent side: symbols, instruction addresses, line tables
    let syms = reftrace::symbols(bin);
    let user_syms: Vec<(String, u64, u64)> = match user_prefix {
        Some(p) => syms.iter().filter(|(n, _, s)| (n.starts_with(p) || n.contains(&format!("<{p}"))) && *s > 0).cloned().collect(),
        None => vec![],
    };
    let tables = dwarfdump_lines(bin)?;
    let cus = dwarfdump_cus(bin)?;

    eprintln!("[{label}] independent decode {:?}", t0.elapsed());
    // ---------- the debugger's side
    let mut s = e2e::launch(bin, &[])?;
    let n_units;
    let mut units: Vec<UnitData> = vec![];
    let files: Vec<(usize, Vec<usize>)>;
    {
        let di = s.dbg.verif_program_debug_info().map_err(|e| format!("debug info: {e}"))?;
        n_units = di.unit_count();
        files = di.verif_files_index_get(src_name);
        let full: BTreeSet<usize> = files.iter().map(|(u, _)| *u).collect();
        if full.is_empty() {
            return Err(format!("files index has no entry for {src_name}"));
        }
        for idx in 0..n_units {
            let u = di.unit_ensure(idx);
            let is_full = full.contains(&idx);
            let mut ud = UnitData {
                full: is_full,
                name: u.name.clone().unwrap_or_default(),
                ranges: u.ranges().iter().map(|r| (r.begin, r.end)).collect(),
                nfiles: u.files().len(),
                rows: vec![],
                die_ranges: vec![],
                fns: vec![],
            };
            if is_full {
                ud.rows = u
                    .verif_lines()
                    .into_iter()
                    .map(|(addr, file, line, col, stmt, pe, eb, es)| Row { addr, file, line, col, stmt, pe, eb, es })
                    .collect();
                ud.die_ranges = di.verif_fn_ranges(idx);
                ud.fns = di.verif_fn_infos(idx);
                ud.fns.sort_by_key(|f| f.0);
            }
            units.push(ud);
        }
    }
    eprintln!("[{label}] export {:?}", t0.elapsed());
    let full_idx: Vec<usize> = units.iter().enumerate().filter(|(_, u)| u.full).map(|(i, _)| i).collect();
    st.bump(format!("cfg:{label}"));
    st.bump_by("units", n_units as u64);
    st.bump_by("full_units", full_idx.len() as u64);

    // ---------- (2) rows of the independent decoder vs rows the debugger holds
    let mut prog: Vec<Vec<Row>> = vec![vec![]; n_units];
    if cus.len() != n_units {
        st.rowset_mismatch.push(format!("{label}: llvm-dwarfdump lists {} CUs, the debugger holds {} units", cus.len(), n_units));
    } else {
        for &ui in &full_idx {
            let Some(off) = cus[ui] else {
                st.rowset_mismatch.push(format!("{label}: unit {ui} has no DW_AT_stmt_list"));
                continue;
            };
            let Some(t) = tables.get(&off) else {
                st.rowset_mismatch.push(format!("{label}: no line table at {off:#x} for unit {ui}"));
                continue;
            };
            let mut a = t.rows.clone();
            let mut b = units[ui].rows.clone();
            a.sort();
            b.sort();
            if a != b {
                let sa: BTreeSet<&Row> = a.iter().collect();
                let sb: BTreeSet<&Row> = b.iter().collect();
                let only_dump: Vec<String> = sa.difference(&sb).take(3).map(|r| row_s(r)).collect();
                let only_dbg: Vec<String> = sb.difference(&sa).take(3).map(|r| row_s(r)).collect();
                st.rowset_mismatch.push(format!("{label}: unit {ui}: rows differ ({} vs {}): only llvm-dwarfdump {:?}, only debugger {:?}", a.len(), b.len(), only_dump, only_dbg));
            }
            // number of file entries: DWARF <= 4 tables are 1-based, the debugger adds entry 0
            let expect_files = if t.version >= 5 { t.n_file_names } else { t.n_file_names + 1 };
            if expect_files != units[ui].nfiles {
                st.rowset_mismatch.push(format!("{label}: unit {ui}: {} file entries, llvm-dwarfdump has {} (version {})", units[ui].nfiles, t.n_file_names, t.version));
            }
            st.bump(format!("dwarf_version:{}", t.version));
            prog[ui] = t.rows.clone();
            st.bump_by("rows", t.rows.len() as u64);
            // ties: equal addresses inside the sorted vector
            let rows = &units[ui].rows;
            let ties = rows.windows(2).filter(|w| w[0].addr == w[1].addr).count();
            let es_ties = rows.windows(2).filter(|w| w[0].addr == w[1].addr && (w[0].es || w[1].es)).count();
            st.bump_by("row_address_ties", ties as u64);
            st.bump_by("row_address_ties_with_end_sequence", es_ties as u64);
        }
    }

    // ---------- prelude
    let mut prelude = String::new();
    let rng_s = |v: &[(u64, u64)]| cf::list(v, |(a, b)| format!("({a}, {b})"));
    for (i, u) in units.iter().enumerate() {
        writeln!(prelude, "(* unit {i}: {} {} *)", if u.full { "full" } else { "ranges only" }, u.name.replace("*)", "")).unwrap();
        writeln!(prelude, "Definition rows{i} : list row := {}.", cf::list(&u.rows, row_s)).unwrap();
        writeln!(
            prelude,
            "Definition u{i} : unit := U {} {} rows{i} {} {}.",
            rng_s(&u.ranges),
            u.nfiles,
            cf::list(&u.die_ranges, |(a, b, o)| format!("({a}, {b}, {o})")),
            cf::list(&u.fns, |(o, n, r)| format!("F {o} {} {}", cf::option(n, |s| cf::list(s.as_bytes(), |b| format!("{b}"))), rng_s(r)))
        )
        .unwrap();
    }
    writeln!(prelude, "Definition us : list unit := {}.", cf::list(&(0..n_units).collect::<Vec<_>>(), |i| format!("u{i}"))).unwrap();
    for (i, p) in prog.iter().enumerate() {
        writeln!(prelude, "Definition pg{i} : list row := {}.", cf::list(p, row_s)).unwrap();
    }
    writeln!(prelude, "Definition pg : list (list row) := {}.", cf::list(&(0..n_units).collect::<Vec<_>>(), |i| format!("pg{i}"))).unwrap();

    // ---------- questions
    let mut out = ProgCases { prelude, cases: vec![], metas: vec![] };
    let mut push = |st: &mut Stats, out: &mut ProgCases, q: String, qkind: &str, a: Ans, meta: serde_json::Value| {
        st.bump(format!("q:{qkind}"));
        st.bump(format!("a:{qkind}:{}", a.kind()));
        let text = format!("LC {ovf} us pg ({q}) {}", a.coq());
        let h = fnv(&format!("{}|{}|{}", fnv(&out.prelude), q, a.coq()));
        if st.seen.insert(h) && !a.trivial() {
            st.nontrivial += 1;
        }
        if st.samples.len() < 3 && !a.trivial() && (qkind == "QLine" || qkind == "QFnBp" || st.samples.is_empty()) {
            st.samples.push(serde_json::json!({"program": label, "query": q, "answer": a.coq(), "meta": meta}));
        }
        out.cases.push(text);
        out.metas.push(meta);
    };

    // user function ranges: nm symbols (generated programs) or the function infos of the full units
    let mut fn_ranges: Vec<(String, u64, u64)> = user_syms.clone();
    if user_prefix.is_none() {
        for &ui in &full_idx {
            for (_, n, rs) in &units[ui].fns {
                for (b, e) in rs {
                    if *b > 0 && e > b {
                        fn_ranges.push((n.clone().unwrap_or_default(), *b, e - b));
                    }
                }
            }
        }
    }
    fn_ranges.sort_by_key(|f| f.1);
    fn_ranges.dedup_by_key(|f| f.1);
    let code_ranges: Vec<(u64, u64)> = fn_ranges.iter().map(|(_, a, s)| (*a, a + s)).collect();
    let mut addrs = instruction_addresses(bin, &code_ranges)?;
    st.bump_by("user_functions", fn_ranges.len() as u64);
    st.bump_by("instruction_addresses", addrs.len() as u64);
    if addrs.len() > max_addrs {
        // deterministic thinning: keep function entries and every k-th address
        let k = addrs.len().div_ceil(max_addrs);
        let starts: BTreeSet<u64> = code_ranges.iter().map(|r| r.0).collect();
        addrs = addrs.iter().enumerate().filter(|(i, a)| i % k == 0 || starts.contains(a)).map(|(_, a)| *a).collect();
    }
    // boundary stream: one past the end, last byte, padding before the start, inside an instruction
    let mut boundary: Vec<u64> = vec![0, 1, u64::MAX];
    for (b, e) in &code_ranges {
        boundary.extend([*e, e - 1, b.wrapping_sub(1), b + 1]);
    }
    for &ui in &full_idx {
        if let (Some(f), Some(l)) = (units[ui].rows.first(), units[ui].rows.last()) {
            boundary.extend([f.addr, f.addr.wrapping_sub(1), l.addr, l.addr + 1]);
        }
    }
    boundary.sort();
    boundary.dedup();
    let insn_set: BTreeSet<u64> = addrs.iter().copied().collect();
    boundary.retain(|a| !insn_set.contains(a));
    let fn_of = |pc: u64| fn_ranges.iter().find(|(_, a, s)| *a <= pc && pc < a + s).map(|f| f.0.clone());

    let mut hook_place: BTreeMap<u64, Option<(usize, usize)>> = BTreeMap::new();
    let mut hook_func: BTreeMap<u64, Option<(usize, usize)>> = BTreeMap::new();
    {
        let di = s.dbg.verif_program_debug_info().map_err(|e| format!("debug info: {e}"))?;
        for (stream, list) in [("insn", &addrs), ("boundary", &boundary)] {
            for &pc in list.iter() {
                let ga = GlobalAddress::from(pc);
                let real_unit = match guarded(|| di.verif_find_unit_by_pc(ga)) {
                    Ok(Ok(u)) => u,
                    Ok(Err(e)) => return Err(format!("find_unit_by_pc: {e}")),
                    Err(()) => {
                        push(st, &mut out, format!("QUnit {pc}"), "QUnit", Ans::Panic, serde_json::json!({"cfg": label, "q": "QUnit", "pc": pc, "stream": stream}));
                        continue;
                    }
                };
                let fname = fn_of(pc);
                let first_of_fn = code_ranges.iter().any(|r| r.0 == pc);
                let meta = |q: &str, ui: Option<usize>| {
                    let tie = ui.map(|ui| units[ui].rows.iter().filter(|r| r.addr == pc).count()).unwrap_or(0);
                    let tie_es = ui.map(|ui| units[ui].rows.iter().any(|r| r.addr == pc && r.es)).unwrap_or(false);
                    let row0 = ui.map(|ui| units[ui].rows.first().map(|r| r.addr) == Some(pc)).unwrap_or(false);
                    // does an end_sequence row sit on the entry address of the function that contains pc?
                    let entry = code_ranges.iter().find(|r| r.0 <= pc && pc < r.1).map(|r| r.0);
                    let entry_tie = match (ui, entry) {
                        (Some(ui), Some(b)) => units[ui].rows.iter().any(|r| r.addr == b && r.es),
                        _ => false,
                    };
                    serde_json::json!({"cfg": label, "q": q, "pc": pc, "stream": stream, "fn": fname, "fn_entry": first_of_fn,
                        "rows_at_pc": tie, "end_sequence_at_pc": tie_es, "first_row_of_unit": row0, "end_sequence_at_fn_entry": entry_tie})
                };
                push(st, &mut out, format!("QUnit {pc}"), "QUnit", match real_unit { Some(u) => Ans::Unit(u), None => Ans::None }, meta("QUnit", None));
                // unit-level look-ups on the unit that claims the pc when it is a full one, else on every full unit
                let targets: Vec<usize> = match real_unit {
                    Some(u) if units[u].full => vec![u],
                    _ => full_idx.clone(),
                };
                for &ui in &targets {
                    let unit = di.unit_ensure(ui);
                    // pc -> row is asked for addresses inside a user function only (the property's quantifier);
                    // outside every sequence `find_place_by_pc` answers the preceding row by design of its
                    // `unwrap_or_else(|p| p.saturating_sub(1))` (model: find_place_by_pc_none_refuted)
                    if fname.is_some() {
                        let a = match guarded(|| unit.find_place_by_pc(ga).map(|p| p.pos_in_unit)) {
                            Ok(Some(p)) => Ans::Row(ui, p),
                            Ok(None) => Ans::None,
                            Err(()) => Ans::Panic,
                        };
                        push(st, &mut out, format!("QPlace {ui} {pc}"), "QPlace", a, meta("QPlace", Some(ui)));
                    } else {
                        st.bump("skipped:QPlace_outside_user_functions");
                    }
                    let a = match guarded(|| unit.find_exact_place_by_pc(ga).map(|p| p.pos_in_unit)) {
                        Ok(Some(p)) => Ans::Row(ui, p),
                        Ok(None) => Ans::None,
                        Err(()) => Ans::Panic,
                    };
                    push(st, &mut out, format!("QExact {ui} {pc}"), "QExact", a, meta("QExact", Some(ui)));
                }
                // function by pc: meaningful in the model only when the claiming unit is exported in full
                match real_unit {
                    Some(u) if !units[u].full => st.bump("skipped:QFunc_in_ranges_only_unit"),
                    _ => {
                        let a = match guarded(|| di.verif_find_function_by_pc(ga)) {
                            Ok(Ok(Some((u, o)))) => {
                                hook_func.insert(pc, Some((u, o)));
                                Ans::Func(u, o)
                            }
                            Ok(Ok(None)) => {
                                hook_func.insert(pc, None);
                                Ans::None
                            }
                            Ok(Err(_)) => Ans::Err,
                            Err(()) => Ans::Panic,
                        };
                        push(st, &mut out, format!("QFunc {pc}"), "QFunc", a, meta("QFunc", real_unit));
                    }
                }
                if stream == "insn" {
                    if let Ok(Ok(p)) = guarded(|| di.verif_find_place_from_pc(ga, false)) {
                        hook_place.insert(pc, p);
                    }
                }
            }
        }

        // the addresses `find_closest_place` / `prolog_end_place` resolve through ALL units must not be
        // claimed by a unit exported without tables (else the model would see less than the debugger)
        let mut foreign = 0u64;
        for &ui in &full_idx {
            let mut probe: Vec<u64> = units[ui].rows.iter().map(|r| r.addr).collect();
            probe.extend(units[ui].fns.iter().flat_map(|f| f.2.iter().map(|r| r.0)));
            probe.sort();
            probe.dedup();
            for a in probe {
                if let Ok(Ok(Some(u))) = guarded(|| di.verif_find_unit_by_pc(GlobalAddress::from(a))) {
                    if !units[u].full {
                        foreign += 1;
                    }
                }
            }
        }
        st.bump_by("row_or_lowpc_claimed_by_ranges_only_unit", foreign);

        eprintln!("[{label}] pc queries {:?}", t0.elapsed());
        // ---------- QLine: every source line
        let files_q: Vec<(usize, u64)> = files.iter().filter_map(|(u, idxs)| idxs.first().and_then(|i| units[*u].rows.get(*i)).map(|r| (*u, r.file))).collect();
        let files_s = cf::list(&files_q, |(u, f)| format!("({u}, {f})"));
        let mut lines: Vec<u64> = (0..=(n_src_lines as u64 + 2)).collect();
        lines.push(u64::MAX - 1);
        if !ovf {
            lines.push(u64::MAX);
        }
        let mut hook_lines: BTreeMap<u64, Vec<(usize, usize)>> = BTreeMap::new();
        for &line in &lines {
            let a = match guarded(|| di.verif_find_closest_place(src_name, line)) {
                Ok(Ok(v)) => {
                    hook_lines.insert(line, v.clone());
                    Ans::Rows(v)
                }
                Ok(Err(_)) => Ans::Err,
                Err(()) => Ans::Panic,
            };
            let has_code = files_q.iter().any(|(u, f)| units[*u].rows.iter().any(|r| r.file == *f && r.line == line && r.stmt));
            // the line the answer is about: the line itself, or the next one when the line has no statement
            let chosen = if has_code { line } else { line.wrapping_add(1) };
            let n_fns_with_line = files_q
                .iter()
                .map(|(u, f)| {
                    units[*u].fns.iter().filter(|g| units[*u].rows.iter().any(|r| r.file == *f && r.line == chosen && r.stmt && !r.es && g.2.iter().any(|(b, e)| *b <= r.addr && r.addr < *e))).count()
                })
                .sum::<usize>();
            if let Ans::Rows(v) = &a {
                if !has_code && !v.is_empty() {
                    st.bump("line:next_line_fallback");
                }
                if n_fns_with_line >= 2 {
                    st.bump("line:in_2+_functions");
                }
            }
            push(st, &mut out, format!("QLine {files_s} {line}"), "QLine", a,
                serde_json::json!({"cfg": label, "q": "QLine", "line": line, "has_code": has_code, "functions_with_line": n_fns_with_line}));
        }

        // ---------- QFnBp: every function info of the full units
        let mut hook_fnbp: BTreeMap<(usize, usize), Option<(usize, usize)>> = BTreeMap::new();
        for &ui in &full_idx {
            for (off, name, rs) in &units[ui].fns {
                let a = match guarded(|| di.verif_prolog_end_place(ui, *off)) {
                    Ok(Ok((u, p))) => {
                        hook_fnbp.insert((ui, *off), Some((u, p)));
                        Ans::Row(u, p)
                    }
                    Ok(Err(_)) => {
                        hook_fnbp.insert((ui, *off), None);
                        Ans::Err
                    }
                    Err(()) => Ans::Panic,
                };
                let has_pe = units[ui].rows.iter().any(|r| r.pe && !r.es && rs.iter().any(|(b, e)| *b <= r.addr && r.addr < *e));
                if !has_pe {
                    st.bump("fn:without_prologue_end_row");
                }
                push(st, &mut out, format!("QFnBp {ui} {off}"), "QFnBp", a,
                    serde_json::json!({"cfg": label, "q": "QFnBp", "unit": ui, "off": off, "fn": name, "has_prologue_end": has_pe, "ranges": rs}));
            }
        }

        eprintln!("[{label}] line/fn queries {:?}", t0.elapsed());
        // ---------- the same questions through the public API, before the start
        let _ = di;
        let row_addr = |u: usize, i: usize| units[u].rows.get(i).map(|r| r.addr);
        // file:line breakpoints
        for (&line, hv) in hook_lines.iter() {
            if line > n_src_lines as u64 + 1 {
                continue;
            }
            let want: BTreeSet<u64> = hv.iter().filter_map(|(u, i)| row_addr(*u, *i)).collect();
            st.api_checks += 1;
            let got: Result<BTreeSet<u64>, String> = match s.dbg.set_breakpoint_at_line(src_name, line) {
                Ok(views) => Ok(views.iter().map(|v| view_global(&v.addr, bias)).collect()),
                Err(e) => Err(e.to_string()),
            };
            match got {
                Ok(g) => {
                    if g != want {
                        st.api_mismatch.push(format!("{label}: break {src_name}:{line}: API {:x?}, find_closest_place {:x?}", g, want));
                    }
                    let _ = s.dbg.remove_breakpoint_at_line(src_name, line);
                }
                Err(e) => {
                    if !want.is_empty() {
                        st.api_mismatch.push(format!("{label}: break {src_name}:{line}: API error {e}, find_closest_place {:x?}", want));
                    }
                }
            }
        }
        // all breakpoint-capable places of the file = all is_stmt rows of the file (deduplicated by address/line/column)
        st.api_checks += 1;
        match s.dbg.breakpoint_places_for_file_range(src_name, 0, u64::MAX) {
            Ok(pl) => {
                let got: BTreeSet<(u64, u64, u64)> = pl.iter().map(|p| (usize::from(p.address) as u64, p.line_number, p.column_number)).collect();
                let want: BTreeSet<(u64, u64, u64)> = files_q.iter().flat_map(|(u, f)| prog[*u].iter().filter(move |r| r.file == *f && r.stmt).map(|r| (r.addr, r.line, r.col))).collect();
                if got != want {
                    st.api_mismatch.push(format!("{label}: breakpoint_places_for_file_range: {} places, llvm-dwarfdump has {} statement rows of the file", got.len(), want.len()));
                }
            }
            Err(e) => st.api_mismatch.push(format!("{label}: breakpoint_places_for_file_range: {e}")),
        }
        // function breakpoints
        let mut names: Vec<String> = fn_names.to_vec();
        names.push("main".into());
        for name in &names {
            let mut want: BTreeSet<u64> = BTreeSet::new();
            for &ui in &full_idx {
                for (off, n, _) in &units[ui].fns {
                    if n.as_deref().map(|n| n == name.as_str() || n.starts_with(&format!("{name}<"))).unwrap_or(false) {
                        if let Some(Some((u, i))) = hook_fnbp.get(&(ui, *off)) {
                            if let Some(a) = row_addr(*u, *i) {
                                want.insert(a);
                            }
                        }
                    }
                }
            }
            st.api_checks += 1;
            match s.dbg.set_breakpoint_at_fn(name) {
                Ok(views) => {
                    let got: BTreeSet<u64> = views.iter().map(|v| view_global(&v.addr, bias)).collect();
                    // `main` also matches the C entry `main` of another unit: require inclusion only
                    let ok = if name == "main" { want.is_subset(&got) } else { got == want };
                    if !ok {
                        st.api_mismatch.push(format!("{label}: break {name}: API {:x?}, prolog_end_place {:x?}", got, want));
                    }
                    if name != "main" {
                        let _ = s.dbg.remove_breakpoint_at_fn(name);
                    }
                }
                Err(e) => {
                    if !want.is_empty() {
                        // the function exists and has a place, the search by name does not find it: not an
                        // address <-> source disagreement, reported separately (`fn_name_search_failures`)
                        st.api_mismatch.push(format!("name-search: {label}: break {name}: API error {e}, prolog_end_place {:x?}", want));
                    }
                }
            }
        }
    }
    eprintln!("[{label}] api before start {:?}", t0.elapsed());
    // ---------- a real start (stop at main), then pc -> function/place through the public API
    match s.dbg.start_debugee_with_reason() {
        Ok(bugstalker::debugger::StopReason::Breakpoint(..)) => {
            for (&pc, hp) in hook_place.iter() {
                st.api_checks += 1;
                let r = guarded(|| s.dbg.resolve_function_at_pc(GlobalAddress::from(pc)));
                match r {
                    Ok(Ok(Some((name, place)))) => {
                        let got = place.map(|p| p.pos_in_unit);
                        let want = hp.map(|(_, i)| i);
                        let fname = hook_func.get(&pc).copied().flatten().and_then(|(u, o)| units[u].fns.iter().find(|f| f.0 == o).and_then(|f| f.1.clone()));
                        let name_ok = match fname.as_ref() { Some(n) => name.ends_with(n.as_str()), None => name == "<unknown>" }; // a DIE without any name is shown as <unknown>
                        if got != want || !name_ok {
                            st.api_mismatch.push(format!("{label}: resolve_function_at_pc({pc:#x}) = ({name}, row {got:?}), hooks: function {fname:?}, row {want:?}"));
                        }
                    }
                    Ok(Ok(None)) => {
                        if hook_func.get(&pc).copied().flatten().is_some() {
                            st.api_mismatch.push(format!("{label}: resolve_function_at_pc({pc:#x}) = None, find_function_by_pc found one"));
                        }
                    }
                    Ok(Err(e)) => st.api_mismatch.push(format!("{label}: resolve_function_at_pc({pc:#x}): {e}")),
                    Err(()) => st.api_mismatch.push(format!("{label}: resolve_function_at_pc({pc:#x}) panicked")),
                }
            }
        }
        Ok(other) => st.errors.push(format!("{label}: start did not stop at main: {other:?}")),
        Err(e) => st.errors.push(format!("{label}: start: {e}")),
    }
    eprintln!("[{label}] api after start {:?}", t0.elapsed());
    drop(s);
    eprintln!("[{label}] dropped {:?}", t0.elapsed());
    Ok(out)
}

/// cases files with one global shard counter; `metas` is padded so that index = shard_no * SHARD + i
pub struct Writer {
    pub dir: String,
    pub k: usize,
    pub files: Vec<String>,
    pub metas: Vec<serde_json::Value>,
    pub n_cases: usize,
}

pub const SHARD: usize = 400;

impl Writer {
    pub fn add(&mut self, pc: &ProgCases) {
        std::fs::create_dir_all(&self.dir).unwrap();
        for (ci, chunk) in pc.cases.chunks(SHARD).enumerate() {
            let mut s = String::new();
            writeln!(s, "From BS Require Import Model.Base.").unwrap();
            writeln!(s, "From BS Require Import Model.LineTable.").unwrap();
            writeln!(s, "Open Scope N_scope.").unwrap();
            s.push_str(&pc.prelude);
            writeln!(s, "Definition cs : list (lt_case) := [").unwrap();
            for (i, c) in chunk.iter().enumerate() {
                writeln!(s, "  {}{}", c, if i + 1 < chunk.len() { ";" } else { "" }).unwrap();
            }
            writeln!(s, "].").unwrap();
            writeln!(s, "Definition bad := Eval vm_compute in (mismatches (lt_check) 0%N cs).").unwrap();
            writeln!(s, "Print bad.").unwrap();
            let name = format!("{}/cases_C04_{}.v", self.dir, self.k);
            std::fs::write(&name, s).unwrap();
            self.files.push(name);
            self.metas.resize(self.k * SHARD, serde_json::Value::Null);
            self.metas.extend(pc.metas[ci * SHARD..ci * SHARD + chunk.len()].iter().cloned());
            self.k += 1;
            self.n_cases += chunk.len();
        }
    }
}

pub fn run(args: &[String]) -> i32 {
    let seed: u64 = args.first().and_then(|s| s.parse().ok()).unwrap_or(1);
    let n_progs: usize = args.get(1).and_then(|s| s.parse().ok()).unwrap_or(4);
    let out_dir = args.get(2).cloned().unwrap_or_else(|| "../coq/cases".into());
    let scratch = args.get(3).cloned().unwrap_or_else(|| "/verif/.scratch/c04".into());
    let tier = args.get(4).cloned().unwrap_or_else(|| "quick".into());
    let max_addrs: usize = args.get(5).and_then(|s| s.parse().ok()).unwrap_or(if tier == "quick" { 450 } else { 100_000 });
    let mut st = Stats { hist: BTreeMap::new(), errors: vec![], rowset_mismatch: vec![], api_mismatch: vec![], api_checks: 0, seen: HashSet::new(), nontrivial: 0, samples: vec![] };
    let mut w = Writer { dir: out_dir.clone(), k: 0, files: vec![], metas: vec![], n_cases: 0 };
    let cfgs = configs(&tier);
    let mut rejected: BTreeSet<String> = BTreeSet::new();
    for pi in 0..n_progs {
        let pseed = seed.wrapping_mul(1000) + pi as u64;
        let gp = gen_prog::generate(pseed);
        let name = format!("gp{pseed}");
        let n_lines = gp.source.lines().count();
        // thorough tier: every program with the default build, the other configurations round-robin (2 per program)
        let mut todo: Vec<&BuildCfg> = vec![&cfgs[0]];
        if cfgs.len() > 1 {
            let m = cfgs.len() - 1;
            todo.push(&cfgs[1 + (2 * pi) % m]);
            todo.push(&cfgs[1 + (2 * pi + 1) % m]);
        }
        for cfg in todo {
            if rejected.contains(cfg.label) {
                continue;
            }
            let bin: PathBuf = match e2e::compile(&scratch, &name, &gp.source, &cfg.extra, cfg.toolchain) {
                Ok(b) => b,
                Err(e) => {
                    // a flag the toolchain does not accept: recorded, not an error of the debugger
                    rejected.insert(cfg.label.to_string());
                    st.bump(format!("config_rejected:{}", cfg.label));
                    eprintln!("config {} rejected: {}", cfg.label, e.lines().next().unwrap_or(""));
                    continue;
                }
            };
            let label = format!("{name}/{}", cfg.label);
            match examine(&bin, &format!("{name}.rs"), n_lines, Some(&format!("{name}::")), &gp.fn_names, &label, cfg.pie, max_addrs, &mut st) {
                Ok(pc) => w.add(&pc),
                Err(e) => st.errors.push(format!("{label}: {e}")),
            }
            let _ = std::fs::remove_file(&bin);
        }
    }
    let mut errors = st.errors.clone();
    errors.extend(st.rowset_mismatch.iter().map(|e| format!("rows: {e}")));
    errors.extend(st.api_mismatch.iter().filter(|e| !e.starts_with("name-search:")).take(20).map(|e| format!("api: {e}")));
    let name_search: Vec<&String> = st.api_mismatch.iter().filter(|e| e.starts_with("name-search:")).collect();
    println!(
        "{}",
        serde_json::json!({"leg": "c04-e2e", "seed": seed, "tier": tier, "cases": w.n_cases, "distinct_nontrivial": st.nontrivial, "programs": n_progs,
            "histogram": st.hist, "samples": st.samples, "files": w.files, "errors": errors, "shard": SHARD, "case_meta": w.metas,
            "api_checks": st.api_checks, "api_mismatches": st.api_mismatch.len() - name_search.len(), "fn_name_search_failures": name_search, "rowset_mismatches": st.rowset_mismatch.len(),
            "overflow_checks": cfg!(debug_assertions)})
    );
    0
}

// ------------------------------------------------------------------------------------------------
// Hand-written witnesses for the statements the model author refuted (W3/W4: file:line look-up,
// W5/W6: function breakpoint without prologue_end rows).  Same machinery, fixed programs.
// ------------------------------------------------------------------------------------------------

/// W3: the tail of `tail_a` and the whole of `one_liner_b` share source line 9; W4: a closure body on
/// the line of the statement that creates it (line 14), two functions at different columns of line 20.
pub const WITNESS_RS: &str = r#"use std::hint::black_box;
#[inline(never)]
fn apply(f: &dyn Fn(u64) -> u64, x: u64) -> u64 {
    black_box(f(x))
}
#[inline(never)]
fn tail_a(x: u64) -> u64 {
    let y = x.wrapping_add(1);
    black_box(y) } #[inline(never)] fn one_liner_b(x: u64) -> u64 { black_box(x.wrapping_mul(2)) }
#[inline(never)]
fn with_closure(p: u64) -> u64 {
    let mut acc = p.wrapping_add(3);
    let k = black_box(5u64);
    let cl = |z: u64| z.wrapping_add(k).wrapping_mul(3);
    acc = apply(&cl, acc);
    black_box(acc)
}
#[inline(never)]
fn generic_id<T: Copy>(t: T) -> T {
    black_box(t) } #[inline(never)] fn same_line_c(x: u64) -> u64 { black_box(x ^ 7) }
fn main() {
    let mut total = 0u64;
    total = total.wrapping_add(tail_a(black_box(1)));
    total = total.wrapping_add(one_liner_b(black_box(2)));
    total = total.wrapping_add(with_closure(black_box(3)));
    total = total.wrapping_add(generic_id(black_box(4u64)));
    total = total.wrapping_add(generic_id(black_box(4u8)) as u64);
    total = total.wrapping_add(same_line_c(black_box(5)));
    println!("total={}", total);
}
"#;

/// W7: different subprograms with the same DW_AT_name that share source lines: methods generated for two types by
/// one macro invocation (two `area`, two `scale`), `Counter::new` / `Gauge::new` that both inline one
/// `#[inline(always)]` helper, and the `{closure#0}` of two functions that both inline that helper.
pub const WITNESS_SAME_NAME_RS: &str = r#"use std::hint::black_box;
struct Square(u64);
struct Rect(u64, u64);
macro_rules! impl_shape {
    ($($t:ty => $e:expr),*) => { $(
        impl $t {
            #[inline(never)]
            fn area(&self) -> u64 {
                let f: fn(&$t) -> u64 = $e;
                let a = f(self);
                black_box(a).wrapping_add(1)
            }
            #[inline(never)]
            fn scale(&self, k: u64) -> u64 {
                let a = self.area();
                black_box(a).wrapping_mul(k)
            }
        }
    )* };
}
impl_shape!(Square => |s: &Square| s.0 * s.0, Rect => |r: &Rect| r.0 * r.1);
#[inline(always)]
fn seed_of(x: u64) -> u64 {
    let y = x.wrapping_mul(31);
    black_box(y).wrapping_add(7)
}
struct Counter(u64);
struct Gauge(u64);
impl Counter {
    #[inline(never)]
    fn fresh(x: u64) -> Counter { Counter(seed_of(x)) }
}
impl Gauge {
    #[inline(never)]
    fn fresh(x: u64) -> Gauge { Gauge(seed_of(x).wrapping_add(1)) }
}
#[inline(never)]
fn apply(f: &dyn Fn(u64) -> u64, x: u64) -> u64 { black_box(f(x)) }
#[inline(never)]
fn first_user(p: u64) -> u64 {
    let cl = |z: u64| seed_of(z).wrapping_add(p);
    apply(&cl, p)
}
#[inline(never)]
fn second_user(p: u64) -> u64 {
    let cl = |z: u64| seed_of(z).wrapping_mul(p | 1);
    apply(&cl, p)
}
fn main() {
    let mut total = 0u64;
    total = total.wrapping_add(Square(3).scale(2));
    total = total.wrapping_add(Rect(2, 5).scale(3));
    total = total.wrapping_add(Counter::fresh(black_box(4)).0);
    total = total.wrapping_add(Gauge::fresh(black_box(5)).0);
    total = total.wrapping_add(first_user(black_box(6)));
    total = total.wrapping_add(second_user(black_box(7)));
    println!("total={}", total);
}
"#;

pub const WITNESS_C_MAIN: &str = r#"#include <stdio.h>
int helper(int x);
int twice(int x) {
    int y = x * 2;
    return y;
}
int last_of_unit(int x) {
    int y = x + 1;
    return y;
}
int main(void) {
    int t = twice(3) + last_of_unit(4) + helper(5);
    printf("t=%d\n", t);
    return 0;
}
"#;

pub const WITNESS_C_W1: &str = r#"#include <stdio.h>
int zzz_first_in_source(int x) {
    int y = x * 2;
    return y;
}
int aaa_second_in_source(int x) {
    int y = x + 1;
    return y;
}
int main(void) {
    int t = zzz_first_in_source(3) + aaa_second_in_source(4);
    printf("t=%d\n", t);
    return 0;
}
"#;

pub const WITNESS_C_HELPER: &str = r#"int helper(int x) {
    int z = x - 1;
    return z * 3;
}
"#;

pub fn run_witness(args: &[String]) -> i32 {
    let seed: u64 = args.first().and_then(|s| s.parse().ok()).unwrap_or(1);
    let out_dir = args.get(2).cloned().unwrap_or_else(|| "../coq/cases".into());
    let scratch = args.get(3).cloned().unwrap_or_else(|| "/verif/.scratch/c04w".into());
    // second argument: 1 = quick subset (the two Rust witnesses with the default toolchain, clang/gcc ones skipped)
    let quick = args.get(1).map(|s| s == "1").unwrap_or(false);
    let mut st = Stats { hist: BTreeMap::new(), errors: vec![], rowset_mismatch: vec![], api_mismatch: vec![], api_checks: 0, seen: HashSet::new(), nontrivial: 0, samples: vec![] };
    let mut w = Writer { dir: out_dir.clone(), k: 0, files: vec![], metas: vec![], n_cases: 0 };
    // Rust witness, every toolchain, opt-level 0 and 1
    let names = ["apply", "tail_a", "one_liner_b", "with_closure", "generic_id", "same_line_c"].map(String::from).to_vec();
    for (label, tc, extra) in [("w34/default", None, vec![]), ("w34/stable", Some("stable"), vec![]), ("w34/nightly", Some("nightly"), vec![]), ("w34/opt1", None, vec!["-C", "opt-level=1"])] {
        if quick && label != "w34/default" {
            continue;
        }
        match e2e::compile(&scratch, "w34", WITNESS_RS, &extra, tc) {
            Ok(bin) => match examine(&bin, "w34.rs", WITNESS_RS.lines().count(), Some("w34::"), &names, label, true, 100_000, &mut st) {
                Ok(pc) => w.add(&pc),
                Err(e) => st.errors.push(format!("{label}: {e}")),
            },
            Err(e) => st.errors.push(format!("{label}: compile: {}", e.lines().next().unwrap_or(""))),
        }
    }
    // same-named subprograms sharing lines
    let names7 = ["area", "scale", "seed_of", "fresh", "apply", "first_user", "second_user", "sub_one"].map(String::from).to_vec();
    for (label, tc, extra) in [("w7/default", None, vec![]), ("w7/opt1", None, vec!["-C", "opt-level=1"])] {
        if quick && label != "w7/default" {
            continue;
        }
        match e2e::compile(&scratch, "w7", WITNESS_SAME_NAME_RS, &extra, tc) {
            Ok(bin) => match examine(&bin, "w7.rs", WITNESS_SAME_NAME_RS.lines().count(), Some("w7::"), &names7, label, true, 100_000, &mut st) {
                Ok(pc) => w.add(&pc),
                Err(e) => st.errors.push(format!("{label}: {e}")),
            },
            Err(e) => st.errors.push(format!("{label}: compile: {}", e.lines().next().unwrap_or(""))),
        }
    }
    // C witness (no prologue_end rows with gcc; clang emits them)
    let _ = std::fs::create_dir_all(&scratch);
    let dir = Path::new(&scratch);
    let _ = std::fs::write(dir.join("wc_main.c"), WITNESS_C_MAIN);
    let _ = std::fs::write(dir.join("wc_helper.c"), WITNESS_C_HELPER);
    let cnames = ["twice", "last_of_unit"].map(String::from).to_vec();
    for (label, cc, flags) in [("wc/gcc", "gcc", vec!["-g", "-O0"]), ("wc/gcc-dwarf4", "gcc", vec!["-g", "-O0", "-gdwarf-4"]), ("wc/clang", "clang", vec!["-g", "-O0"])] {
        if quick {
            continue;
        }
        let bin = dir.join("wc");
        let ok = Command::new(cc).current_dir(dir).args(&flags).args(["-o", "wc", "wc_main.c", "wc_helper.c"]).status().map(|s| s.success()).unwrap_or(false);
        if !ok {
            st.bump(format!("config_rejected:{label}"));
            continue;
        }
        match examine(&bin, "wc_main.c", WITNESS_C_MAIN.lines().count(), None, &cnames, label, true, 100_000, &mut st) {
            Ok(pc) => w.add(&pc),
            Err(e) => st.errors.push(format!("{label}: {e}")),
        }
    }
    // W1: address order != line program order (function sections sorted by name by the linker), gcc -O0 does
    // not align functions: the end_sequence row of `main` ties with the first row of `zzz_first_in_source`
    let _ = std::fs::write(dir.join("w1.c"), WITNESS_C_W1);
    let w1names = ["zzz_first_in_source", "aaa_second_in_source"].map(String::from).to_vec();
    for (label, cc, flags) in [("w1/gcc-sortsec", "gcc", vec!["-g", "-O0", "-ffunction-sections", "-Wl,--sort-section=name"]),
                               ("w1/clang-sortsec", "clang", vec!["-g", "-O0", "-ffunction-sections", "-Wl,--sort-section=name"])] {
        if quick {
            continue;
        }
        let bin = dir.join("w1");
        let ok = Command::new(cc).current_dir(dir).args(&flags).args(["-o", "w1", "w1.c"]).status().map(|s| s.success()).unwrap_or(false);
        if !ok {
            st.bump(format!("config_rejected:{label}"));
            continue;
        }
        match examine(&bin, "w1.c", WITNESS_C_W1.lines().count(), None, &w1names, label, true, 100_000, &mut st) {
            Ok(pc) => w.add(&pc),
            Err(e) => st.errors.push(format!("{label}: {e}")),
        }
    }
    let mut errors = st.errors.clone();
    errors.extend(st.rowset_mismatch.iter().map(|e| format!("rows: {e}")));
    errors.extend(st.api_mismatch.iter().filter(|e| !e.starts_with("name-search:")).take(20).map(|e| format!("api: {e}")));
    let name_search: Vec<&String> = st.api_mismatch.iter().filter(|e| e.starts_with("name-search:")).collect();
    println!(
        "{}",
        serde_json::json!({"leg": "c04-witness", "seed": seed, "cases": w.n_cases, "distinct_nontrivial": st.nontrivial,
            "histogram": st.hist, "samples": st.samples, "files": w.files, "errors": errors, "shard": SHARD, "case_meta": w.metas,
            "api_checks": st.api_checks, "api_mismatches": st.api_mismatch.len() - name_search.len(), "fn_name_search_failures": name_search, "rowset_mismatches": st.rowset_mismatch.len(),
            "overflow_checks": cfg!(debug_assertions)})
    );
    0
}
