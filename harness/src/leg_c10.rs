//! C10 e2e leg: signals sent to a handler-counting debuggee at known points of a debug history
//! (before a continue, before a run of stepi, at a breakpoint stop); ground truth = the debuggee's
//! own per-signal handler counters printed at exit.
use crate::coqfmt::{self as cf, CasesFile};
use crate::e2e;
use crate::rng::Rng;
use bugstalker::debugger::StopReason;
use std::collections::{BTreeMap, HashSet};

pub const DEBUGGEE: &str = r#"
use std::sync::atomic::{AtomicU64, Ordering};
static COUNTS: [AtomicU64; 65] = [const { AtomicU64::new(0) }; 65];
extern "C" fn handler(sig: i32) { if (sig as usize) < 65 { COUNTS[sig as usize].fetch_add(1, Ordering::SeqCst); } }
extern "C" { fn signal(sig: i32, h: extern "C" fn(i32)) -> usize; }
#[inline(never)]
#[no_mangle]
pub extern "C" fn anchor(n: u64) -> u64 { std::hint::black_box(n) + 1 }
#[inline(never)]
fn spin(n: u64) -> u64 { let mut x = n; for i in 0..200u64 { x = x.wrapping_mul(6364136223846793005).wrapping_add(i); } std::hint::black_box(x) }
fn main() {
    let rounds: u64 = std::env::args().nth(1).and_then(|s| s.parse().ok()).unwrap_or(4);
    unsafe { for s in [2, 10, 12, 14, 17, 23, 26, 27, 28, 29] { signal(s, handler); } }
    let mut acc = 0u64;
    for r in 0..rounds {
        acc = acc.wrapping_add(anchor(r));
        acc = acc.wrapping_add(spin(r));
    }
    let parts: Vec<String> = [2usize, 10, 12, 14, 17, 23, 26, 27, 28, 29].iter().map(|s| format!("{}:{}", s, COUNTS[*s].load(Ordering::SeqCst))).collect();
    println!("COUNTS {} acc{}", parts.join(","), acc & 1);
}
"#;

// (number, quiet?) — SIGINT(2) is "transparent": stops, never delivered
const SIGS: &[(i32, bool)] = &[(2, false), (10, false), (12, false), (14, true), (17, true), (23, true), (28, false), (29, true), (26, true), (27, true)];

/// number of signals of SIGS the kernel holds pending for the (single-threaded) process right now: ShdPnd | SigPnd
fn kernel_pending(pid: nix::unistd::Pid) -> usize {
    let st = std::fs::read_to_string(format!("/proc/{}/status", pid.as_raw())).unwrap_or_default();
    let mut mask = 0u64;
    for l in st.lines() {
        if let Some(v) = l.strip_prefix("ShdPnd:").or_else(|| l.strip_prefix("SigPnd:")) {
            mask |= u64::from_str_radix(v.trim(), 16).unwrap_or(0);
        }
    }
    SIGS.iter().filter(|(k, _)| mask & (1u64 << (*k as u64 - 1)) != 0).count()
}

pub fn run(args: &[String]) -> i32 {
    let seed: u64 = args.first().and_then(|s| s.parse().ok()).unwrap_or(1);
    let count: usize = args.get(1).and_then(|s| s.parse().ok()).unwrap_or(10);
    let out_dir = args.get(2).cloned().unwrap_or_else(|| "../coq/cases".into());
    let scratch = args.get(3).cloned().unwrap_or_else(|| "/verif/.scratch/c10".into());
    let mut rng = Rng::new(seed ^ 0xC10);
    let bin = match e2e::compile(&scratch, "sigdebuggee", DEBUGGEE, &[], None) {
        Ok(b) => b,
        Err(e) => {
            eprintln!("compile failed: {e}");
            return 3;
        }
    };
    let mut cases = CasesFile::new(&["Model.SigSpec"], "sig_case", "sig_check");
    let mut hist: BTreeMap<String, u64> = BTreeMap::new();
    let mut seen = HashSet::new();
    let mut nontrivial = 0usize;
    let mut samples = vec![];
    let mut errors: Vec<String> = vec![];
    let mut metas: Vec<serde_json::Value> = vec![];
    for h in 0..count {
        let rounds = rng.range(3, 6);
        let mut s = match e2e::launch(&bin, &[rounds.to_string()]) {
            Ok(s) => s,
            Err(e) => {
                errors.push(e);
                continue;
            }
        };
        if let Err(e) = s.dbg.set_breakpoint_at_fn("anchor") {
            errors.push(format!("break: {e}"));
            continue;
        }
        if let Err(e) = s.dbg.start_debugee() {
            errors.push(format!("start: {e}"));
            continue;
        }
        let pid = s.pid_now();
        let mut sent: Vec<(i32, &'static str)> = vec![]; // (signal, phase)
        let mut reported: Vec<(i32, i32)> = vec![]; // (signal, tid)
        let mut in_step_sends = 0usize;
        let mut max_pending = 0usize;
        let mut unreaped_nonquiet = 0usize; // non-quiet signals reported by a step and not yet followed by a continue
        let mut exited = false;
        let mut err: Option<String> = None;
        let mut guard = 0;
        while !exited && guard < 200 {
            guard += 1;
            // send 0..3 distinct signals while everything is stopped: they become pending
            let n = if h % 3 != 0 { rng.range(0, 1) } else { rng.range(0, 3) };
            let mut kinds: Vec<(i32, bool)> = vec![];
            for _ in 0..n {
                let k = *rng.pick(SIGS);
                if !kinds.contains(&k) {
                    kinds.push(k);
                }
            }
            let stepping = rng.chance(1, 2);
            max_pending = max_pending.max(kinds.len() + unreaped_nonquiet);
            for (sig, _) in &kinds {
                unsafe { libc::kill(pid.as_raw(), *sig) };
                sent.push((*sig, if stepping { "before-stepi" } else { "before-continue" }));
                if stepping {
                    in_step_sends += 1;
                }
            }
            if stepping {
                for _ in 0..rng.range(1, 12) {
                    if let Err(e) = s.dbg.stepi() {
                        let m = e.to_string();
                        if m.contains("not started") || m.contains("exit") {
                            exited = true;
                        } else {
                            err = Some(format!("stepi: {m}"));
                        }
                        break;
                    }
                    for ev in s.events.take() {
                        match ev {
                            e2e::Ev::Signal(sig) => {
                                reported.push((sig, pid.as_raw()));
                                unreaped_nonquiet += 1;
                            }
                            e2e::Ev::Exit(_) => exited = true,
                            _ => {}
                        }
                    }
                    if exited {
                        break;
                    }
                }
            }
            if err.is_some() || exited {
                break;
            }
            // continue until the next breakpoint, reporting signal stops on the way
            unreaped_nonquiet = 0;
            let mut inner = 0;
            loop {
                inner += 1;
                if inner > 50 {
                    err = Some("too many stops without progress".into());
                    break;
                }
                let r = s.dbg.continue_debugee_with_reason();
                s.events.take();
                match r {
                    Ok(StopReason::Breakpoint(_, _)) => break,
                    Ok(StopReason::SignalStop(tid, sig)) => reported.push((sig as i32, tid.as_raw())),
                    Ok(StopReason::DebugeeExit(_)) => {
                        exited = true;
                        break;
                    }
                    Ok(other) => {
                        err = Some(format!("unexpected stop {other:?}"));
                        break;
                    }
                    Err(e) => {
                        err = Some(format!("continue: {e}"));
                        break;
                    }
                }
            }
            if err.is_some() {
                break;
            }
        }
        if let Some(e) = err {
            errors.push(format!("history {h}: {e}"));
            continue;
        }
        s.wait_out("COUNTS", 20000);
        let out = s.stdout();
        let Some(line) = out.lines().find(|l| l.starts_with("COUNTS ")) else {
            errors.push(format!("history {h}: no COUNTS line in {out:?}"));
            continue;
        };
        let counts: Vec<(i32, u64)> = line["COUNTS ".len()..]
            .split(' ')
            .next()
            .unwrap_or("")
            .split(',')
            .filter_map(|kv| {
                let (k, v) = kv.split_once(':')?;
                Some((k.parse().ok()?, v.parse().ok()?))
            })
            .collect();
        let case = format!(
            "({}, {}, {})",
            cf::list(&sent, |(sig, _)| cf::n(*sig as u128)),
            cf::list(&counts, |(k, v)| format!("({}, {})", cf::n(*k as u128), cf::n(*v as u128))),
            cf::list(&reported, |(sig, tid)| format!("({}, {})", cf::n(*sig as u128), cf::n((*tid == pid.as_raw()) as u128)))
        );
        if seen.insert(case.clone()) && (sent.len() >= 2 || in_step_sends >= 1) {
            nontrivial += 1;
        }
        *hist.entry(format!("sent:{}", sent.len().min(6))).or_default() += 1;
        *hist.entry(format!("sent_before_stepi:{}", in_step_sends.min(3))).or_default() += 1;
        if samples.len() < 3 {
            samples.push(serde_json::json!({"sent": sent, "counters": counts, "reported": reported, "max_pending": max_pending}));
        }
        *hist.entry(format!("max_pending:{}", max_pending.min(3))).or_default() += 1;
        metas.push(serde_json::json!({"max_pending": max_pending, "sent": sent, "counters": counts, "reported": reported}));
        cases.push(case);
    }
    let files = cases.write(&out_dir, "cases_C10_e2e", 100);
    println!(
        "{}",
        serde_json::json!({"leg": "c10-e2e", "seed": seed, "cases": cases.cases.len(), "distinct_nontrivial": nontrivial,
            "histogram": hist, "samples": samples, "files": files, "errors": errors, "case_meta": metas, "shard": 100})
    );
    0
}


/// `c10-acct`: histories without breakpoints (the one used to reach the first stop is removed), so the
/// whole run can be replayed through the tracer model: events = sends / stepi / continue.
pub fn run_acct(args: &[String]) -> i32 {
    let seed: u64 = args.first().and_then(|s| s.parse().ok()).unwrap_or(1);
    let count: usize = args.get(1).and_then(|s| s.parse().ok()).unwrap_or(10);
    let out_dir = args.get(2).cloned().unwrap_or_else(|| "../coq/cases".into());
    let scratch = args.get(3).cloned().unwrap_or_else(|| "/verif/.scratch/c10".into());
    let mut rng = Rng::new(seed ^ 0xC10A);
    let bin = match e2e::compile(&scratch, "sigdebuggee", DEBUGGEE, &[], None) {
        Ok(b) => b,
        Err(e) => {
            eprintln!("compile failed: {e}");
            return 3;
        }
    };
    let mut cases = CasesFile::new(&["Model.Tracer"], "acct_case", "acct_check");
    let mut hist: BTreeMap<String, u64> = BTreeMap::new();
    let mut seen = HashSet::new();
    let mut nontrivial = 0usize;
    let mut samples = vec![];
    let mut errors: Vec<String> = vec![];
    let mut metas: Vec<serde_json::Value> = vec![];
    for h in 0..count {
        let mut s = match e2e::launch(&bin, &["2".to_string()]) {
            Ok(s) => s,
            Err(e) => {
                errors.push(e);
                continue;
            }
        };
        let views = s.dbg.set_breakpoint_at_fn("anchor").map(|v| v.iter().map(|b| b.number).collect::<Vec<_>>());
        let Ok(nums) = views else {
            errors.push("break".into());
            continue;
        };
        if let Err(e) = s.dbg.start_debugee() {
            errors.push(format!("start: {e}"));
            continue;
        }
        for n in nums {
            let _ = s.dbg.remove_breakpoint_by_number(n);
        }
        // leave the breakpoint address first (the model has no breakpoints): a few plain steps
        for _ in 0..3 {
            let _ = s.dbg.stepi();
        }
        s.events.take();
        let pid = s.pid_now();
        let mut evs: Vec<String> = vec![];
        let mut sent: Vec<i32> = vec![];
        let mut reported: Vec<(i32, i32)> = vec![];
        let mut exited = false;
        let mut max_pending = 0usize;
        let mut pending_now = 0usize;
        let mut queued = 0usize;
        let mut err: Option<String> = None;
        // every fifth history is directed: a non-quiet signal, steps (its stop is reported and it waits in the tracer's
        // queue), then a quiet signal and more steps, then continue
        let directed = h % 5 == 1;
        let windows = if directed { 2 } else { rng.range(1, 4) };
        for wi in 0..windows {
            if exited {
                break;
            }
            let n = if h % 3 != 0 { rng.range(0, 1) } else { rng.range(0, 3) };
            let mut kinds: Vec<i32> = vec![];
            if directed {
                let want_quiet = wi == 1;
                let pool: Vec<i32> = SIGS.iter().filter(|(k, q)| *q == want_quiet && *k != 2).map(|(k, _)| *k).collect();
                kinds.push(*rng.pick(&pool));
            }
            for _ in 0..(if directed { 0 } else { n }) {
                let k = rng.pick(SIGS).0;
                if !kinds.contains(&k) && !sent.iter().rev().take(pending_now).any(|x| *x == k) {
                    kinds.push(k);
                }
            }
            for k in &kinds {
                unsafe { libc::kill(pid.as_raw(), *k) };
                sent.push(*k);
                evs.push(format!("ASend {} {}", cf::n(1), cf::n(*k as u128)));
            }
            // what the kernel really holds pending at this moment (signals already taken by a stepi are in the tracer's
            // queue or delivered, not pending any more)
            pending_now = kernel_pending(pid);
            for _ in 0..(if directed { rng.range(1, 3) } else { rng.range(0, 6) }) {
                evs.push("AOp OStepi".into());
                // a step takes what the kernel holds pending (the tracer's queue is not injected by a step)
                max_pending = max_pending.max(kernel_pending(pid));
                match s.dbg.stepi() {
                    Ok(()) => {}
                    Err(e) => {
                        err = Some(format!("stepi: {e}"));
                        break;
                    }
                }
                for ev in s.events.take() {
                    match ev {
                        e2e::Ev::Signal(sig) => {
                            reported.push((sig, pid.as_raw()));
                            // a signal stop reported by a step: the signal now waits in the tracer's injection queue
                            queued += 1;
                        }
                        e2e::Ev::Exit(_) => exited = true,
                        _ => {}
                    }
                }
            }
            if err.is_some() {
                break;
            }
        }
        if err.is_none() {
            // continue until exit
            let mut guard = 0;
            while !exited && guard < 40 {
                guard += 1;
                // undelivered signals at this resume: waiting in the tracer's queue + pending in the kernel
                max_pending = max_pending.max(queued + kernel_pending(pid));
                queued = 0;
                evs.push("AOp OCont".into());
                match s.dbg.continue_debugee_with_reason() {
                    Ok(StopReason::SignalStop(tid, sig)) => reported.push((sig as i32, tid.as_raw())),
                    Ok(StopReason::DebugeeExit(_)) => exited = true,
                    Ok(other) => {
                        err = Some(format!("unexpected stop {other:?}"));
                        break;
                    }
                    Err(e) => {
                        err = Some(format!("continue: {e}"));
                        break;
                    }
                }
                s.events.take();
                pending_now = 0;
            }
        }
        if let Some(e) = err {
            errors.push(format!("history {h}: {e}"));
            continue;
        }
        s.wait_out("COUNTS", 20000);
        let out = s.stdout();
        let Some(line) = out.lines().find(|l| l.starts_with("COUNTS ")) else {
            errors.push(format!("history {h}: no COUNTS line"));
            continue;
        };
        let counts: Vec<(i32, u64)> = line["COUNTS ".len()..].split(' ').next().unwrap_or("").split(',')
            .filter_map(|kv| { let (k, v) = kv.split_once(':')?; Some((k.parse().ok()?, v.parse().ok()?)) })
            .filter(|(k, _)| sent.contains(k))
            .collect();
        let case = format!(
            "([{}], {}, {}, {})",
            cf::n(1),
            cf::list(&evs, |e| e.clone()),
            cf::list(&counts, |(k, v)| format!("({}, {})", cf::n(*k as u128), cf::n(*v as u128))),
            cf::list(&reported, |(sig, _)| format!("({}, {})", cf::n(1), cf::n(*sig as u128)))
        );
        if seen.insert(case.clone()) && !sent.is_empty() {
            nontrivial += 1;
        }
        *hist.entry(format!("sent:{}", sent.len().min(5))).or_default() += 1;
        *hist.entry(format!("max_pending:{}", max_pending.min(3))).or_default() += 1;
        if samples.len() < 3 {
            samples.push(serde_json::json!({"events": evs, "counters": counts, "reported": reported}));
        }
        metas.push(serde_json::json!({"max_pending": max_pending, "events": evs, "counters": counts, "reported": reported}));
        cases.push(case);
    }
    let files = cases.write(&out_dir, "cases_C10_acct", 100);
    println!(
        "{}",
        serde_json::json!({"leg": "c10-acct", "seed": seed, "cases": cases.cases.len(), "distinct_nontrivial": nontrivial,
            "histogram": hist, "samples": samples, "files": files, "errors": errors, "case_meta": metas, "shard": 100})
    );
    0
}
