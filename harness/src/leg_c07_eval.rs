//! c07-eval: operator semantics of data query expressions on real values. A fixed debuggee is stopped at
//! a line where arrays, Vec, VecDeque, HashMap, BTreeMap, HashSet, structs, tuples, enums, references and raw
//! pointers are live; seeded expressions over these roots go to the real `Debugger::read_variable` under
//! `catch_unwind`; the root value (read with the plain variable expression) is encoded as the model's
//! `vtree` and Coq evaluates `eval` (code semantics) and `spec_eval` (documented meaning) on it
//! (`dqe_eval_check` of Model/Dqe.v). What `Deref` and pointer slices read from memory enters the case
//! as the tables `ec_mem` / `ec_mem_items` observed through the debugger itself.
use crate::coqfmt::{self as cf, CasesFile};
use crate::dqe_ast::*;
use crate::e2e;
use crate::rng::Rng;
use bugstalker::debugger::Debugger;
use bugstalker::debugger::variable::dqe::{Dqe as RDqe, Literal, LiteralOrWildcard, Selector};
use bugstalker::debugger::variable::value::{Member, SpecializedValue, SupportedScalar, Value};
use std::collections::{BTreeMap, HashMap, HashSet};
use std::fmt::Debug;

pub const DEBUGGEE: &str = r#"
use std::collections::{BTreeMap, BTreeSet, HashMap, HashSet, VecDeque};
use std::hint::black_box;
#[derive(Debug)]
struct P { a: i32, b: u64, name: &'static str, arr: [i16; 4], t: (i8, bool), v: Vec<u8> }
#[derive(Debug)]
enum E { A, B(i32), C { x: u8, y: [u8; 2] } }
#[derive(Debug, Clone, Copy)]
enum Ce { Red, Green, Blue }
fn main() {
    let arr: [i32; 5] = [10, 11, 12, 13, 14];
    let arr2: [[u8; 3]; 2] = [[1, 2, 3], [4, 5, 6]];
    let farr: [f64; 3] = [1.5, -2.25, 0.0];
    let empty: [u32; 0] = [];
    let vec1: Vec<i64> = vec![-1, 0, 7, 1 << 40, i64::MIN];
    let vempty: Vec<u16> = Vec::new();
    let vv: Vec<Vec<u8>> = vec![vec![1, 2], vec![], vec![3]];
    let mut vd: VecDeque<u32> = VecDeque::new();
    for i in 0..6u32 { vd.push_back(100 + i); }
    vd.pop_front();
    vd.push_front(99);
    let mut hm: HashMap<u64, i32> = HashMap::new();
    hm.insert(1, -10); hm.insert(2, -20); hm.insert(u64::MAX, 7);
    let mut hs: HashMap<String, [u8; 2]> = HashMap::new();
    hs.insert("one".to_string(), [1, 1]); hs.insert("two".to_string(), [2, 2]);
    let mut bm: BTreeMap<i8, (u8, bool)> = BTreeMap::new();
    bm.insert(-1, (1, true)); bm.insert(5, (2, false));
    let mut set: HashSet<i32> = HashSet::new();
    set.insert(3); set.insert(-4);
    // set-valued keys / items: index literals with wildcards must match greedily, one wildcard per unmatched element
    let mut ks: BTreeMap<BTreeSet<i32>, u32> = BTreeMap::new();
    ks.insert([1, 2, 3].into_iter().collect(), 10); ks.insert([1, 5, 9].into_iter().collect(), 20); ks.insert([8, 7, 6].into_iter().collect(), 30);
    let mut hss: HashSet<BTreeSet<i32>> = HashSet::new();
    hss.insert([2, 4, 6].into_iter().collect()); hss.insert([1, 7, 3].into_iter().collect());
    let p = P { a: -7, b: 1 << 63, name: "pname", arr: [1, -2, 3, -4], t: (-3, true), v: vec![9, 8, 7] };
    let tup: (u8, [i32; 2], &str) = (200, [5, 6], "tt");
    let e_a = E::A;
    let e_b = E::B(42);
    let e_c = E::C { x: 1, y: [2, 3] };
    let ce = Ce::Green;
    let opt: Option<[u8; 3]> = Some([7, 8, 9]);
    let r_arr: &[i32; 5] = &arr;
    let pv: *const i32 = arr.as_ptr();
    let bx: Box<P> = Box::new(P { a: 1, b: 2, name: "boxed", arr: [0, 0, 0, 1], t: (0, false), v: vec![] });
    let s: String = "hello".to_string();
    let st: &str = "str slice";
    let rr: &&[i32; 5] = &r_arr;
    let sl: &[i32] = &arr[1..4];
    let x: u8 = 5;
    let fl: f32 = 0.5;
    let b: bool = true;
    let ch: char = 'q';
    let unit: () = ();
    let uptr: *const () = &unit as *const ();
    black_box((&arr, &arr2, &farr, &empty, &vec1, &vempty, &vv, &vd, &hm, &hs, &bm, &set, &p, &tup));
    black_box((&e_a, &e_b, &e_c, &ce, &opt, &r_arr, &pv, &bx, &s, &st, &rr, &sl, &x, &fl, &b, &ch, &uptr));
    black_box((&ks, &hss));
    println!("stop here"); // BREAK
    black_box((&ks, &hss));
    black_box((&arr, &arr2, &farr, &empty, &vec1, &vempty, &vv, &vd, &hm, &hs, &bm, &set, &p, &tup));
    black_box((&e_a, &e_b, &e_c, &ce, &opt, &r_arr, &pv, &bx, &s, &st, &rr, &sl, &x, &fl, &b, &ch, &uptr));
}
"#;

const ROOTS: &[&str] = &[
    "arr", "arr2", "farr", "empty", "vec1", "vempty", "vv", "vd", "hm", "hs", "bm", "set", "p", "tup", "e_a", "e_b", "e_c", "ce",
    "opt", "r_arr", "pv", "bx", "s", "st", "rr", "sl", "x", "fl", "b", "ch", "uptr", "ks", "hss",
];
const FIELDS: &[&str] = &["a", "b", "name", "arr", "t", "v", "x", "y", "buf", "len", "cap", "one", "two", "0", "1", "2", "__0", "nope", "data_ptr", "length", "pointer"];

// ---------------------------------------------------------------- Value -> vtree (Gallina text)

struct Enc {
    types: HashMap<String, u64>,
}

impl Enc {
    fn tid_key(&mut self, k: String) -> u64 {
        let n = self.types.len() as u64 + 1;
        *self.types.entry(k).or_insert(n)
    }
    fn tid<T: Debug>(&mut self, t: &Option<T>) -> Option<u64> {
        t.as_ref().map(|t| self.tid_key(format!("{:?}", t)))
    }
    fn optn(o: Option<u64>) -> String {
        match o {
            Some(n) => format!("(Some {})", cf::n(n as u128)),
            None => "None".into(),
        }
    }
    fn meta<T: Debug>(&mut self, addr: Option<usize>, ty: &Option<T>) -> String {
        let t = self.tid(ty);
        format!("(mk_meta {} {})", Self::optn(addr.map(|a| a as u64)), Self::optn(t))
    }
    fn members(&mut self, ms: &[Member]) -> String {
        let v: Vec<String> = ms
            .iter()
            .map(|m| {
                format!(
                    "({}, {})",
                    match &m.field_name {
                        Some(n) => format!("Some {}", cf::bstr(n)),
                        None => "None".into(),
                    },
                    self.value(&m.value)
                )
            })
            .collect();
        format!("[{}]", v.join("; "))
    }
    fn scalar(s: &SupportedScalar) -> String {
        let int = |v: i64| format!("(SInt {})", cf::z(v as i128));
        match s {
            SupportedScalar::I8(v) => int(*v as i64),
            SupportedScalar::I16(v) => int(*v as i64),
            SupportedScalar::I32(v) => int(*v as i64),
            SupportedScalar::I64(v) => int(*v),
            SupportedScalar::I128(v) => int(*v as i64),
            SupportedScalar::Isize(v) => int(*v as i64),
            SupportedScalar::U8(v) => int(*v as i64),
            SupportedScalar::U16(v) => int(*v as i64),
            SupportedScalar::U32(v) => int(*v as i64),
            SupportedScalar::U64(v) => int(*v as i64),
            SupportedScalar::U128(v) => int(*v as i64),
            SupportedScalar::Usize(v) => int(*v as i64),
            SupportedScalar::F32(f) => format!("(SFloat {})", cf::n((*f as f64).to_bits() as u128)),
            SupportedScalar::F64(f) => format!("(SFloat {})", cf::n(f.to_bits() as u128)),
            SupportedScalar::Bool(b) => format!("(SBool {})", cf::boolean(*b)),
            SupportedScalar::Char(c) => format!("(SChar {})", cf::bstr(&c.to_string())),
            SupportedScalar::Empty() => "SEmpty".into(),
        }
    }
    fn value(&mut self, v: &Value) -> String {
        match v {
            Value::Scalar(s) => format!(
                "(VScalar {} {})",
                self.meta(s.raw_address, &s.type_id),
                match &s.value {
                    Some(x) => format!("(Some {})", Self::scalar(x)),
                    None => "None".into(),
                }
            ),
            Value::Struct(s) => format!("(VStruct {} {})", self.meta(s.raw_address, &s.type_id), self.members(&s.members)),
            Value::Array(a) => format!(
                "(VArray {} {})",
                self.meta(a.raw_address, &a.type_id),
                match &a.items {
                    Some(items) => {
                        let v: Vec<String> = items.iter().map(|i| self.value(&i.value)).collect();
                        format!("(Some [{}])", v.join("; "))
                    }
                    None => "None".into(),
                }
            ),
            Value::CEnum(c) => format!(
                "(VCEnum {} {})",
                self.meta(c.raw_address, &c.type_id),
                match &c.value {
                    Some(n) => format!("(Some {})", cf::bstr(n)),
                    None => "None".into(),
                }
            ),
            Value::RustEnum(e) => format!(
                "(VRustEnum {} {})",
                self.meta(e.raw_address, &e.type_id),
                match &e.value {
                    Some(m) => format!(
                        "(Some ({}, {}))",
                        match &m.field_name {
                            Some(n) => format!("Some {}", cf::bstr(n)),
                            None => "None".into(),
                        },
                        self.value(&m.value)
                    ),
                    None => "None".into(),
                }
            ),
            Value::Pointer(p) => {
                let t = self.tid(&p.target_type);
                format!(
                    "(VPointer {} {} {})",
                    self.meta(p.raw_address, &p.type_id),
                    Self::optn(p.value.map(|x| x as usize as u64)),
                    Self::optn(t)
                )
            }
            Value::Subroutine(s) => format!("(VSubroutine {})", self.meta(s.address, &s.type_id)),
            Value::Specialized { value, original } => {
                let m = self.meta(original.raw_address, &original.type_id);
                let orig = self.members(&original.members);
                match value {
                    Some(SpecializedValue::Vector(vec)) | Some(SpecializedValue::VecDeque(vec)) => {
                        match vec.structure.members.first() {
                            Some(first) => format!("(VVec {} {} {})", m, self.value(&first.value), orig),
                            None => format!("(VSpecOther {} {})", m, orig),
                        }
                    }
                    Some(SpecializedValue::HashMap(map)) | Some(SpecializedValue::BTreeMap(map)) => {
                        let kvs: Vec<String> =
                            map.kv_items.iter().map(|(k, v)| format!("({}, {})", self.value(k), self.value(v))).collect();
                        format!("(VMap {} [{}] {})", m, kvs.join("; "), orig)
                    }
                    Some(SpecializedValue::HashSet(set)) | Some(SpecializedValue::BTreeSet(set)) => {
                        let its: Vec<String> = set.items.iter().map(|v| self.value(v)).collect();
                        format!("(VSet {} [{}] {})", m, its.join("; "), orig)
                    }
                    Some(SpecializedValue::String(s)) => format!("(VStr {} {} {})", m, cf::bstr(&s.value), orig),
                    Some(SpecializedValue::Str(s)) => format!("(VStr {} {} {})", m, cf::bstr(&s.value), orig),
                    _ => format!("(VSpecOther {} {})", m, orig),
                }
            }
            Value::CModifiedVariable(c) => format!("(VSpecOther {} [])", self.meta(c.address, &c.type_id)),
        }
    }
}

/// kinds the model does not follow (Rc/Arc/Tls/Cell/RefCell/Uuid/... and C modifiers): such cases are skipped
fn unmodelled(v: &Value) -> bool {
    match v {
        Value::Specialized { value, original } => {
            let here = matches!(
                value,
                Some(SpecializedValue::Rc(_))
                    | Some(SpecializedValue::Arc(_))
                    | Some(SpecializedValue::Tls(_))
                    | Some(SpecializedValue::Cell(_))
                    | Some(SpecializedValue::RefCell(_))
                    | Some(SpecializedValue::Uuid(_))
                    | Some(SpecializedValue::SystemTime(_))
                    | Some(SpecializedValue::Instant(_))
            );
            here || original.members.iter().any(|m| unmodelled(&m.value))
        }
        Value::CModifiedVariable(_) => true,
        Value::Struct(s) => s.members.iter().any(|m| unmodelled(&m.value)),
        Value::Array(a) => a.items.as_ref().map(|i| i.iter().any(|x| unmodelled(&x.value))).unwrap_or(false),
        Value::RustEnum(e) => e.value.as_ref().map(|m| unmodelled(&m.value)).unwrap_or(false),
        _ => false,
    }
}

// ---------------------------------------------------------------- AST -> real Dqe

fn real_lit(l: &Lit) -> Literal {
    let low = |x: &Option<Lit>| match x {
        Some(l) => LiteralOrWildcard::Literal(real_lit(l)),
        None => LiteralOrWildcard::Wildcard,
    };
    let pt = |p: &Path| format!("{}{}", if p.0 { "::" } else { "" }, p.1.join("::"));
    match l {
        Lit::Str(s) => Literal::String(s.clone()),
        Lit::Int(z) => Literal::Int(*z as i64),
        Lit::Float(neg, ip, fd) => Literal::Float(
            format!("{}{}.{}", if *neg { "-" } else { "" }, ip, fd.iter().map(|d| (b'0' + d) as char).collect::<String>())
                .parse()
                .unwrap(),
        ),
        Lit::Addr(a) => Literal::Address(*a as usize),
        Lit::Bool(b) => Literal::Bool(*b),
        Lit::Enum(p, a) => Literal::EnumVariant(pt(p), a.as_ref().map(|a| Box::new(real_lit(a)))),
        Lit::Arr(items) => Literal::Array(items.iter().map(low).collect::<Vec<_>>().into_boxed_slice()),
        Lit::Assoc(kvs) => Literal::AssocArray(kvs.iter().map(|(k, v)| (pt(k), low(v))).collect()),
    }
}

fn real_dqe(e: &Dq) -> RDqe {
    match e {
        Dq::Var(p) => RDqe::Variable(Selector::by_name(p.1.join("::"), false)),
        Dq::PtrCast(_, _) => unreachable!(),
        Dq::Field(a, f) => RDqe::Field(
            Box::new(real_dqe(a)),
            match f {
                FName::Name(s) => s.clone(),
                FName::Num(n) => n.to_string(),
            },
        ),
        Dq::Index(a, l) => RDqe::Index(Box::new(real_dqe(a)), real_lit(l)),
        Dq::Slice(a, l, r) => RDqe::Slice(Box::new(real_dqe(a)), l.map(|v| v as usize), r.map(|v| v as usize)),
        Dq::Deref(a) => RDqe::Deref(Box::new(real_dqe(a))),
        Dq::Address(a) => RDqe::Address(Box::new(real_dqe(a))),
        Dq::Canonic(a) => RDqe::Canonic(Box::new(real_dqe(a))),
    }
}

// ---------------------------------------------------------------- evaluation through the debugger

enum Eval {
    Value(Option<Value>),
    Multi(usize),
    Error(String),
    Panic(String, String),
}

static PANIC_SITE: std::sync::Mutex<(String, String)> = std::sync::Mutex::new((String::new(), String::new()));

fn hook() {
    std::panic::set_hook(Box::new(|info| {
        let loc = info.location().map(|l| format!("{}:{}", l.file(), l.line())).unwrap_or_default();
        let loc = match loc.find("src/") {
            Some(i) => loc[i..].to_string(),
            None => loc,
        };
        let msg = if let Some(s) = info.payload().downcast_ref::<&str>() {
            s.to_string()
        } else if let Some(s) = info.payload().downcast_ref::<String>() {
            s.clone()
        } else {
            String::new()
        };
        *PANIC_SITE.lock().unwrap() = (loc, msg.chars().take(160).collect());
    }));
}

fn eval(dbg: &Debugger, e: &Dq) -> Eval {
    let q = real_dqe(e);
    let r = std::panic::catch_unwind(std::panic::AssertUnwindSafe(|| dbg.read_variable(q)));
    match r {
        Err(_) => {
            let (s, m) = PANIC_SITE.lock().unwrap().clone();
            Eval::Panic(s, m)
        }
        Ok(Err(e)) => Eval::Error(e.to_string()),
        Ok(Ok(mut v)) => match v.len() {
            0 => Eval::Value(None),
            1 => Eval::Value(Some(v.remove(0).into_value())),
            n => Eval::Multi(n),
        },
    }
}

/// the pointer a `Deref` would follow (through enum payloads), as (address, target type as text, declared size)
fn deref_target(v: &Value) -> Option<(usize, String, Option<u64>)> {
    match v {
        Value::Pointer(p) => Some((p.value? as usize, format!("{:?}", p.target_type.as_ref()?), p.target_type_size)),
        Value::RustEnum(e) => deref_target(&e.value.as_ref()?.value),
        _ => None,
    }
}

fn size_of_items(v: &Value) -> Option<u64> {
    // distance of consecutive items of an array value read from a pointer
    if let Value::Array(a) = v {
        let items = a.items.as_ref()?;
        if items.len() >= 2 {
            let a0 = items[0].value.in_memory_location()?;
            let a1 = items[1].value.in_memory_location()?;
            return Some((a1 - a0) as u64);
        }
    }
    None
}

// ---------------------------------------------------------------- generator

fn gen_key(rng: &mut Rng) -> Lit {
    match rng.below(24) {
        0..=7 => Lit::Int(rng.below(7) as i128),
        8 => Lit::Int(-1),
        9 => Lit::Int(-(rng.below(6) as i128)),
        10 => Lit::Int(*rng.pick(&[99, 100, 101, 104, 1i128 << 40, -(1i128 << 63), (1i128 << 63) - 1, 5, 3, -4, -10, 7])),
        11 => Lit::Str((*rng.pick(&["one", "two", "three", "q", "hello"])).to_string()),
        12 => Lit::Bool(rng.chance(1, 2)),
        13 => Lit::Enum((false, vec![(*rng.pick(&["A", "B", "C", "Green", "Some", "None"])).to_string()]), None),
        14 => Lit::Enum((false, vec!["B".into()]), Some(Box::new(Lit::Int(42)))),
        15 => Lit::Arr(vec![Some(Lit::Int(1)), None, Some(Lit::Int(3))]),
        16 => Lit::Arr(vec![Some(Lit::Int(1)), Some(Lit::Bool(true))]),
        17 => Lit::Assoc(vec![((false, vec!["x".into()]), Some(Lit::Int(1))), ((false, vec!["y".into()]), None)]),
        18 => Lit::Addr(rng.below(4096) as u128),
        19 => Lit::Float(false, 1, vec![5]),
        20 => Lit::Int(u64::MAX as i64 as i128),
        _ => Lit::Int(rng.below(3) as i128 + 1),
    }
}

fn gen_bound(rng: &mut Rng) -> Option<u128> {
    match rng.below(20) {
        0..=4 => None,
        5..=15 => Some(rng.below(8) as u128),
        16 => Some(10001),
        17 => Some(u64::MAX as u128),
        18 => Some(1u128 << 62),
        _ => Some(rng.below(20) as u128),
    }
}

/// a set literal of three slots over the elements used by `ks` / `hss`, each slot a wildcard with probability 1/3
fn gen_set_lit(rng: &mut Rng) -> Lit {
    let pool = [1i128, 2, 3, 5, 9, 8, 7, 6, 4];
    let n = if rng.chance(1, 6) { rng.range(1, 4) as usize } else { 3 };
    Lit::Arr((0..n).map(|_| if rng.chance(1, 3) { None } else { Some(Lit::Int(*rng.pick(&pool))) }).collect())
}

fn gen_expr(rng: &mut Rng) -> Dq {
    if rng.chance(1, 10) {
        // directed: index a container of sets with a set literal
        let root = *rng.pick(&["ks", "hss"]);
        return Dq::Index(Box::new(Dq::Var((false, vec![root.to_string()]))), gen_set_lit(rng));
    }
    let mut e = Dq::Var((false, vec![(*rng.pick(ROOTS)).to_string()]));
    let n = match rng.below(10) {
        0..=2 => 1,
        3..=6 => 2,
        7..=8 => 3,
        _ => 4,
    };
    for _ in 0..n {
        e = match rng.below(100) {
            0..=21 => Dq::Index(Box::new(e), gen_key(rng)),
            22..=46 => {
                let l = gen_bound(rng);
                let r = gen_bound(rng);
                Dq::Slice(Box::new(e), l, r)
            }
            47..=63 => {
                let f = *rng.pick(FIELDS);
                Dq::Field(
                    Box::new(e),
                    if f.bytes().all(|b| b.is_ascii_digit()) { FName::Num(f.parse().unwrap()) } else { FName::Name(f.to_string()) },
                )
            }
            64..=77 => Dq::Deref(Box::new(e)),
            78..=88 => Dq::Address(Box::new(e)),
            _ => Dq::Canonic(Box::new(e)),
        };
    }
    e
}

fn prefixes(e: &Dq) -> Vec<&Dq> {
    // sub-expressions, innermost first, ending with e itself
    let mut v = vec![];
    let mut cur = e;
    loop {
        v.push(cur);
        cur = match cur {
            Dq::Var(_) | Dq::PtrCast(_, _) => break,
            Dq::Field(a, _) | Dq::Index(a, _) | Dq::Slice(a, _, _) | Dq::Deref(a) | Dq::Address(a) | Dq::Canonic(a) => a,
        };
    }
    v.reverse();
    v
}

fn has_slice(e: &Dq) -> bool {
    prefixes(e).iter().any(|p| matches!(p, Dq::Slice(_, _, _)))
}

fn stop_at_break(bin: &std::path::Path) -> Result<e2e::Session, String> {
    let line = DEBUGGEE.lines().position(|l| l.contains("// BREAK")).unwrap() as u64 + 1;
    let mut s = e2e::launch(bin, &[])?;
    s.dbg.set_breakpoint_at_line("evaldebuggee.rs", line).map_err(|e| format!("breakpoint: {e}"))?;
    s.dbg.start_debugee().map_err(|e| format!("start: {e}"))?;
    Ok(s)
}

/// `bsv c07-eval-probe <debuggee> <root> <left|-> <right|->`: one slice query in a process of its own (a
/// query that aborts the process cannot be caught); prints `probe: <outcome>`
pub fn run_probe(args: &[String]) -> i32 {
    let bin = std::path::PathBuf::from(&args[0]);
    let b = |s: &String| if s == "-" { None } else { s.parse::<u128>().ok() };
    let e = Dq::Slice(Box::new(Dq::Var((false, vec![args[1].clone()]))), b(&args[2]), b(&args[3]));
    let s = match stop_at_break(&bin) {
        Ok(s) => s,
        Err(e) => {
            println!("probe: setup failed {e}");
            return 3;
        }
    };
    hook();
    let r = eval(&s.dbg, &e);
    println!(
        "probe: {}",
        match r {
            Eval::Value(Some(_)) => "value".to_string(),
            Eval::Value(None) => "none".to_string(),
            Eval::Multi(_) => "multi".to_string(),
            Eval::Error(e) => format!("error {e}"),
            Eval::Panic(a, b) => format!("panic {a} {b}"),
        }
    );
    drop(s);
    0
}

pub fn run(args: &[String]) -> i32 {
    let seed: u64 = args.first().and_then(|s| s.parse().ok()).unwrap_or(1);
    let count: usize = args.get(1).and_then(|s| s.parse().ok()).unwrap_or(300);
    let out_dir = args.get(2).cloned().unwrap_or_else(|| "../coq/cases".into());
    let scratch = args.get(3).cloned().unwrap_or_else(|| "/verif/.scratch/c07".into());
    let mut rng = Rng::new(seed ^ 0xC07E);
    let mut errors: Vec<String> = vec![];
    let bin = match e2e::compile(&scratch, "evaldebuggee", DEBUGGEE, &[], None) {
        Ok(b) => b,
        Err(e) => {
            eprintln!("compile failed: {e}");
            return 3;
        }
    };
    let s = match stop_at_break(&bin) {
        Ok(s) => s,
        Err(e) => {
            eprintln!("setup failed: {e}");
            return 3;
        }
    };
    hook();
    let mut cases = CasesFile::new(&["Model.Dqe"], "dqe_eval_case", "dqe_eval_check");
    let mut hist: BTreeMap<String, u64> = BTreeMap::new();
    let mut seen = HashSet::new();
    let mut nontrivial = 0usize;
    let mut samples = vec![];
    let mut metas = vec![];
    let mut skipped = 0usize;
    let mut roots_ok: BTreeMap<String, bool> = BTreeMap::new();

    let mut made = 0usize;
    let mut attempts = 0usize;
    while made < count && attempts < count * 4 {
        attempts += 1;
        let e = gen_expr(&mut rng);
        let pre = prefixes(&e);
        let root_name = match pre[0] {
            Dq::Var(p) => p.1[0].clone(),
            _ => unreachable!(),
        };
        let root = match eval(&s.dbg, pre[0]) {
            Eval::Value(Some(v)) => v,
            other => {
                let why = match other {
                    Eval::Value(None) => "no result".to_string(),
                    Eval::Multi(n) => format!("{n} results"),
                    Eval::Error(e) => e,
                    Eval::Panic(a, b) => format!("panic {a} {b}"),
                    _ => String::new(),
                };
                if roots_ok.insert(root_name.clone(), false).is_none() {
                    errors.push(format!("root `{root_name}` cannot be read: {why}"));
                }
                continue;
            }
        };
        roots_ok.insert(root_name.clone(), true);
        if unmodelled(&root) {
            skipped += 1;
            continue;
        }
        let mut enc = Enc { types: HashMap::new() };
        let root_txt = enc.value(&root);
        // tables of what memory holds, observed through the debugger on the prefixes of the expression
        let mut mem: Vec<String> = vec![];
        let mut mem_items: Vec<String> = vec![];
        let mut ty_size: BTreeMap<u64, u64> = BTreeMap::new();
        let mut skip = false;
        for k in 1..pre.len() {
            let inner = match eval(&s.dbg, pre[k - 1]) {
                Eval::Value(Some(v)) => v,
                _ => break, // the chain already ended (no result / error / panic): later operators see nothing
            };
            if unmodelled(&inner) {
                skip = true;
                break;
            }
            match pre[k] {
                Dq::Deref(_) => {
                    if let Some((p, t, _)) = deref_target(&inner) {
                        if let Eval::Value(Some(v)) = eval(&s.dbg, pre[k]) {
                            if unmodelled(&v) {
                                skip = true;
                                break;
                            }
                            let tn = enc.tid_key(t);
                            mem.push(format!("(({}, {}), {})", cf::n(p as u128), cf::n(tn as u128), enc.value(&v)));
                        }
                    }
                }
                Dq::Slice(_, l, Some(r)) => {
                    if let Value::Pointer(pv) = &inner {
                        if let (Some(p), Some(t)) = (pv.value, pv.target_type.as_ref()) {
                            let tn = enc.tid_key(format!("{:?}", t));
                            // size of the pointee: declared, or measured on a two-element slice
                            let mut sz = pv.target_type_size;
                            if sz.is_none() {
                                let probe = Dq::Slice(Box::new(pre[k - 1].clone()), None, Some(2));
                                if let Eval::Value(Some(v)) = eval(&s.dbg, &probe) {
                                    sz = size_of_items(&v);
                                }
                            }
                            if let Some(sz) = sz {
                                ty_size.insert(tn, sz);
                                let l = l.unwrap_or(0);
                                let base = (p as usize as u128) + (sz as u128) * l;
                                // a right bound below the left one reads nothing (count saturates at 0)
                                if base < P64 {
                                    if let Eval::Value(Some(Value::Array(a))) = eval(&s.dbg, pre[k]) {
                                        if let Some(items) = &a.items {
                                            let its: Vec<String> = items.iter().map(|i| enc.value(&i.value)).collect();
                                            mem_items.push(format!(
                                                "(({}, {}, {}), [{}])",
                                                cf::n(base),
                                                cf::n(tn as u128),
                                                cf::n(r.saturating_sub(l)),
                                                its.join("; ")
                                            ));
                                        }
                                    }
                                }
                            }
                        }
                    }
                }
                _ => {}
            }
        }
        if skip {
            skipped += 1;
            continue;
        }
        let res = eval(&s.dbg, &e);
        let (impl_txt, oname, site, msg) = match &res {
            Eval::Value(Some(v)) => {
                if unmodelled(v) {
                    skipped += 1;
                    continue;
                }
                (format!("(EO_value (Some {}))", enc.value(v)), "value", String::new(), String::new())
            }
            Eval::Value(None) => ("(EO_value None)".to_string(), "none", String::new(), String::new()),
            Eval::Multi(n) => {
                errors.push(format!("{n} results for {}", render_canonical(&tokens_of(&e))));
                continue;
            }
            Eval::Error(m) => ("EO_error".to_string(), "error", String::new(), m.clone()),
            Eval::Panic(a, b) => ("EO_panic".to_string(), "panic", a.clone(), b.clone()),
        };
        // the address / type ids of pointers with a Deref table entry must use the ids of this encoder: the
        // deref tables were keyed by the Debug text of the type, the value encoder keys by the same text
        let text = render_canonical(&tokens_of(&e));
        let c = format!(
            "(mk_eval_case {} {} [{}] [{}] {} [] [] {})",
            root_txt,
            coq_dq(&e),
            mem.join("; "),
            mem_items.join("; "),
            cf::list(&ty_size.iter().collect::<Vec<_>>(), |(t, s)| format!("({}, {})", cf::n(**t as u128), cf::n(**s as u128))),
            impl_txt
        );
        let nt = depth(&e) >= 3 || has_slice(&e);
        if seen.insert(c.clone()) && nt {
            nontrivial += 1;
        }
        *hist.entry(format!("root:{root_name}")).or_default() += 1;
        *hist.entry(format!("outcome:{oname}")).or_default() += 1;
        *hist.entry(format!("top:{}", top_kind(&e))).or_default() += 1;
        *hist.entry(format!("ops:{}", depth(&e) - 1)).or_default() += 1;
        if samples.len() < 3 && oname == "value" && depth(&e) >= 3 {
            samples.push(serde_json::json!({"expression": text, "outcome": oname}));
        }
        metas.push(serde_json::json!({"text": text, "outcome": oname, "site": site, "msg": msg}));
        cases.push(c);
        made += 1;
    }
    // probe of finding F7: *&(slice) should be the slice, the code returns the whole container
    let mut probe = vec![];
    for (root, l, r) in [("arr", 1u128, 3u128), ("vec1", 1, 3)] {
        let sl = Dq::Slice(Box::new(Dq::Var((false, vec![root.to_string()]))), Some(l), Some(r));
        let da = Dq::Deref(Box::new(Dq::Address(Box::new(sl.clone()))));
        let mut enc = Enc { types: HashMap::new() };
        let a = match eval(&s.dbg, &sl) {
            Eval::Value(Some(v)) => enc.value(&v),
            _ => "?".into(),
        };
        let b = match eval(&s.dbg, &da) {
            Eval::Value(Some(v)) => enc.value(&v),
            Eval::Value(None) => "none".into(),
            _ => "?".into(),
        };
        probe.push(serde_json::json!({"expression": render_canonical(&tokens_of(&da)), "equals_slice": a == b}));
    }
    drop(s);
    // queries whose failure mode is an abort of the whole process run in a child process
    let mut abort_probes = vec![];
    for (root, l, r) in [("pv", "-", "1099511627776"), ("pv", "0", "4611686018427387904"), ("pv", "3", "2"), ("uptr", "0", "2"), ("arr", "7", "-")] {
        let out = std::process::Command::new(std::env::current_exe().unwrap())
            .args(["c07-eval-probe", bin.to_str().unwrap(), root, l, r])
            .output();
        let (status, text) = match out {
            Ok(o) => (
                format!("{:?}", o.status.code().map(|c| c.to_string()).unwrap_or_else(|| format!("signal {:?}", std::os::unix::process::ExitStatusExt::signal(&o.status)))),
                String::from_utf8_lossy(&o.stdout).lines().filter(|l| l.starts_with("probe:")).collect::<Vec<_>>().join(" "),
            ),
            Err(e) => (format!("spawn failed {e}"), String::new()),
        };
        let lb = if l == "-" { "" } else { l };
        let rb = if r == "-" { "" } else { r };
        abort_probes.push(serde_json::json!({"query": format!("var {root}[{lb}..{rb}]"), "exit": status, "outcome": text}));
    }
    let shard = 100;
    let files = cases.write(&out_dir, "cases_C07_eval", shard);
    println!(
        "{}",
        serde_json::json!({"leg": "c07-eval", "seed": seed, "cases": made, "distinct_nontrivial": nontrivial,
            "histogram": hist, "samples": samples, "files": files, "errors": errors, "case_meta": metas, "shard": shard,
            "skipped_unmodelled": skipped, "deref_address_of_slice_probe": probe, "abort_probes": abort_probes})
    );
    0
}
