//! C15 e2e leg: read_memory / write_bytes / write_memory against /proc/<pid>/mem ground truth on a
//! debuggee whose address space has holes; register writes against PTRACE_GETREGS.
use crate::coqfmt::{self as cf, CasesFile};
use crate::e2e;
use crate::rng::Rng;
use bugstalker::dap::yadap::session::data::verif_write_bytes;
use std::collections::{BTreeMap, HashSet};

pub const DEBUGGEE: &str = r#"
use std::ffi::c_void;
extern "C" {
    fn mmap(addr: *mut c_void, len: usize, prot: i32, flags: i32, fd: i32, off: i64) -> *mut c_void;
    fn munmap(addr: *mut c_void, len: usize) -> i32;
    fn mprotect(addr: *mut c_void, len: usize, prot: i32) -> i32;
}
#[inline(never)]
#[no_mangle]
pub extern "C" fn anchor(n: u64) -> u64 { std::hint::black_box(n) + 1 }
fn main() {
    unsafe {
        let page = 4096usize;
        let base = mmap(std::ptr::null_mut(), 8 * page, 3, 0x22, -1, 0) as *mut u8;
        for i in 0..8 * page { *base.add(i) = ((i * 7 + 3) % 251) as u8; }
        munmap(base.add(2 * page) as *mut c_void, page);          // hole
        mprotect(base.add(4 * page) as *mut c_void, page, 0);     // PROT_NONE
        mprotect(base.add(5 * page) as *mut c_void, page, 1);     // read-only
        munmap(base.add(7 * page) as *mut c_void, page);          // hole at the end
        println!("BASE={:#x}", base as usize);
        let mut s = anchor(1);
        // the program observes the memory after the debugger's writes
        let mut sum: u64 = 0;
        for p in [0usize, 1, 3, 5, 6] { for i in 0..page { sum = sum.wrapping_mul(31).wrapping_add(*base.add(p * page + i) as u64); } }
        println!("SUM={}", sum);
        s += anchor(2);
        std::hint::black_box(s);
    }
}
"#;

fn window(pid: nix::unistd::Pid, lo: u64, len: usize) -> Vec<Option<u8>> {
    // whole-window read first (fast path), byte by byte when it fails
    if let Ok(b) = e2e::proc_mem_read(pid, lo, len) {
        return b.into_iter().map(Some).collect();
    }
    (0..len).map(|i| e2e::proc_mem_read(pid, lo + i as u64, 1).ok().map(|b| b[0])).collect()
}

fn fmt_cells(w: &[Option<u8>]) -> String {
    cf::list(w, |c| match c {
        Some(b) => format!("Some {}", cf::n(*b as u128)),
        None => "None".into(),
    })
}

pub fn run(args: &[String]) -> i32 {
    let seed: u64 = args.first().and_then(|s| s.parse().ok()).unwrap_or(1);
    let count: usize = args.get(1).and_then(|s| s.parse().ok()).unwrap_or(300);
    let out_dir = args.get(2).cloned().unwrap_or_else(|| "../coq/cases".into());
    let scratch = args.get(3).cloned().unwrap_or_else(|| "/verif/.scratch/c15".into());
    let mut rng = Rng::new(seed ^ 0xC15);
    let bin = match e2e::compile(&scratch, "memdebuggee", DEBUGGEE, &[], None) {
        Ok(b) => b,
        Err(e) => {
            eprintln!("compile failed: {e}");
            return 3;
        }
    };
    let mut cases = CasesFile::new(&["Model.Mem"], "mem_case", "mem_check");
    let mut hist: BTreeMap<String, u64> = BTreeMap::new();
    let mut seen = HashSet::new();
    let mut nontrivial = 0usize;
    let mut samples = vec![];
    let mut errors: Vec<String> = vec![];
    let mut reg_failures: Vec<String> = vec![];
    let mut reg_checks = 0usize;

    let mut s = match e2e::launch(&bin, &[]) {
        Ok(s) => s,
        Err(e) => {
            eprintln!("launch: {e}");
            return 3;
        }
    };
    if let Err(e) = s.dbg.set_breakpoint_at_fn("anchor") {
        eprintln!("break: {e}");
        return 3;
    }
    if let Err(e) = s.dbg.start_debugee() {
        eprintln!("start: {e}");
        return 3;
    }
    s.wait_out("BASE=", 20000);
    let out = s.stdout();
    let base = match out.lines().find_map(|l| l.strip_prefix("BASE=0x")).and_then(|h| u64::from_str_radix(h.trim(), 16).ok()) {
        Some(b) => b,
        None => {
            eprintln!("no BASE line: {out}");
            return 3;
        }
    };
    let pid = s.pid_now();
    let page = 4096u64;
    // interesting boundaries inside the region: page edges next to holes / protections
    let edges: Vec<u64> = (0..=8).map(|p| base + p * page).collect();
    for i in 0..count {
        let is_write = rng.chance(1, 2);
        let len = match rng.below(10) {
            0 => 0,
            1..=3 => rng.range(1, 8),
            4..=7 => rng.range(1, 24),
            _ => rng.range(8, 40),
        } as usize;
        // start address: mostly within +-20 bytes of an edge so that ranges straddle it
        let a = if rng.chance(4, 5) {
            let e = *rng.pick(&edges[1..8]);
            (e as i64 + rng.range(0, 40) as i64 - 28) as u64
        } else {
            base + rng.below(8 * page)
        };
        let lo = a.saturating_sub(16) & !7;
        let wlen = (a - lo) as usize + len + 24;
        let before = window(pid, lo, wlen);
        let case = if !is_write {
            let r = s.dbg.read_memory(a as usize, len);
            let res = match &r {
                Ok(b) => format!("(Some {})", cf::bytes(b)),
                Err(_) => "None".to_string(),
            };
            *hist.entry(format!("read:{}", if r.is_ok() { "ok" } else { "err" })).or_default() += 1;
            format!("({}, {}, MRead {} {} {})", cf::n(lo as u128), fmt_cells(&before), cf::n(a as u128), cf::n(len as u128), res)
        } else {
            let data: Vec<u8> = (0..len).map(|_| rng.below(256) as u8).collect();
            let r = verif_write_bytes(&s.dbg, a as usize, &data);
            let after = window(pid, lo, wlen);
            *hist.entry(format!("write:{}", if r.is_ok() { "ok" } else { "err" })).or_default() += 1;
            format!(
                "({}, {}, MWrite {} {} {} {})",
                cf::n(lo as u128),
                fmt_cells(&before),
                cf::n(a as u128),
                cf::bytes(&data),
                cf::boolean(r.is_ok()),
                fmt_cells(&after)
            )
        };
        let straddles = before.iter().any(|c| c.is_none()) && before.iter().any(|c| c.is_some());
        if seen.insert(case.clone()) && (straddles || (a % 8 != 0 && len > 8 - (a % 8) as usize)) {
            nontrivial += 1;
        }
        *hist.entry(format!("len:{}", match len { 0 => "0", 1..=8 => "1-8", 9..=24 => "9-24", _ => "25+" })).or_default() += 1;
        *hist.entry(format!("window_has_hole:{straddles}")).or_default() += 1;
        if samples.len() < 3 && i % 37 == 3 {
            samples.push(serde_json::json!({"op": if is_write {"write_bytes"} else {"read_memory"}, "addr_minus_base": a as i64 - base as i64, "len": len, "window_has_hole": straddles}));
        }
        cases.push(case);

        // register leg: write a register, read it back through the API and through PTRACE_GETREGS
        if i % 10 == 0 {
            let names = ["rax", "rbx", "rcx", "rdx", "rsi", "rdi", "r8", "r9", "r10", "r11", "r12", "r13", "r14", "r15"];
            let name = *rng.pick(&names);
            let val = match rng.below(4) { 0 => 0, 1 => u64::MAX, 2 => 1u64 << rng.below(64), _ => rng.next() };
            let before = nix::sys::ptrace::getregs(pid).ok();
            let saved = s.dbg.get_register_value(name).unwrap_or(0);
            let w = s.dbg.set_register_value(name, val);
            let api = s.dbg.get_register_value(name);
            let after = nix::sys::ptrace::getregs(pid).ok();
            reg_checks += 1;
            if let (Some(b), Some(a2)) = (before, after) {
                let get = |r: &libc::user_regs_struct, n: &str| match n {
                    "rax" => r.rax, "rbx" => r.rbx, "rcx" => r.rcx, "rdx" => r.rdx, "rsi" => r.rsi, "rdi" => r.rdi,
                    "r8" => r.r8, "r9" => r.r9, "r10" => r.r10, "r11" => r.r11, "r12" => r.r12, "r13" => r.r13,
                    "r14" => r.r14, _ => r.r15,
                };
                let mut ok = w.is_ok() && api.as_ref().ok() == Some(&val) && get(&a2, name) == val;
                for other in names.iter().filter(|n| **n != name) {
                    ok &= get(&b, other) == get(&a2, other);
                }
                ok &= b.rip == a2.rip && b.rsp == a2.rsp && b.rbp == a2.rbp && b.eflags == a2.eflags;
                if !ok {
                    reg_failures.push(format!("set {name}={val:#x}: api={:?} kernel={:#x}", api.ok(), get(&a2, name)));
                }
            } else {
                errors.push("getregs failed".into());
            }
            let _ = s.dbg.set_register_value(name, saved);
        }
    }
    // the program must see the written memory: its own checksum vs one computed from /proc/pid/mem now
    let mut expect: u64 = 0;
    for p in [0u64, 1, 3, 5, 6] {
        match e2e::proc_mem_read(pid, base + p * page, page as usize) {
            Ok(b) => {
                for x in b {
                    expect = expect.wrapping_mul(31).wrapping_add(x as u64);
                }
            }
            Err(e) => errors.push(format!("final read page {p}: {e}")),
        }
    }
    let _ = s.dbg.continue_debugee();
    s.wait_out("SUM=", 20000);
    let out = s.stdout();
    let seen_sum = out.lines().find_map(|l| l.strip_prefix("SUM=")).and_then(|v| v.trim().parse::<u64>().ok());
    let program_sees_writes = seen_sum == Some(expect);
    let files = cases.write(&out_dir, "cases_C15_e2e", 150);
    println!(
        "{}",
        serde_json::json!({"leg": "c15-e2e", "seed": seed, "cases": count, "distinct_nontrivial": nontrivial,
            "histogram": hist, "samples": samples, "files": files, "errors": errors,
            "register_checks": reg_checks, "register_failures": reg_failures,
            "program_sees_writes": program_sees_writes, "program_sum": seen_sum, "expected_sum": expect})
    );
    0
}
