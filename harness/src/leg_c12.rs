//! C12 e2e leg: request sequences from a small DAP grammar (valid, ill-typed, repeated, out of
//! order) against a real DebugSession over an in-memory transport with a real debuggee that prints
//! while running; the complete transcript is checked against the wire-level spec inside Coq.
use crate::coqfmt::{self as cf, CasesFile};
use crate::dap::{self, Client};
use crate::e2e;
use crate::rng::Rng;
use serde_json::json;
use std::collections::{BTreeMap, HashSet};

pub const DEBUGGEE: &str = r#"
#[inline(never)]
fn tick(n: u64) -> u64 { println!("tick {}", n); std::hint::black_box(n) + 1 }
fn main() {
    let rounds: u64 = std::env::args().nth(1).and_then(|s| s.parse().ok()).unwrap_or(3);
    let noisy: u64 = std::env::args().nth(2).and_then(|s| s.parse().ok()).unwrap_or(0);
    let mut acc = 0u64;
    for r in 0..rounds {
        acc += tick(r);
        for k in 0..noisy { println!("noise {} {}", r, k); }
    }
    eprintln!("bye {}", acc);
    std::process::exit((acc % 5) as i32);
}
"#;

pub fn run(args: &[String]) -> i32 {
    let seed: u64 = args.first().and_then(|s| s.parse().ok()).unwrap_or(1);
    let count: usize = args.get(1).and_then(|s| s.parse().ok()).unwrap_or(10);
    let out_dir = args.get(2).cloned().unwrap_or_else(|| "../coq/cases".into());
    let scratch = args.get(3).cloned().unwrap_or_else(|| "/verif/.scratch/c12".into());
    let mut rng = Rng::new(seed ^ 0xC12);
    let bin = match e2e::compile(&scratch, "dapdebuggee", DEBUGGEE, &[], None) {
        Ok(b) => b,
        Err(e) => {
            eprintln!("compile failed: {e}");
            return 3;
        }
    };
    let src = format!("{scratch}/dapdebuggee.rs");
    let mut cases = CasesFile::new(&["Model.DapWire"], "wire_case", "wire_check");
    let mut hist: BTreeMap<String, u64> = BTreeMap::new();
    let mut seen = HashSet::new();
    let mut nontrivial = 0usize;
    let mut samples = vec![];
    let mut errors: Vec<String> = vec![];
    let mut metas: Vec<serde_json::Value> = vec![];
    for h in 0..count {
        let mut c = Client::start();
        let mut kinds: HashSet<String> = HashSet::new();
        let mut failing = 0usize;
        let mut do_req = |c: &mut Client, cmd: &str, args: serde_json::Value, kinds: &mut HashSet<String>, failing: &mut usize| -> Option<serde_json::Value> {
            let seq = c.send(cmd, args);
            kinds.insert(cmd.to_string());
            let r = c.wait_response(seq, 8000);
            if let Some(r) = &r {
                if r["success"] == false {
                    *failing += 1;
                }
            }
            r
        };
        let noisy = if h % 2 == 0 { rng.range(0, 30) } else { 0 };
        let rounds = rng.range(2, 4);
        // optional out-of-order prefix
        if rng.chance(1, 4) {
            let cmd = *rng.pick(&["continue", "threads", "next", "stackTrace", "configurationDone", "pause", "restart"]);
            do_req(&mut c, cmd, json!({"threadId": 1}), &mut kinds, &mut failing);
        }
        do_req(&mut c, "initialize", json!({"adapterID": "bs", "linesStartAt1": true}), &mut kinds, &mut failing);
        if rng.chance(1, 5) {
            // ill-typed launch first
            do_req(&mut c, "launch", json!({"program": 17}), &mut kinds, &mut failing);
        }
        let launched = do_req(&mut c, "launch", json!({"program": bin.to_string_lossy(), "args": [rounds.to_string(), noisy.to_string()]}), &mut kinds, &mut failing)
            .map(|r| r["success"] == true)
            .unwrap_or(false);
        if launched {
            if rng.chance(3, 4) {
                do_req(&mut c, "setBreakpoints", json!({"source": {"path": src}, "breakpoints": [{"line": 3}]}), &mut kinds, &mut failing);
            }
            if rng.chance(1, 4) {
                do_req(&mut c, "setFunctionBreakpoints", json!({"breakpoints": [{"name": "tick"}]}), &mut kinds, &mut failing);
            }
            do_req(&mut c, "configurationDone", json!({}), &mut kinds, &mut failing);
            let mut steps = 0;
            let mut done = false;
            while !done && steps < 14 {
                steps += 1;
                let cmds = ["continue", "continue", "next", "threads", "stackTrace", "stepIn", "stepOut", "scopes", "variables", "evaluate", "bogusCommand", "readMemory", "pause", "setBreakpoints"];
                let cmd = *rng.pick(&cmds);
                let arguments = match cmd {
                    "continue" | "next" | "stepIn" | "stepOut" | "pause" => {
                        if rng.chance(1, 8) { json!({"threadId": "x"}) } else if rng.chance(1, 8) { json!({}) } else { json!({"threadId": 1}) }
                    }
                    "stackTrace" => if rng.chance(1, 6) { json!({"threadId": 999999, "levels": -1}) } else { json!({"threadId": 1}) },
                    "scopes" => json!({"frameId": rng.below(3) as i64}),
                    "variables" => json!({"variablesReference": rng.below(5) as i64}),
                    "evaluate" => json!({"expression": *rng.pick(&["acc", "r", "nosuchvar", "acc[", "*acc"]), "frameId": 0}),
                    "readMemory" => json!({"memoryReference": *rng.pick(&["0x0", "0x555555554000", "zzz", "0xffffffffffffffff"]), "count": *rng.pick(&[0i64, 8, 64, -1])}),
                    "setBreakpoints" => json!({"source": {"path": src}, "breakpoints": if rng.chance(1, 2) { json!([]) } else { json!([{"line": 3}, {"line": 9}]) }}),
                    _ => json!({}),
                };
                let from = c.log_len();
                let resp = do_req(&mut c, cmd, arguments, &mut kinds, &mut failing);
                if resp.is_none() {
                    errors.push(format!("history {h}: no response to {cmd} within 8 s"));
                    done = true;
                }
                if matches!(cmd, "continue" | "next" | "stepIn" | "stepOut") {
                    // let the run settle: a stopped or terminated event follows a successful resume
                    if resp.as_ref().map(|r| r["success"] == true).unwrap_or(false) {
                        let t0 = std::time::Instant::now();
                        loop {
                            let tr = c.transcript();
                            if tr.iter().skip(from).any(|m| m["type"] == "event" && (m["event"] == "stopped" || m["event"] == "terminated")) {
                                break;
                            }
                            if t0.elapsed().as_millis() > 3000 {
                                break;
                            }
                            std::thread::sleep(std::time::Duration::from_millis(3));
                        }
                    }
                }
                if c.transcript().iter().any(|m| m["type"] == "event" && m["event"] == "terminated") && rng.chance(1, 2) {
                    done = true;
                }
            }
        }
        // a few requests after the end, then disconnect
        if rng.chance(1, 3) {
            do_req(&mut c, "threads", json!({}), &mut kinds, &mut failing);
        }
        do_req(&mut c, "disconnect", json!({"terminateDebuggee": true}), &mut kinds, &mut failing);
        std::thread::sleep(std::time::Duration::from_millis(60)); // late output from the forwarders
        let (finished, no_panic) = c.close(3000);
        if !finished {
            errors.push(format!("history {h}: session thread still running 120 s after the connection was closed"));
            // never run a second debugger in this process beside a live one
            break;
        }
        if !no_panic {
            errors.push(format!("history {h}: session thread panicked"));
        }
        let tr = c.transcript();
        let reqs: Vec<(i64, u64)> = c.sent.iter().map(|(s, cmd)| (*s, dap::cmd_code(cmd))).collect();
        let case = format!(
            "({}, {})",
            cf::list(&reqs, |(s, cmd)| format!("(({})%Z, {}%N)", s, cmd)),
            cf::list(&tr, |m| dap::msg_term(m))
        );
        let n_out = tr.iter().filter(|m| m["type"] == "event" && m["event"] == "output").count();
        if seen.insert(case.clone()) && kinds.len() >= 3 && failing >= 1 {
            nontrivial += 1;
        }
        *hist.entry(format!("request_kinds:{}", kinds.len().min(8))).or_default() += 1;
        *hist.entry(format!("failing_requests:{}", failing.min(4))).or_default() += 1;
        *hist.entry(format!("output_events:{}", match n_out { 0 => "0", 1..=9 => "1-9", _ => "10+" })).or_default() += 1;
        if samples.len() < 2 {
            samples.push(json!({"requests": c.sent.iter().map(|(s, cmd)| format!("{s}:{cmd}")).collect::<Vec<_>>(), "messages": tr.len(), "failing": failing}));
        }
        metas.push(json!({"requests": c.sent.iter().map(|(s, cmd)| format!("{s}:{cmd}")).collect::<Vec<_>>(),
            "transcript": tr.iter().map(|m| if m["type"] == "response" { format!("{} R{} {} {}", m["seq"], m["request_seq"], m["command"].as_str().unwrap_or("?"), m["success"]) } else { format!("{} E {}", m["seq"], m["event"].as_str().unwrap_or("?")) }).collect::<Vec<_>>()}));
        cases.push(case);
    }
    let files = cases.write(&out_dir, "cases_C12_e2e", 50);
    println!(
        "{}",
        json!({"leg": "c12-e2e", "seed": seed, "cases": cases.cases.len(), "distinct_nontrivial": nontrivial,
            "histogram": hist, "samples": samples, "files": files, "errors": errors, "case_meta": metas, "shard": 50})
    );
    0
}
