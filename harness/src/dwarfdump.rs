//! DIE trees of the first compile unit of a binary, read from the text output of
//! `llvm-dwarfdump --debug-info` (an implementation of DWARF parsing that shares nothing with the debugger),
//! plus a small reader of DWARF 4 `.debug_loc` lists (bytes of the expressions).
use object::{Object, ObjectSection};
use std::io::{BufRead, BufReader};
use std::process::{Command, Stdio};

#[derive(Clone, Debug, PartialEq)]
pub enum DLoc {
    None,
    Expr(String),
    /// section offset, entries (begin, end, expression text) with absolute addresses
    List(u64, Vec<(u64, u64, String)>),
    Other(String),
}

#[derive(Clone, Debug)]
pub struct DNode {
    pub off: u64,
    pub tag: String,
    pub name: Option<String>,
    pub low: Option<u64>,
    pub high: Option<u64>,
    pub ranges: Vec<(u64, u64)>,
    pub loc: DLoc,
    pub decl_line: Option<u64>,
    pub children: Vec<DNode>,
}

impl DNode {
    /// gimli's `die_ranges`: DW_AT_ranges if present, else [low_pc, high_pc)
    pub fn die_ranges(&self) -> Vec<(u64, u64)> {
        if !self.ranges.is_empty() {
            self.ranges.clone()
        } else if let (Some(l), Some(h)) = (self.low, self.high) {
            vec![(l, h)]
        } else {
            vec![]
        }
    }
    pub fn contains(&self, pc: u64) -> bool {
        self.die_ranges().iter().any(|(a, b)| pc >= *a && pc < *b)
    }
    pub fn count(&self) -> usize {
        1 + self.children.iter().map(|c| c.count()).sum::<usize>()
    }
    pub fn walk<'a>(&'a self, f: &mut dyn FnMut(&'a DNode, usize), depth: usize) {
        f(self, depth);
        for c in &self.children {
            c.walk(f, depth + 1);
        }
    }
}

pub struct Cu {
    pub root: DNode,
    pub low_pc: u64,
}

fn hex(s: &str) -> Option<u64> {
    u64::from_str_radix(s.trim().trim_start_matches("0x"), 16).ok()
}

fn parse_ranges(text: &str) -> Vec<(u64, u64)> {
    let mut out = vec![];
    for part in text.split('[').skip(1) {
        let Some((a, rest)) = part.split_once(',') else { continue };
        let Some((b, _)) = rest.split_once(')') else { continue };
        if let (Some(a), Some(b)) = (hex(a), hex(b)) {
            out.push((a, b));
        }
    }
    out
}

fn parse_loc(text: &str) -> DLoc {
    let t = text.trim();
    if t.starts_with("0x") && t.contains(':') && t.contains('[') {
        let off = hex(t.split(':').next().unwrap_or("")).unwrap_or(0);
        let mut entries = vec![];
        for part in t.split("\n").skip(1) {
            let p = part.trim();
            let Some(p) = p.strip_prefix('[') else { continue };
            let Some((a, rest)) = p.split_once(',') else { continue };
            let Some((b, e)) = rest.split_once("):") else { continue };
            if let (Some(a), Some(b)) = (hex(a), hex(b)) {
                entries.push((a, b, e.trim().to_string()));
            }
        }
        DLoc::List(off, entries)
    } else if t.starts_with("DW_OP") {
        DLoc::Expr(t.to_string())
    } else {
        DLoc::Other(t.to_string())
    }
}

fn set_attr(n: &mut DNode, name: &str, text: &str) {
    // text = everything between the outer parentheses
    match name {
        "DW_AT_name" => n.name = Some(text.trim().trim_matches('"').to_string()),
        "DW_AT_low_pc" => n.low = hex(text),
        "DW_AT_high_pc" => n.high = hex(text),
        "DW_AT_ranges" => n.ranges = parse_ranges(text),
        "DW_AT_location" => n.loc = parse_loc(text),
        "DW_AT_decl_line" => n.decl_line = text.trim().parse().ok(),
        _ => {}
    }
}

/// parse the first compile unit (the user's crate with -C codegen-units=1)
pub fn first_cu(bin: &std::path::Path) -> Result<Cu, String> {
    let mut child = Command::new("llvm-dwarfdump").arg("--debug-info").arg(bin).stdout(Stdio::piped()).stderr(Stdio::null()).spawn().map_err(|e| e.to_string())?;
    let rd = BufReader::new(child.stdout.take().unwrap());
    let mut stack: Vec<DNode> = vec![];
    let mut cus = 0;
    let mut cur_attr: Option<(String, String)> = None;
    let mut root: Option<DNode> = None;
    fn close_to(stack: &mut Vec<DNode>, depth: usize, root: &mut Option<DNode>) {
        while stack.len() > depth {
            let n = stack.pop().unwrap();
            if let Some(p) = stack.last_mut() { p.children.push(n); } else { *root = Some(n); }
        }
    }
    let flush = |cur: &mut Option<(String, String)>, stack: &mut Vec<DNode>| {
        if let Some((name, text)) = cur.take() {
            let t = text.trim_end();
            let t = t.strip_suffix(')').unwrap_or(t);
            if let Some(n) = stack.last_mut() { set_attr(n, &name, t); }
        }
    };
    for line in rd.lines() {
        let Ok(line) = line else { break };
        if line.starts_with("0x") {
            flush(&mut cur_attr, &mut stack);
            let Some((off, rest)) = line.split_once(':') else { continue };
            let spaces = rest.len() - rest.trim_start().len();
            let depth = spaces.saturating_sub(1) / 2;
            let tag = rest.trim().to_string();
            if tag == "DW_TAG_compile_unit" {
                cus += 1;
                if cus == 2 { break; }
            }
            if tag.starts_with("Compile Unit") || tag.starts_with("Type Unit") { continue; }
            close_to(&mut stack, depth, &mut root);
            if tag == "NULL" { continue; }
            stack.push(DNode { off: hex(off).unwrap_or(0), tag, name: None, low: None, high: None, ranges: vec![], loc: DLoc::None, decl_line: None, children: vec![] });
            continue;
        }
        let t = line.trim_start();
        if t.starts_with("DW_AT_") {
            flush(&mut cur_attr, &mut stack);
            let (name, rest) = t.split_once(|c: char| c == '\t' || c == ' ').unwrap_or((t, ""));
            let rest = rest.trim_start();
            let rest = rest.strip_prefix('(').unwrap_or(rest);
            cur_attr = Some((name.to_string(), rest.to_string()));
        } else if !t.is_empty() {
            if let Some((_, text)) = cur_attr.as_mut() {
                text.push('\n');
                text.push_str(t);
            }
        } else {
            flush(&mut cur_attr, &mut stack);
        }
    }
    flush(&mut cur_attr, &mut stack);
    let _ = child.kill();
    let _ = child.wait();
    close_to(&mut stack, 0, &mut root);
    let root = root.ok_or("no compile unit")?;
    let low_pc = root.low.unwrap_or(0);
    Ok(Cu { root, low_pc })
}

impl Cu {
    /// the concrete subprogram whose ranges contain pc
    pub fn function_at(&self, pc: u64) -> Option<&DNode> {
        let mut found = None;
        self.root.walk(&mut |n, _| {
            if found.is_none() && n.tag == "DW_TAG_subprogram" && n.contains(pc) {
                found = Some(n);
            }
        }, 0);
        found
    }
}

/// DWARF 4 `.debug_loc` list at `off`: (begin, end, expression bytes), absolute addresses (CU base `base`)
pub fn debug_loc_list(bin: &std::path::Path, off: u64, mut base: u64) -> Result<Vec<(u64, u64, Vec<u8>)>, String> {
    let data = std::fs::read(bin).map_err(|e| e.to_string())?;
    let f = object::File::parse(&*data).map_err(|e| e.to_string())?;
    let sec = f.section_by_name(".debug_loc").ok_or("no .debug_loc")?;
    let d = sec.uncompressed_data().map_err(|e| e.to_string())?;
    let mut p = off as usize;
    let rd = |p: usize| -> Option<u64> { d.get(p..p + 8).map(|b| u64::from_le_bytes(b.try_into().unwrap())) };
    let mut out = vec![];
    loop {
        let (Some(a), Some(b)) = (rd(p), rd(p + 8)) else { return Err("truncated list".into()) };
        p += 16;
        if a == 0 && b == 0 { break; }
        if a == u64::MAX { base = b; continue; }
        let Some(lb) = d.get(p..p + 2) else { return Err("truncated entry".into()) };
        let len = u16::from_le_bytes(lb.try_into().unwrap()) as usize;
        p += 2;
        let Some(bytes) = d.get(p..p + len) else { return Err("truncated expression".into()) };
        p += len;
        out.push((base.wrapping_add(a), base.wrapping_add(b), bytes.to_vec()));
    }
    Ok(out)
}
