//! C01 / C02 e2e leg: breakpoint histories on generated programs. Ground truth = the native
//! instruction trace taken by the harness's own single-stepper, the ELF file's bytes, a native run.
use crate::coqfmt::{self as cf, CasesFile};
use crate::e2e;
use crate::gen_prog;
use crate::reftrace;
use crate::rng::Rng;
use bugstalker::debugger::address::{Address, RelocatedAddress};
use bugstalker::debugger::StopReason;
use std::collections::{BTreeMap, BTreeSet, HashSet};

pub struct Prog {
    pub name: String,
    pub bin: std::path::PathBuf,
    pub gp: gen_prog::GenProg,
    pub bias: u64,
    pub user_ranges: Vec<(u64, u64)>, // runtime
    pub main_addr: u64,               // runtime
    pub trace: Vec<(u64, u64)>,
    pub native_out: Vec<u8>,
    pub native_code: Option<i32>,
}

pub const PIE_BIAS: u64 = 0x5555_5555_4000;

pub fn prepare(scratch: &str, seed: u64, extra: &[&str], toolchain: Option<&str>) -> Result<Prog, String> {
    let name = format!("gp{seed}");
    let gp = gen_prog::generate(seed);
    let bin = e2e::compile(scratch, &name, &gp.source, extra, toolchain)?;
    let syms = reftrace::symbols(&bin);
    let user: Vec<_> = syms.iter().filter(|(n, _, _)| n.starts_with(&format!("{name}::"))).cloned().collect();
    let main = user.iter().find(|(n, _, _)| n == &format!("{name}::main")).ok_or("no main symbol")?.clone();
    let bias = PIE_BIAS;
    let user_ranges: Vec<(u64, u64)> = user.iter().map(|(_, a, s)| (a + bias, a + bias + s)).collect();
    let (native_out, native_code) = reftrace::native_run(&bin, &[]);
    let tr = reftrace::trace(&bin, &[], &user_ranges, main.1 + bias, 4_000_000)?;
    if tr.truncated {
        return Err("reference trace truncated".into());
    }
    if tr.stdout != native_out || tr.exit_code != native_code {
        return Err(format!("reference tracer changed the program's behaviour: {:?} vs {:?}", tr.exit_code, native_code));
    }
    Ok(Prog { name, bin, gp, bias, user_ranges, main_addr: main.1 + bias, trace: tr.steps, native_out, native_code })
}

/// addresses of the main binary's executable mapping that differ from the file
pub fn patched_addresses(pid: nix::unistd::Pid, bin: &std::path::Path) -> Result<Vec<u64>, String> {
    let file = std::fs::read(bin).map_err(|e| e.to_string())?;
    let canon = std::fs::canonicalize(bin).map_err(|e| e.to_string())?;
    let mut out = vec![];
    for m in e2e::proc_maps(pid) {
        if m.perms.contains('x') && std::path::Path::new(&m.path) == canon {
            let len = (m.end - m.start) as usize;
            let mem = e2e::proc_mem_read(pid, m.start, len)?;
            let off = m.offset as usize;
            for i in 0..len {
                let fb = file.get(off + i).copied().unwrap_or(0);
                if mem[i] != fb {
                    out.push(m.start + i as u64);
                }
            }
        }
    }
    Ok(out)
}

fn stop_of(r: &Result<StopReason, bugstalker::debugger::Error>) -> Result<Option<u64>, String> {
    match r {
        Ok(StopReason::Breakpoint(_, pc)) => Ok(Some(pc.as_usize() as u64)),
        Ok(StopReason::DebugeeExit(_)) => Ok(None),
        Ok(other) => Err(format!("unexpected stop {other:?}")),
        Err(e) => Err(format!("error {e}")),
    }
}

pub fn run(args: &[String]) -> i32 {
    let seed: u64 = args.first().and_then(|s| s.parse().ok()).unwrap_or(1);
    let n_progs: usize = args.get(1).and_then(|s| s.parse().ok()).unwrap_or(4);
    let out_dir = args.get(2).cloned().unwrap_or_else(|| "../coq/cases".into());
    let scratch = args.get(3).cloned().unwrap_or_else(|| "/verif/.scratch/c01".into());
    let hist_per_prog: usize = args.get(4).and_then(|s| s.parse().ok()).unwrap_or(6);
    let mut rng = Rng::new(seed ^ 0xC01);
    let mut files = vec![];
    let mut hist: BTreeMap<String, u64> = BTreeMap::new();
    let mut seen = HashSet::new();
    let (mut n_cases, mut nontrivial) = (0usize, 0usize);
    let mut samples = vec![];
    let mut errors: Vec<String> = vec![];
    let mut behaviour_failures: Vec<String> = vec![];
    for pi in 0..n_progs {
        let pseed = seed.wrapping_mul(1000) + pi as u64;
        let prog = match prepare(&scratch, pseed, &[], None) {
            Ok(p) => p,
            Err(e) => {
                errors.push(format!("prepare {pseed}: {e}"));
                continue;
            }
        };
        // candidate pool: addresses visited often / once / function entries, + line and function breakpoints
        let mut freq: BTreeMap<u64, u64> = BTreeMap::new();
        for (pc, _) in &prog.trace {
            *freq.entry(*pc).or_default() += 1;
        }
        let all: Vec<u64> = freq.keys().copied().collect();
        if all.is_empty() {
            errors.push(format!("empty trace for {pseed}"));
            continue;
        }
        let mut pool: Vec<u64> = vec![];
        for _ in 0..10 {
            pool.push(*rng.pick(&all));
        }
        // a few hot addresses (loops / recursion)
        let mut hot: Vec<(u64, u64)> = freq.iter().map(|(a, c)| (*c, *a)).collect();
        hot.sort();
        for (_, a) in hot.iter().rev().take(3) {
            pool.push(*a);
        }
        let lines: Vec<usize> = (0..3).map(|_| *rng.pick(&prog.gp.lines_with_code)).collect();
        let fns: Vec<String> = (0..2).map(|_| rng.pick(&prog.gp.fn_names).clone()).collect();
        let mut cases = CasesFile::new(&["Model.BpSpec"], "bp_case", "bp_check");
        let mut pool_set: BTreeSet<u64> = pool.iter().copied().collect();
        let mut case_texts: Vec<(Vec<String>, BTreeSet<u64>)> = vec![];
        for hi in 0..hist_per_prog {
            let mut events: Vec<String> = vec![];
            let mut used: BTreeSet<u64> = BTreeSet::new();
            let mut s = match e2e::launch(&prog.bin, &[]) {
                Ok(s) => s,
                Err(e) => {
                    errors.push(e);
                    continue;
                }
            };
            let src_name = format!("{}.rs", prog.name);
            let mut numbers: Vec<(u32, u64)> = vec![]; // (number, runtime address)
            let mut stops = 0usize;
            let mut removes = 0usize;
            let (mut signals_sent, mut signal_stops) = (0usize, 0usize);
            let mut started = false;
            let mut failed: Option<String> = None;
            // --- a batch of breakpoint commands
            let mut do_ops = |s: &mut e2e::Session, rng: &mut Rng, events: &mut Vec<String>, numbers: &mut Vec<(u32, u64)>, used: &mut BTreeSet<u64>, started: bool, removes: &mut usize, n: u64| -> Result<(), String> {
                for _ in 0..n {
                    match rng.below(10) {
                        0..=3 => {
                            let a = *rng.pick(&pool);
                            let r = s.dbg.set_breakpoint_at_addr(RelocatedAddress::from(a as usize));
                            match r {
                                Ok(v) => {
                                    numbers.retain(|(_, x)| *x != a);
                                    numbers.push((v.number, a));
                                    used.insert(a);
                                    events.push(format!("BAdd {}", cf::n(a as u128)));
                                }
                                Err(e) => return Err(format!("break at {a:#x}: {e}")),
                            }
                        }
                        4 => {
                            let line = *rng.pick(&lines);
                            if let Ok(views) = s.dbg.set_breakpoint_at_line(&src_name, line as u64) {
                                for v in views {
                                    let a = match v.addr {
                                        Address::Relocated(r) => r.as_usize() as u64,
                                        Address::Global(g) => usize::from(g) as u64 + prog.bias,
                                    };
                                    numbers.retain(|(_, x)| *x != a);
                                    numbers.push((v.number, a));
                                    used.insert(a);
                                    events.push(format!("BAdd {}", cf::n(a as u128)));
                                }
                            }
                        }
                        5 => {
                            let f = rng.pick(&fns).clone();
                            if let Ok(views) = s.dbg.set_breakpoint_at_fn(&f) {
                                for v in views {
                                    let a = match v.addr {
                                        Address::Relocated(r) => r.as_usize() as u64,
                                        Address::Global(g) => usize::from(g) as u64 + prog.bias,
                                    };
                                    numbers.retain(|(_, x)| *x != a);
                                    numbers.push((v.number, a));
                                    used.insert(a);
                                    events.push(format!("BAdd {}", cf::n(a as u128)));
                                }
                            }
                        }
                        6..=7 if !numbers.is_empty() => {
                            let (num, a) = *rng.pick(numbers);
                            let r = s.dbg.remove_breakpoint_by_number(num);
                            if r.is_err() {
                                return Err(format!("remove #{num}: {:?}", r.err().map(|e| e.to_string())));
                            }
                            numbers.retain(|(n2, _)| *n2 != num);
                            *removes += 1;
                            events.push(format!("BRemove {}", cf::n(a as u128)));
                        }
                        8 if !numbers.is_empty() => {
                            let (_, a) = *rng.pick(numbers);
                            let addr = if started { Address::Relocated(RelocatedAddress::from(a as usize)) } else {
                                // before start a breakpoint is known under the address form it was created with
                                Address::Relocated(RelocatedAddress::from(a as usize))
                            };
                            let r = s.dbg.remove_breakpoint(addr);
                            match r {
                                Ok(Some(_)) => {
                                    numbers.retain(|(_, x)| *x != a);
                                    *removes += 1;
                                    events.push(format!("BRemove {}", cf::n(a as u128)));
                                }
                                Ok(None) => {} // e.g. created from a line before start (Global form): not found under this form
                                Err(e) => return Err(format!("remove at {a:#x}: {e}")),
                            }
                        }
                        _ => {
                            // remove something that does not exist: must be a no-op
                            let _ = s.dbg.remove_breakpoint_by_number(99_999);
                        }
                    }
                }
                Ok(())
            };
            let n0 = rng.range(0, 4);
            if let Err(e) = do_ops(&mut s, &mut rng, &mut events, &mut numbers, &mut used, started, &mut removes, n0) {
                failed = Some(e);
            }
            if failed.is_none() {
                // observation before start: nothing may be patched yet
                let snap: Vec<u64> = s.dbg.breakpoints_snapshot().iter().map(|v| match v.addr {
                    Address::Relocated(r) => r.as_usize() as u64,
                    Address::Global(g) => usize::from(g) as u64 + prog.bias,
                }).collect();
                events.push(format!("BObs {} {} false", cf::list(&snap, |a| cf::n(*a as u128)), cf::list::<u64>(&[], |a| cf::n(*a as u128))));
                let r = s.dbg.start_debugee_with_reason();
                started = true;
                match stop_of(&r) {
                    Ok(st) => {
                        events.push(format!("BRun {}", cf::option(&st, |a| cf::n(*a as u128))));
                        let mut cur = st;
                        while cur.is_some() {
                            stops += 1;
                            let snap: Vec<u64> = s.dbg.breakpoints_snapshot().iter().map(|v| match v.addr {
                                Address::Relocated(r) => r.as_usize() as u64,
                                Address::Global(g) => usize::from(g) as u64 + prog.bias,
                            }).collect();
                            match patched_addresses(s.pid_now(), &prog.bin) {
                                Ok(p) => events.push(format!("BObs {} {} true", cf::list(&snap, |a| cf::n(*a as u128)), cf::list(&p, |a| cf::n(*a as u128)))),
                                Err(e) => {
                                    failed = Some(format!("text diff: {e}"));
                                    break;
                                }
                            }
                            if stops > 40 {
                                // wind down: remove everything and run to the end
                                let nums: Vec<(u32, u64)> = numbers.clone();
                                for (num, a) in nums {
                                    let _ = s.dbg.remove_breakpoint_by_number(num);
                                    events.push(format!("BRemove {}", cf::n(a as u128)));
                                }
                                numbers.clear();
                            } else {
                                let n = rng.range(0, 3);
                                if let Err(e) = do_ops(&mut s, &mut rng, &mut events, &mut numbers, &mut used, started, &mut removes, n) {
                                    failed = Some(e);
                                    break;
                                }
                            }
                            match patched_addresses(s.pid_now(), &prog.bin) {
                                Ok(p) => {
                                    let snap: Vec<u64> = s.dbg.breakpoints_snapshot().iter().map(|v| match v.addr {
                                        Address::Relocated(r) => r.as_usize() as u64,
                                        Address::Global(g) => usize::from(g) as u64 + prog.bias,
                                    }).collect();
                                    events.push(format!("BObs {} {} true", cf::list(&snap, |a| cf::n(*a as u128)), cf::list(&p, |a| cf::n(*a as u128))));
                                }
                                Err(e) => {
                                    failed = Some(format!("text diff: {e}"));
                                    break;
                                }
                            }
                            // every third resume: a signal the program ignores by default (SIGWINCH; reported by the debugger, not quiet)
                            // is made pending while the thread stands on the breakpoint: the resume is interrupted by its delivery
                            let with_signal = rng.chance(1, 3);
                            if with_signal {
                                let _ = nix::sys::signal::kill(s.pid_now(), nix::sys::signal::Signal::SIGWINCH);
                                signals_sent += 1;
                            }
                            let mut r = s.dbg.continue_debugee_with_reason();
                            let mut guard = 0;
                            while let Ok(StopReason::SignalStop(_, _)) = &r {
                                signal_stops += 1;
                                guard += 1;
                                if guard > 6 {
                                    break;
                                }
                                // at a signal stop the text must be the file + the registry's breakpoints as well
                                if let Ok(p) = patched_addresses(s.pid_now(), &prog.bin) {
                                    let snap: Vec<u64> = s.dbg.breakpoints_snapshot().iter().map(|v| match v.addr {
                                        Address::Relocated(r) => r.as_usize() as u64,
                                        Address::Global(g) => usize::from(g) as u64 + prog.bias,
                                    }).collect();
                                    events.push(format!("BObs {} {} true", cf::list(&snap, |a| cf::n(*a as u128)), cf::list(&p, |a| cf::n(*a as u128))));
                                }
                                r = s.dbg.continue_debugee_with_reason();
                            }
                            match stop_of(&r) {
                                Ok(st) => {
                                    events.push(format!("BRun {}", cf::option(&st, |a| cf::n(*a as u128))));
                                    cur = st;
                                }
                                Err(e) => {
                                    failed = Some(e);
                                    break;
                                }
                            }
                        }
                    }
                    Err(e) => failed = Some(e),
                }
            }
            if let Some(e) = failed {
                errors.push(format!("prog {pseed} history {hi}: {e}"));
                continue;
            }
            // C02: same output and exit status as the native run
            let out = s.wait_stdout_eq(&prog.native_out, 10_000);
            let code = s.events.take().iter().rev().find_map(|e| if let e2e::Ev::Exit(c) = e { Some(*c) } else { None });
            if out != prog.native_out || code != prog.native_code {
                behaviour_failures.push(format!("prog {pseed} history {hi}: output/exit {:?}/{:?} differ from native {:?}/{:?}",
                    String::from_utf8_lossy(&out), code, String::from_utf8_lossy(&prog.native_out), prog.native_code));
            }
            for a in &used {
                pool_set.insert(*a);
            }
            *hist.entry(format!("stops:{}", match stops { 0 => "0", 1..=3 => "1-3", 4..=15 => "4-15", _ => "16+" })).or_default() += 1;
            *hist.entry(format!("removes:{}", removes.min(3))).or_default() += 1;
            *hist.entry(format!("signals_sent_at_stops:{}", signals_sent.min(3))).or_default() += 1;
            *hist.entry(format!("signal_stops:{}", signal_stops.min(3))).or_default() += 1;
            if samples.len() < 2 && stops >= 2 {
                samples.push(serde_json::json!({"program_seed": pseed, "stops": stops, "removes": removes, "events": events.iter().take(12).collect::<Vec<_>>()}));
            }
            let key = events.join(";");
            if seen.insert(format!("{pseed}:{key}")) && stops >= 2 && (removes >= 1 || stops >= 4) {
                nontrivial += 1;
            }
            n_cases += 1;
            case_texts.push((events, used));
            drop(s);
        }
        let entry = std::fs::read(&prog.bin).ok().and_then(|b| b.get(24..32).map(|x| u64::from_le_bytes(x.try_into().unwrap()))).unwrap_or(0) + prog.bias;
        // the trace projected on every address any history of this program used
        let proj: Vec<u64> = prog.trace.iter().map(|(pc, _)| *pc).filter(|pc| pool_set.contains(pc)).collect();
        cases.prelude = format!("Definition tr : list N := {}.", cf::list(&proj, |a| cf::n(*a as u128)));
        for (events, _) in case_texts {
            cases.push(format!("(tr, [{}], {})", cf::n(entry as u128), cf::list(&events, |e| e.clone())));
        }
        files.extend(cases.write(&out_dir, &format!("cases_C01_p{pi}"), 50));
        let _ = std::fs::remove_file(&prog.bin);
    }
    println!(
        "{}",
        serde_json::json!({"leg": "c01-e2e", "seed": seed, "cases": n_cases, "distinct_nontrivial": nontrivial, "programs": n_progs,
            "histogram": hist, "samples": samples, "files": files, "errors": errors, "behaviour_failures": behaviour_failures})
    );
    0
}
