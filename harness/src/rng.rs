/// xorshift64*: every random choice of a leg derives from one state so a run replays from its seed.
pub struct Rng(pub u64);

impl Rng {
    pub fn new(seed: u64) -> Self {
        Rng(seed.wrapping_mul(0x9E3779B97F4A7C15) | 1)
    }
    pub fn next(&mut self) -> u64 {
        let mut x = self.0;
        x ^= x >> 12;
        x ^= x << 25;
        x ^= x >> 27;
        self.0 = x;
        x.wrapping_mul(0x2545F4914F6CDD1D)
    }
    pub fn below(&mut self, n: u64) -> u64 {
        if n == 0 { 0 } else { self.next() % n }
    }
    pub fn range(&mut self, lo: u64, hi: u64) -> u64 {
        lo + self.below(hi - lo + 1)
    }
    pub fn chance(&mut self, num: u64, den: u64) -> bool {
        self.below(den) < num
    }
    pub fn pick<'a, T>(&mut self, xs: &'a [T]) -> &'a T {
        &xs[self.below(xs.len() as u64) as usize]
    }
}
