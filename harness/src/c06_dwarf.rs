//! C06: the variant parts of the debuggee's enum types read from DWARF by the harness itself (gimli,
//! raw attribute forms), independent of the debugger's type parser.
use gimli::{AttributeValue, EndianSlice, LittleEndian};
use object::{Object, ObjectSection};
use std::borrow::Cow;
use std::collections::HashMap;
use std::path::Path;

#[derive(Clone, Debug)]
pub struct VariantInfo {
    /// (form constructor of the Coq model, raw value: unsigned content for data forms), None = no DW_AT_discr_value
    pub discr: Option<(&'static str, i128)>,
    pub member: String,
}

#[derive(Clone, Debug)]
pub struct EnumInfo {
    pub name: String,
    pub tag_offset: u64,
    pub tag_size: u64,
    pub tag_signed: bool,
    pub variants: Vec<VariantInfo>,
}

type R<'a> = EndianSlice<'a, LittleEndian>;

fn name_of<'a>(dwarf: &gimli::Dwarf<R<'a>>, unit: &gimli::Unit<R<'a>>, e: &gimli::DebuggingInformationEntry<R<'a>>) -> Option<String> {
    let v = e.attr_value(gimli::DW_AT_name)?;
    dwarf.attr_string(unit, v).ok().map(|s| s.to_string_lossy().to_string())
}

fn form_of(v: &AttributeValue<R>) -> Option<(&'static str, i128)> {
    Some(match v {
        AttributeValue::Data1(x) => ("FData1", *x as i128),
        AttributeValue::Data2(x) => ("FData2", *x as i128),
        AttributeValue::Data4(x) => ("FData4", *x as i128),
        AttributeValue::Data8(x) => ("FData8", *x as i128),
        AttributeValue::Sdata(x) => ("FSdata", *x as i128),
        AttributeValue::Udata(x) => ("FUdata", *x as i128),
        _ => return None,
    })
}

/// all struct types with a DW_TAG_variant_part, by DW_AT_name (first definition wins)
pub fn enum_infos(bin: &Path) -> Result<HashMap<String, EnumInfo>, String> {
    let data = std::fs::read(bin).map_err(|e| e.to_string())?;
    let obj = object::File::parse(&*data).map_err(|e| e.to_string())?;
    let load = |id: gimli::SectionId| -> Result<Cow<[u8]>, gimli::Error> {
        Ok(obj.section_by_name(id.name()).and_then(|s| s.uncompressed_data().ok()).unwrap_or(Cow::Borrowed(&[])))
    };
    let owned = gimli::DwarfSections::load(load).map_err(|e| e.to_string())?;
    let dwarf = owned.borrow(|s| EndianSlice::new(s, LittleEndian));
    let mut out: HashMap<String, EnumInfo> = HashMap::new();
    let mut units = dwarf.units();
    while let Some(h) = units.next().map_err(|e| e.to_string())? {
        let unit = dwarf.unit(h).map_err(|e| e.to_string())?;
        // only the debuggee's own compilation unit(s) and whatever generic instances they carry; std's rlibs are
        // scanned too (cheap) so that Option<..>/Result<..> instantiated there are found
        let mut cursor = unit.entries();
        // stack of (depth, struct name) to know the enclosing structure of a variant part
        let mut depth: isize;
        let mut struct_stack: Vec<(isize, Option<String>)> = vec![];
        let mut cur: Option<(isize, EnumInfo, Option<gimli::UnitOffset>)> = None; // (depth of the variant part, info, discr member ref)
        let mut cur_variant_depth: Option<isize> = None;
        let mut done: Vec<(EnumInfo, Option<gimli::UnitOffset>)> = vec![];
        while let Some(e) = cursor.next_dfs().map_err(|e| e.to_string())? {
            depth = e.depth();
            while struct_stack.last().map(|s| s.0 >= depth).unwrap_or(false) { struct_stack.pop(); }
            if let Some((vd, _, _)) = &cur {
                if depth <= *vd {
                    let (_, info, dref) = cur.take().unwrap();
                    done.push((info, dref));
                    cur_variant_depth = None;
                }
            }
            match e.tag() {
                gimli::DW_TAG_structure_type => struct_stack.push((depth, name_of(&dwarf, &unit, e))),
                gimli::DW_TAG_variant_part => {
                    if let Some((sd, Some(sname))) = struct_stack.last() {
                        if *sd == depth - 1 && cur.is_none() {
                            let dref = match e.attr_value(gimli::DW_AT_discr) { Some(AttributeValue::UnitRef(o)) => Some(o), _ => None };
                            cur = Some((depth, EnumInfo { name: sname.clone(), tag_offset: 0, tag_size: 0, tag_signed: false, variants: vec![] }, dref));
                        }
                    }
                }
                gimli::DW_TAG_variant => {
                    if let Some((vd, info, _)) = &mut cur {
                        if depth == *vd + 1 {
                            let discr = e.attr_value_raw(gimli::DW_AT_discr_value).and_then(|v| form_of(&v));
                            info.variants.push(VariantInfo { discr, member: String::new() });
                            cur_variant_depth = Some(depth);
                        }
                    }
                }
                gimli::DW_TAG_member => {
                    if let (Some((_, info, _)), Some(vd)) = (&mut cur, cur_variant_depth) {
                        if depth == vd + 1 {
                            if let Some(last) = info.variants.last_mut() {
                                if last.member.is_empty() { last.member = name_of(&dwarf, &unit, e).unwrap_or_default(); }
                            }
                        }
                    }
                }
                _ => {}
            }
        }
        if let Some((_, info, dref)) = cur.take() { done.push((info, dref)); }
        for (mut info, dref) in done {
            if out.contains_key(&info.name) { continue; }
            let Some(dref) = dref else { continue };
            let Ok(m) = unit.entry(dref) else { continue };
            info.tag_offset = match m.attr_value(gimli::DW_AT_data_member_location) { Some(v) => v.udata_value().unwrap_or(0), None => 0 };
            let Some(AttributeValue::UnitRef(tref)) = m.attr_value(gimli::DW_AT_type) else { continue };
            let Ok(t) = unit.entry(tref) else { continue };
            info.tag_size = t.attr_value(gimli::DW_AT_byte_size).and_then(|v| v.udata_value()).unwrap_or(0);
            info.tag_signed = matches!(t.attr_value(gimli::DW_AT_encoding), Some(AttributeValue::Encoding(gimli::DW_ATE_signed)) | Some(AttributeValue::Encoding(gimli::DW_ATE_signed_char)));
            out.insert(info.name.clone(), info);
        }
    }
    Ok(out)
}
