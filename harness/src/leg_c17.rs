//! C17 unit leg: the real `PathSearchIndex` against Model/PathIndex.v (model and spec).
use crate::coqfmt::{self as cf, CasesFile};
use crate::rng::Rng;
use bugstalker::debugger::verif::PathSearchIndex;
use std::collections::{BTreeMap, HashSet};

fn comp(rng: &mut Rng, delim: &str) -> String {
    const POOL: &[&str] = &[
        "a", "b", "c", "ab", "ba", "ns1", "ns2", "f", "fn1", "main", "x", "src", "lib.rs", "mod.rs", "", "a b",
        "{{closure}}", "{impl#0}", "T<u8>", ".", "..",
    ];
    let r = rng.below(100);
    if r < 80 {
        (*rng.pick(POOL)).to_string()
    } else if r < 90 {
        // component that contains a fragment of the delimiter
        let frag = &delim[..1.min(delim.len())];
        format!("{}{}", rng.pick(POOL), frag)
    } else if r < 95 {
        format!("{}{}", &delim[..1.min(delim.len())], rng.pick(POOL))
    } else {
        // component containing the whole delimiter (e.g. a generic argument path)
        format!("{}{}{}", rng.pick(POOL), delim, rng.pick(POOL))
    }
}

pub fn run(args: &[String]) -> i32 {
    let seed: u64 = args.first().and_then(|s| s.parse().ok()).unwrap_or(1);
    let count: usize = args.get(1).and_then(|s| s.parse().ok()).unwrap_or(2000);
    let out_dir = args.get(2).cloned().unwrap_or_else(|| "../coq/cases".into());
    let mut rng = Rng::new(seed);
    let mut cases = CasesFile::new(&["Model.PathIndex"], "pi_case", "pi_check");
    let mut seen = HashSet::new();
    let mut nontrivial = 0usize;
    let mut hist: BTreeMap<String, u64> = BTreeMap::new();
    let mut samples = vec![];

    for case_no in 0..count {
        let delim = if rng.chance(1, 2) { "::" } else { "/" };
        let n_ins = if case_no % 50 == 0 { rng.range(20, 60) } else { rng.range(0, 8) } as usize;
        let mut idx: PathSearchIndex<u64> = PathSearchIndex::new(delim);
        let mut inserts: Vec<(Vec<String>, String, u64)> = vec![];
        for k in 0..n_ins {
            let len = rng.range(0, 4) as usize;
            let mut tail: Vec<String> = (0..len).map(|_| comp(&mut rng, delim)).collect();
            if delim == "/" && rng.chance(1, 3) {
                tail.insert(0, "/".to_string()); // how file paths are stored: root as a component
            }
            // reuse an earlier path sometimes (duplicates must both be kept)
            let (tail, head) = if !inserts.is_empty() && rng.chance(1, 5) {
                let e = rng.pick(&inserts).clone();
                (e.0, e.1)
            } else {
                (tail, comp(&mut rng, delim))
            };
            let v = if rng.chance(1, 6) { 7 } else { k as u64 };
            if rng.chance(1, 2) {
                idx.insert_w_head(tail.iter(), &head, v);
            } else {
                let mut p = tail.clone();
                p.push(head.clone());
                idx.insert(p.iter(), v);
            }
            inserts.push((tail, head, v));
        }
        // needle
        let kind = rng.below(100);
        let mut needle = if !inserts.is_empty() && kind < 70 {
            let e = rng.pick(&inserts);
            let mut p = e.0.clone();
            p.push(e.1.clone());
            let take = rng.range(1, p.len() as u64) as usize;
            let suffix = &p[p.len() - take..];
            if suffix[0] == "/" && suffix.len() > 1 {
                format!("/{}", suffix[1..].join(delim))
            } else {
                suffix.join(delim)
            }
        } else {
            let len = rng.range(0, 4) as usize;
            (0..len).map(|_| comp(&mut rng, delim)).collect::<Vec<_>>().join(delim)
        };
        let mkind = match rng.below(100) {
            0..=59 => "exact",
            60..=67 => {
                if !needle.is_empty() {
                    needle.remove(0);
                }
                "drop-first-char"
            }
            68..=73 => {
                needle.pop();
                "drop-last-char"
            }
            74..=79 => {
                needle = format!("{delim}{needle}");
                "leading-delim"
            }
            80..=84 => {
                needle.push_str(delim);
                "trailing-delim"
            }
            85..=89 => {
                needle = needle.replacen(delim, &format!("{delim}{delim}"), 1);
                "double-delim"
            }
            90..=94 => {
                needle = format!("x{needle}");
                "prefix-char"
            }
            _ => {
                needle = needle.replace(delim, &delim[..1]);
                "half-delim"
            }
        };
        let ans: Vec<u64> = idx.get(&needle).into_iter().copied().collect();

        let c = format!(
            "({}, {}, {}, {})",
            cf::bstr(delim),
            cf::list(&inserts, |(t, h, v)| format!(
                "({}, {}, {})",
                cf::list(t, |s| cf::bstr(s)),
                cf::bstr(h),
                cf::n(*v as u128)
            )),
            cf::bstr(&needle),
            cf::list(&ans, |v| cf::n(*v as u128))
        );
        let ncomp = needle.split(delim).count();
        let nt = ncomp >= 2 || ans.len() >= 2;
        if seen.insert(c.clone()) && nt {
            nontrivial += 1;
        }
        *hist.entry(format!("needle:{mkind}")).or_default() += 1;
        *hist.entry(format!("answers:{}", ans.len().min(3))).or_default() += 1;
        *hist.entry(format!("inserts:{}", if n_ins > 8 { "large".into() } else { n_ins.to_string() })).or_default() += 1;
        if samples.len() < 3 && nt && ans.len() >= 1 {
            samples.push(serde_json::json!({"delimiter": delim, "inserts": inserts.iter().map(|(t,h,v)| serde_json::json!([t,h,v])).collect::<Vec<_>>(), "needle": needle, "impl_answer": ans}));
        }
        cases.push(c);
    }
    let files = cases.write(&out_dir, "cases_C17_unit", 500);
    println!(
        "{}",
        serde_json::json!({"leg": "c17-unit", "seed": seed, "cases": count, "distinct_nontrivial": nontrivial,
            "histogram": hist, "samples": samples, "files": files})
    );
    0
}
