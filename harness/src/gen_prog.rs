//! Seeded generator of small deterministic Rust debuggees: straight-line code, branches, loops,
//! recursion, generics with two instantiations, closures, nested blocks with shadowing.
//! Every function is #[inline(never)]; all arithmetic is wrapping u64; the program prints a checksum.
use crate::rng::Rng;

pub struct GenProg {
    pub source: String,
    pub fn_names: Vec<String>,       // user functions (without crate prefix), main excluded
    pub lines_with_code: Vec<usize>, // 1-based line numbers that hold a statement
}

struct Ctx<'a> {
    rng: &'a mut Rng,
    out: Vec<String>,
    stmt_lines: Vec<usize>,
    indent: usize,
}

impl Ctx<'_> {
    fn line(&mut self, s: &str, is_stmt: bool) {
        let pad = "    ".repeat(self.indent);
        self.out.push(format!("{pad}{s}"));
        if is_stmt {
            self.stmt_lines.push(self.out.len());
        }
    }
}

fn expr(c: &mut Ctx, vars: &[String]) -> String {
    let v = |c: &mut Ctx| -> String {
        if !vars.is_empty() && c.rng.chance(3, 4) { c.rng.pick(vars).clone() } else { format!("{}u64", c.rng.below(97)) }
    };
    match c.rng.below(6) {
        0 => format!("{}.wrapping_add({})", v(c), v(c)),
        1 => format!("{}.wrapping_mul({}).wrapping_add(1)", v(c), v(c)),
        2 => format!("({} ^ {}).rotate_left(3)", v(c), v(c)),
        3 => format!("{}.wrapping_sub({})", v(c), v(c)),
        4 => format!("({} >> 1) | {}", v(c), v(c)),
        _ => v(c),
    }
}

fn pick_mut(c: &mut Ctx, vars: &[String]) -> Option<String> {
    let m: Vec<&String> = vars.iter().filter(|v| !v.starts_with('i')).collect();
    if m.is_empty() { None } else { Some((*c.rng.pick(&m)).clone()) }
}

fn stmts(c: &mut Ctx, vars: &mut Vec<String>, callees: &[(String, usize)], depth: usize, budget: &mut i32) {
    let n = c.rng.range(2, 5);
    for _ in 0..n {
        if *budget <= 0 {
            break;
        }
        *budget -= 1;
        let k = c.rng.below(12);
        match k {
            0..=2 => {
                let name = format!("v{}", vars.len());
                let e = expr(c, vars);
                c.line(&format!("let mut {name} = {e};"), true);
                vars.push(name);
            }
            3..=4 if pick_mut(c, vars).is_some() => {
                let tgt = pick_mut(c, vars).unwrap();
                let e = expr(c, vars);
                c.line(&format!("{tgt} = {e};"), true);
            }
            5 if depth < 2 && !vars.is_empty() => {
                let a = c.rng.pick(vars).clone();
                let m = c.rng.below(3);
                c.line(&format!("if {a} % 3 == {m} {{"), true);
                c.indent += 1;
                let mut inner = vars.clone();
                stmts(c, &mut inner, callees, depth + 1, budget);
                c.indent -= 1;
                if c.rng.chance(1, 2) {
                    c.line("} else {", false);
                    c.indent += 1;
                    let mut inner = vars.clone();
                    stmts(c, &mut inner, callees, depth + 1, budget);
                    c.indent -= 1;
                }
                c.line("}", false);
            }
            6 if depth < 2 && !vars.is_empty() => {
                let cnt = c.rng.range(1, 4);
                let iv = format!("i{}", depth);
                c.line(&format!("for {iv} in 0..{cnt}u64 {{"), true);
                c.indent += 1;
                let mut inner = vars.clone();
                inner.push(iv);
                stmts(c, &mut inner, callees, depth + 1, budget);
                c.indent -= 1;
                c.line("}", false);
            }
            7..=8 if !callees.is_empty() && pick_mut(c, vars).is_some() => {
                let (f, arity) = c.rng.pick(callees).clone();
                let mut args: Vec<String> = (0..arity).map(|_| expr(c, vars)).collect();
                if f == "rec_sum" {
                    args[0] = format!("({}) % 5", args[0]);
                }
                let tgt = pick_mut(c, vars).unwrap();
                c.line(&format!("{tgt} = {tgt}.wrapping_add({f}({}));", args.join(", ")), true);
            }
            9 if !vars.is_empty() => {
                // nested block with shadowing
                let a = c.rng.pick(vars).clone();
                c.line("{", false);
                c.indent += 1;
                c.line(&format!("let {a} = {a}.wrapping_mul(7);"), true);
                let tgt_e = expr(c, vars);
                c.line(&format!("let _shadow_use = {a}.wrapping_add({tgt_e});"), true);
                c.indent -= 1;
                c.line("}", false);
            }
            10 if pick_mut(c, vars).is_some() => {
                let a = pick_mut(c, vars).unwrap();
                let kk = c.rng.below(50);
                c.line(&format!("let cl = |z: u64| z.wrapping_add({a}).wrapping_mul({kk} | 1);"), true);
                let e = expr(c, vars);
                c.line(&format!("{a} = apply_closure(&cl, {e});"), true);
            }
            _ => {
                let name = format!("v{}", vars.len());
                let k0 = c.rng.below(1000);
                c.line(&format!("let mut {name} = {k0}u64;"), true);
                vars.push(name);
            }
        }
    }
}

pub fn generate(seed: u64) -> GenProg {
    let mut rng = Rng::new(seed ^ 0x9E0_0001);
    let mut c = Ctx { rng: &mut rng, out: vec![], stmt_lines: vec![], indent: 0 };
    c.line("use std::hint::black_box;", false);
    c.line("#[inline(never)]", false);
    c.line("fn apply_closure(f: &dyn Fn(u64) -> u64, x: u64) -> u64 {", false);
    c.indent = 1;
    c.line("let r = f(x);", true);
    c.line("black_box(r)", true);
    c.indent = 0;
    c.line("}", false);
    c.line("#[inline(never)]", false);
    c.line("fn generic_mix<T: Into<u64> + Copy>(t: T, k: u64) -> u64 {", false);
    c.indent = 1;
    c.line("let w: u64 = t.into();", true);
    c.line("black_box(w.wrapping_mul(31).wrapping_add(k))", true);
    c.indent = 0;
    c.line("}", false);
    c.line("#[inline(never)]", false);
    c.line("fn rec_sum(n: u64, acc: u64) -> u64 {", false);
    c.indent = 1;
    c.line("if n == 0 {", true);
    c.indent = 2;
    c.line("return black_box(acc);", true);
    c.indent = 1;
    c.line("}", false);
    c.line("let deeper = rec_sum(n - 1, acc.wrapping_mul(3).wrapping_add(n));", true);
    c.line("black_box(deeper).wrapping_add(1)", true);
    c.indent = 0;
    c.line("}", false);
    let mut fn_names = vec!["apply_closure".to_string(), "generic_mix".to_string(), "rec_sum".to_string()];
    let mut callees: Vec<(String, usize)> = vec![("rec_sum".into(), 2)];
    let nfn = c.rng.range(2, 5) as usize;
    for i in 0..nfn {
        let name = format!("work{i}");
        let arity = c.rng.range(1, 3) as usize;
        let params: Vec<String> = (0..arity).map(|j| format!("p{j}")).collect();
        c.line("#[inline(never)]", false);
        c.line(&format!("fn {name}({}) -> u64 {{", params.iter().map(|p| format!("mut {p}: u64")).collect::<Vec<_>>().join(", ")), false);
        c.indent = 1;
        let mut vars: Vec<String> = vec![];
        let k1 = c.rng.below(9);
        c.line(&format!("let mut acc = {}.wrapping_add({k1}) % 64;", params[0]), true);
        vars.push("acc".into());
        for p in &params {
            vars.push(p.clone());
        }
        let mut budget = 9;
        stmts(&mut c, &mut vars, &callees, 0, &mut budget);
        if c.rng.chance(1, 2) {
            c.line("acc = acc.wrapping_add(generic_mix(acc as u8, 5)).wrapping_add(generic_mix(acc as u32, 9));", true);
        }
        c.line("black_box(acc % 1000)", true);
        c.indent = 0;
        c.line("}", false);
        callees.push((name.clone(), arity));
        fn_names.push(name);
    }
    c.line("fn main() {", false);
    c.indent = 1;
    c.line("let mut total = 0u64;", true);
    let ncalls = c.rng.range(2, 5);
    for _ in 0..ncalls {
        let (f, arity) = c.rng.pick(&callees).clone();
        let args: Vec<String> = (0..arity).map(|_| format!("black_box({}u64)", c.rng.below(5))).collect();
        c.line(&format!("total = total.wrapping_add({f}({}));", args.join(", ")), true);
    }
    c.line("println!(\"total={}\", total);", true);
    c.line("std::process::exit((total % 7) as i32);", true);
    c.indent = 0;
    c.line("}", false);
    let lines_with_code = c.stmt_lines.clone();
    GenProg { source: c.out.join("\n") + "\n", fn_names, lines_with_code }
}
