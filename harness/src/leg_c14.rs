//! C14 legs: (unit) DR6/DR7 bit functions against Model/Dr.v; (e2e) watchpoint histories on a
//! real multi-threaded debuggee, debug registers of every thread read with PTRACE_PEEKUSER.
use crate::coqfmt::{self as cf, CasesFile};
use crate::e2e::{self, Ev};
use crate::rng::Rng;
use bugstalker::debugger::address::RelocatedAddress;
use bugstalker::debugger::register::debug::{
    BreakCondition, BreakSize, DebugControlRegister, DebugRegisterNumber, DebugStatusRegister,
};
use bugstalker::debugger::verif as hooks;
use bugstalker::debugger::variable::dqe::{Dqe, Selector};
use std::collections::{BTreeMap, HashSet};

fn drn(r: u64) -> DebugRegisterNumber {
    match r {
        0 => DebugRegisterNumber::DR0,
        1 => DebugRegisterNumber::DR1,
        2 => DebugRegisterNumber::DR2,
        _ => DebugRegisterNumber::DR3,
    }
}

pub fn run_unit(args: &[String]) -> i32 {
    let _ = &hooks::PathSearchIndex::<u8>::new("/");
    let seed: u64 = args.first().and_then(|s| s.parse().ok()).unwrap_or(1);
    let count: usize = args.get(1).and_then(|s| s.parse().ok()).unwrap_or(4000);
    let out_dir = args.get(2).cloned().unwrap_or_else(|| "../coq/cases".into());
    let mut rng = Rng::new(seed);
    let mut cases = CasesFile::new(&["Model.Dr"], "dr_case", "dr_check");
    let mut hist: BTreeMap<String, u64> = BTreeMap::new();
    let mut seen = HashSet::new();
    let mut nontrivial = 0;
    let mut samples = vec![];
    let conds = [BreakCondition::DataWrites, BreakCondition::DataReadsWrites];
    let sizes = [BreakSize::Bytes1, BreakSize::Bytes2, BreakSize::Bytes4, BreakSize::Bytes8];
    for i in 0..count {
        // images: sparse, dense, and fully random over the low 32 bits (+ sometimes high garbage)
        let img: u64 = match rng.below(4) {
            0 => {
                let mut x = 0u64;
                for _ in 0..rng.range(0, 6) {
                    x |= 1 << rng.below(32);
                }
                x
            }
            1 => rng.next() & 0xffff_ffff,
            2 => !(1u64 << rng.below(32)) & 0xffff_ffff,
            _ => rng.next(),
        };
        let (op, r1, r2, kind): (String, u64, u64, &str) = match if i < 64 { (i % 4) as u64 } else { rng.below(4) } {
            0 => {
                let r = rng.below(4);
                let g = rng.chance(1, 2);
                let d = DebugControlRegister::verif_from_raw(img as usize);
                (format!("OpEnabled {} {}", cf::n(r as u128), cf::boolean(g)), d.dr_enabled(drn(r), g) as u64, 0, "dr_enabled")
            }
            1 => {
                let r = rng.below(4);
                let c = *rng.pick(&conds);
                let s = *rng.pick(&sizes);
                let mut d = DebugControlRegister::verif_from_raw(img as usize);
                d.configure_bp(drn(r), c, s);
                (
                    format!("OpConfigure {} {} {}", cf::n(r as u128), cf::n(c as u128), cf::n(s as u128)),
                    d.verif_raw() as u64,
                    0,
                    "configure_bp",
                )
            }
            2 => {
                let r = rng.below(4);
                let g = rng.chance(1, 3);
                let en = rng.chance(1, 2);
                let mut d = DebugControlRegister::verif_from_raw(img as usize);
                d.set_dr(drn(r), g, en);
                (
                    format!("OpSetDr {} {} {}", cf::n(r as u128), cf::boolean(g), cf::boolean(en)),
                    d.verif_raw() as u64,
                    0,
                    "set_dr",
                )
            }
            _ => {
                let mut d = DebugStatusRegister::verif_from_raw(img as usize);
                let hit = d.detect_and_flush();
                ("OpDetect".to_string(), hit.map(|h| h as u64 + 1).unwrap_or(0), d.verif_raw() as u64, "detect_and_flush")
            }
        };
        let c = format!("({}, {}, {}, {})", cf::n(img as u128), op, cf::n(r1 as u128), cf::n(r2 as u128));
        if seen.insert(c.clone()) && img != 0 {
            nontrivial += 1;
        }
        *hist.entry(kind.to_string()).or_default() += 1;
        if samples.len() < 4 && i % 97 == 5 {
            samples.push(serde_json::json!({"image": format!("{img:#x}"), "op": op, "impl": [r1, r2]}));
        }
        cases.push(c);
    }
    let files = cases.write(&out_dir, "cases_C14_unit", 1000);
    println!(
        "{}",
        serde_json::json!({"leg": "c14-unit", "seed": seed, "cases": count, "distinct_nontrivial": nontrivial,
            "histogram": hist, "samples": samples, "files": files})
    );
    0
}

pub const DEBUGGEE: &str = r#"
use std::sync::mpsc;
use std::thread;
#[no_mangle]
pub static mut G: [u64; 16] = [0; 16];
#[inline(never)]
#[no_mangle]
pub extern "C" fn phase(n: u64) -> u64 { std::hint::black_box(n) + 1 }
#[inline(never)]
fn scoped(k: u64) -> u64 { let mut loc = k; let mut loc2 = k ^ 5; loc = loc.wrapping_add(phase(k)); loc2 = loc2.wrapping_add(loc); let r = std::hint::black_box(loc).wrapping_add(std::hint::black_box(loc2) & 1); r }
fn wr(i: usize) { unsafe { let p = std::ptr::addr_of_mut!(G[i]); p.write_volatile(p.read_volatile().wrapping_add(0x0101010101010101)); } }
fn wr_only(i: usize, v: u64) { unsafe { std::ptr::addr_of_mut!(G[i]).write_volatile(v); } }
fn rd(i: usize) -> u64 { unsafe { std::ptr::addr_of!(G[i]).read_volatile() } }
fn main() {
    let plan = std::env::args().nth(1).unwrap_or_default();
    println!("G={:#x}", std::ptr::addr_of!(G) as usize);
    let mut workers: Vec<(mpsc::Sender<i64>, mpsc::Receiver<()>, thread::JoinHandle<()>)> = vec![];
    let mut k = 0u64;
    let mut sum = 0u64;
    for step in plan.split(',') {
        let (c, rest) = match step.chars().next() { Some(c) => (c, &step[1..]), None => continue };
        let idx: usize = rest.parse().unwrap_or(0);
        match c {
            's' => {
                let (tx, rx) = mpsc::channel::<i64>();
                let (atx, arx) = mpsc::channel::<()>();
                let h = thread::spawn(move || {
                    while let Ok(cmd) = rx.recv() {
                        if cmd < 0 { break; }
                        wr_only(cmd as usize, 0x7777_0000 + cmd as u64);
                        atx.send(()).unwrap();
                    }
                });
                workers.push((tx, arx, h));
            }
            'e' => { if let Some((tx, _, h)) = workers.pop() { tx.send(-1).unwrap(); h.join().unwrap(); } }
            'w' => wr_only(idx, 0x5555_0000 + k),
            't' => { if let Some((tx, arx, _)) = workers.first() { tx.send(idx as i64).unwrap(); arx.recv().unwrap(); } else { wr_only(idx, 0x6666_0000 + k); } }
            'r' => { sum = sum.wrapping_add(rd(idx)); }
            'p' => { k += 1; sum = sum.wrapping_add(scoped(k)); }
            _ => {}
        }
    }
    for (tx, _, h) in workers { tx.send(-1).unwrap(); h.join().unwrap(); }
    println!("done {}", sum & 1);
}
"#;

fn obs_threads(pid: nix::unistd::Pid) -> Result<Vec<(i32, [u64; 4], u64, u64)>, String> {
    let mut v = vec![];
    for tid in e2e::kernel_tids(pid) {
        // a thread that is already dead (zombie until reaped) has no registers
        if matches!(e2e::task_state(pid, tid), Some('Z') | Some('X') | None) {
            continue;
        }
        let mut regs = [0u64; 4];
        for (i, r) in regs.iter_mut().enumerate() {
            *r = e2e::peek_debugreg(tid, i)?;
        }
        v.push((tid, regs, e2e::peek_debugreg(tid, 6)?, e2e::peek_debugreg(tid, 7)?));
    }
    Ok(v)
}

fn live_tids(pid: nix::unistd::Pid) -> Vec<i32> {
    e2e::kernel_tids(pid).into_iter().filter(|t| !matches!(e2e::task_state(pid, *t), Some('Z') | Some('X') | None)).collect()
}

/// does this machine deliver hardware data breakpoints at all? (a watched write must stop)
fn hw_delivers(bin: &std::path::Path) -> Result<bool, String> {
    let mut s = e2e::launch(bin, &["p,w0,p".to_string()])?;
    s.dbg.set_breakpoint_at_fn("phase").map_err(|e| e.to_string())?;
    s.dbg.start_debugee().map_err(|e| e.to_string())?;
    s.wait_out("G=", 20000);
    let out = s.stdout();
    let g = out.lines().find_map(|l| l.strip_prefix("G=0x")).and_then(|h| u64::from_str_radix(h.trim(), 16).ok()).ok_or("parse G")?;
    s.dbg
        .set_watchpoint_on_memory(RelocatedAddress::from(g as usize), BreakSize::Bytes8, BreakCondition::DataWrites, false)
        .map_err(|e| e.to_string())?;
    s.events.take();
    s.dbg.continue_debugee().map_err(|e| e.to_string())?;
    Ok(s.events.take().iter().any(|e| matches!(e, Ev::Watchpoint { .. })))
}

fn fmt_obs(o: &[(i32, [u64; 4], u64, u64)]) -> String {
    format!(
        "EObs {}",
        cf::list(o, |(tid, regs, _d6, d7)| format!(
            "({}, {}, {})",
            cf::n(*tid as u128),
            cf::list(regs, |r| cf::n(*r as u128)),
            cf::n(*d7 as u128)
        ))
    )
}

/// one history: returns the Coq case text, (#ops, #threads max, #hits), or an error string
fn one_history(bin: &std::path::Path, rng: &mut Rng, hw_delivers: bool) -> Result<(String, usize, usize, usize, serde_json::Value), String> {
    // plan: phases separated by spawns/exits/accesses
    let n_phases = rng.range(3, 7);
    let mut plan: Vec<String> = vec!["p".into()];
    let mut segs: Vec<Vec<(char, usize)>> = vec![]; // accesses per segment (after phase k)
    let mut live_workers = 0;
    for _ in 0..n_phases {
        let mut seg = vec![];
        for _ in 0..rng.range(0, 5) {
            match rng.below(10) {
                0..=2 if live_workers < 5 => {
                    plan.push("s".into());
                    live_workers += 1;
                }
                3 if live_workers > 0 => {
                    plan.push("e".into());
                    live_workers -= 1;
                }
                4..=6 => {
                    let i = rng.below(6) as usize;
                    plan.push(format!("w{i}"));
                    seg.push(('w', i));
                }
                7..=8 => {
                    let i = rng.below(6) as usize;
                    plan.push(format!("t{i}"));
                    seg.push(('w', i));
                }
                _ => {
                    let i = rng.below(6) as usize;
                    plan.push(format!("r{i}"));
                    seg.push(('r', i));
                }
            }
        }
        plan.push("p".into());
        segs.push(seg);
    }
    let plan_s = plan.join(",");
    let mut s = e2e::launch(bin, &[plan_s.clone()])?;
    s.dbg.set_breakpoint_at_fn("phase").map_err(|e| format!("break phase: {e}"))?;
    s.dbg.start_debugee().map_err(|e| format!("start: {e}"))?;
    if !s.wait_out("G=", 20000) {
        return Err("no G= line".into());
    }
    let out = s.stdout();
    let g = out.lines().find_map(|l| l.strip_prefix("G=0x")).and_then(|h| u64::from_str_radix(h.trim(), 16).ok()).ok_or("parse G")?;
    let main_tid = s.pid_now().as_raw();
    let mut events: Vec<String> = vec![];
    let mut known: Vec<i32> = vec![main_tid];
    let mut wp_numbers: Vec<(u64, u32)> = vec![]; // (ordinal in this history = model number, impl number)
    let mut next_ord = 1u64;
    // scoped expression watchpoints alive: (model number, implementation number, local's name, phase of creation)
    let mut scoped: Vec<(u64, u32, &'static str, usize)> = vec![];
    let mut phase_no = 0usize;
    let (mut n_ops, mut max_threads, mut n_hits) = (0usize, 1usize, 0usize);
    let mut n_scope_ends = 0usize;
    let sizes = [(BreakSize::Bytes1, 1u64), (BreakSize::Bytes2, 2), (BreakSize::Bytes4, 4), (BreakSize::Bytes8, 8)];
    let mut seg_idx = 0usize;
    let mut exited = false;
    // we are stopped at phase(1)
    loop {
        // thread set changes since the last stop
        let tids = live_tids(s.pid_now());
        for t in &tids {
            if !known.contains(t) {
                events.push(format!("ENew {}", cf::n(*t as u128)));
            }
        }
        for t in &known {
            if !tids.contains(t) {
                events.push(format!("EExit {}", cf::n(*t as u128)));
            }
        }
        known = tids.clone();
        max_threads = max_threads.max(known.len());
        // execution has left the scope of every local watched in an earlier activation of `scoped`:
        // those watchpoints must be gone by now, whether or not the debugger announced it
        phase_no += 1;
        let stale: Vec<(u64, u32, &'static str, usize)> = scoped.iter().filter(|x| x.3 < phase_no).cloned().collect();
        for st in &stale {
            events.push(format!("EOp (WRemoveNum {}) 0 0", cf::n(st.0 as u128)));
            wp_numbers.retain(|n| n.0 != st.0);
        }
        scoped.retain(|x| x.3 >= phase_no);
        events.push(fmt_obs(&obs_threads(s.pid_now())?));
        // a batch of watchpoint commands
        for _ in 0..rng.range(0, 4) {
            n_ops += 1;
            match rng.below(10) {
                0..=5 => {
                    let (bs, len) = *rng.pick(&sizes);
                    let i = rng.below(6);
                    let off = rng.below(8 / len) * len;
                    let addr = g + 8 * i + off;
                    let cond = if rng.chance(2, 3) { BreakCondition::DataWrites } else { BreakCondition::DataReadsWrites };
                    let res = s.dbg.set_watchpoint_on_memory(RelocatedAddress::from(addr as usize), bs, cond, false);
                    let code = match &res {
                        Ok(v) => {
                            wp_numbers.push((next_ord, v.number));
                            next_ord += 1;
                            0
                        }
                        Err(e) => {
                            let m = format!("{e:?}");
                            if m.contains("WatchpointLimitReached") {
                                11
                            } else if m.contains("AddressAlreadyObserved") {
                                12
                            } else {
                                13
                            }
                        }
                    };
                    events.push(format!(
                        "EOp (WAddAddr {} {} {}) {} {}",
                        cf::n(addr as u128),
                        cf::n(bs as u128),
                        cf::n(cond as u128),
                        cf::n(code),
                        cf::n(len as u128)
                    ));
                }
                6 if scoped.len() < 2 => {
                    // scoped expression watchpoint on a local (`loc` / `loc2`, same scope) of the caller frame
                    let name: &'static str = if scoped.iter().any(|x| x.2 == "loc") { "loc2" } else if scoped.iter().any(|x| x.2 == "loc2") { "loc" } else if rng.chance(1, 2) { "loc" } else { "loc2" };
                    let _ = s.dbg.set_frame_into_focus(1);
                    let (code, addr, err) = {
                        let res = s.dbg.set_watchpoint_on_expr(name, Dqe::Variable(Selector::by_name(name, true)), BreakCondition::DataWrites);
                        match &res {
                            Ok(v) => (0u32, v.address.as_usize() as u64, String::new()),
                            Err(e) => {
                                let m = format!("{e:?}");
                                (if m.contains("WatchpointLimitReached") { 11 } else if m.contains("AddressAlreadyObserved") { 12 } else { 13 }, 0, m)
                            }
                        }
                    };
                    if code == 0 {
                        let num = s.dbg.watchpoint_list().iter().map(|w| w.number).max().unwrap_or(0);
                        wp_numbers.push((next_ord, num));
                        scoped.push((next_ord, num, name, phase_no));
                        next_ord += 1;
                    }
                    let _ = s.dbg.set_frame_into_focus(0);
                    if code == 13 {
                        return Err(format!("watch loc failed unexpectedly: {err}"));
                    }
                    // a refused expression watchpoint has no address in the result: the model needs one that is not
                    // already observed, the stack slot of `loc` is never one of the G addresses
                    let a = if addr != 0 { addr } else { 0x7fff_0000_0000 + if name == "loc" { 0 } else { 8 } };
                    events.push(format!(
                        "EOp (WAddExpr {} {} {} (Some 1)) {} 8",
                        cf::n(a as u128), cf::n(BreakSize::Bytes8 as u128), cf::n(BreakCondition::DataWrites as u128), cf::n(code as u128)
                    ));
                }
                6..=7 => {
                    let (ord, num) = if !wp_numbers.is_empty() && rng.chance(4, 5) { *rng.pick(&wp_numbers) } else { (9999, 999_999) };
                    let res = s.dbg.remove_watchpoint_by_number(num);
                    let code = match res {
                        Ok(_) => 0,
                        Err(_) => 13,
                    };
                    wp_numbers.retain(|n| n.1 != num);
                    scoped.retain(|x| x.0 != ord);
                    events.push(format!("EOp (WRemoveNum {}) {} 0", cf::n(ord as u128), cf::n(code)));
                }
                _ => {
                    let i = rng.below(6);
                    let addr = g + 8 * i + if rng.chance(1, 4) { 4 } else { 0 };
                    let res = s.dbg.remove_watchpoint_by_addr(RelocatedAddress::from(addr as usize));
                    let code = match &res {
                        Ok(Some(v)) => {
                            let n = v.number;
                            wp_numbers.retain(|x| x.1 != n);
                            0
                        }
                        Ok(None) => 0,
                        Err(_) => 13,
                    };
                    events.push(format!("EOp (WRemoveAddr {}) {} 0", cf::n(addr as u128), cf::n(code)));
                }
            }
            events.push(fmt_obs(&obs_threads(s.pid_now())?));
        }
        // run to the next phase stop, collecting watchpoint hits on the way
        let accesses: Vec<(char, usize)> = segs.get(seg_idx).cloned().unwrap_or_default();
        seg_idx += 1;
        let mut hits: Vec<u64> = vec![];
        loop {
            s.events.take();
            s.dbg.continue_debugee().map_err(|e| format!("continue: {e}"))?;
            let evs = s.events.take();
            let mut at_phase = false;
            for ev in evs {
                match ev {
                    Ev::Watchpoint { end_of_scope: true, num, .. } => {
                        // the debugger removes a scoped watchpoint when execution leaves its scope
                        if let Some(pos) = scoped.iter().position(|x| x.1 == num) {
                            let st = scoped.remove(pos);
                            wp_numbers.retain(|n| n.0 != st.0);
                            events.push(format!("EOp (WRemoveNum {}) 0 0", cf::n(st.0 as u128)));
                        }
                        n_scope_ends += 1;
                    }
                    Ev::Watchpoint { num, .. } => {
                        // address of the watchpoint with this number, from the debugger's own list
                        let a = s.dbg.watchpoint_list().iter().find(|w| w.number == num).map(|w| w.address.as_usize() as u64).unwrap_or(0);
                        hits.push(a);
                        n_hits += 1;
                        // thread set can change inside a segment too
                        let tids = live_tids(s.pid_now());
                        for t in &tids {
                            if !known.contains(t) {
                                events.push(format!("ENew {}", cf::n(*t as u128)));
                            }
                        }
                        for t in &known {
                            if !tids.contains(t) {
                                events.push(format!("EExit {}", cf::n(*t as u128)));
                            }
                        }
                        known = tids;
                        events.push(fmt_obs(&obs_threads(s.pid_now())?));
                    }
                    Ev::Breakpoint { .. } => at_phase = true,
                    Ev::Exit(_) => exited = true,
                    _ => {}
                }
            }
            if at_phase || exited {
                break;
            }
            if hits.len() > 200 {
                return Err("runaway hits".into());
            }
        }
        if hw_delivers {
          events.push(format!(
            "ESeg {} {}",
            cf::list(&accesses, |(k, i)| format!("({}, {})", cf::n(g as u128 + 8 * *i as u128), cf::boolean(*k == 'w'))),
            cf::list(&hits, |h| cf::n(*h as u128))
          ));
        }
        if exited {
            break;
        }
    }
    let sample = serde_json::json!({"plan": plan_s, "events": events.len(), "ops": n_ops, "threads_max": max_threads, "hits": n_hits, "scope_ends": n_scope_ends});
    let case = format!("({}, {})", cf::n(main_tid as u128), cf::list(&events, |e| e.clone()));
    drop(s);
    Ok((case, n_ops, max_threads, n_hits, sample))
}

pub fn run_e2e(args: &[String]) -> i32 {
    let seed: u64 = args.first().and_then(|s| s.parse().ok()).unwrap_or(1);
    let count: usize = args.get(1).and_then(|s| s.parse().ok()).unwrap_or(20);
    let out_dir = args.get(2).cloned().unwrap_or_else(|| "../coq/cases".into());
    let scratch = args.get(3).cloned().unwrap_or_else(|| "/verif/.scratch/c14".into());
    let mut rng = Rng::new(seed ^ 0xC14);
    let bin = match e2e::compile(&scratch, "wpdebuggee", DEBUGGEE, &[], None) {
        Ok(b) => b,
        Err(e) => {
            eprintln!("compile failed: {e}");
            return 3;
        }
    };
    let mut cases = CasesFile::new(&["Model.Dr", "Model.Wp", "Model.WpE2E"], "wp_e2e_case", "wp_e2e_check");
    let mut seen = HashSet::new();
    let (mut nontrivial, mut errors) = (0usize, vec![]);
    let mut hist: BTreeMap<String, u64> = BTreeMap::new();
    let mut samples = vec![];
    let delivers = hw_delivers(&bin).unwrap_or(false);
    for _ in 0..count {
        match one_history(&bin, &mut rng, delivers) {
            Ok((case, ops, thr, hits, sample)) => {
                if seen.insert(case.clone()) && (thr >= 2 || ops >= 3) {
                    nontrivial += 1;
                }
                *hist.entry(format!("threads_max:{thr}")).or_default() += 1;
                *hist.entry(format!("ops:{}", ops / 4 * 4)).or_default() += 1;
                *hist.entry("hits".into()).or_default() += hits as u64;
                if samples.len() < 2 {
                    samples.push(sample);
                }
                cases.push(case);
            }
            Err(e) => errors.push(e),
        }
    }
    let files = cases.write(&out_dir, "cases_C14_e2e", 8);
    println!(
        "{}",
        serde_json::json!({"leg": "c14-e2e", "seed": seed, "cases": cases.cases.len(), "distinct_nontrivial": nontrivial,
            "histogram": hist, "samples": samples, "files": files, "errors": errors,
            "hardware_delivers_data_breakpoints": delivers})
    );
    0
}
