//! Reference tracer: an independent, minimal ptrace single-stepper (no BugStalker code involved).
//! Runs a binary with ASLR disabled, lets it run to `stop_at` (an address where it plants its own
//! int3), then single-steps to process exit and records (pc, rsp) of every instruction whose pc lies
//! in one of the given address ranges.
use nix::sys::ptrace;
use nix::sys::signal::Signal;
use nix::sys::wait::{WaitStatus, waitpid};
use nix::unistd::{ForkResult, Pid, fork};
use std::ffi::CString;

pub struct RefTrace {
    pub steps: Vec<(u64, u64)>, // (pc, rsp) inside the ranges, in execution order
    pub total_steps: u64,
    pub exit_code: Option<i32>,
    pub stdout: Vec<u8>,
    pub truncated: bool,
}

fn peek(pid: Pid, addr: u64) -> Result<u64, String> {
    ptrace::read(pid, addr as ptrace::AddressType).map(|v| v as u64).map_err(|e| e.to_string())
}
fn poke(pid: Pid, addr: u64, val: u64) -> Result<(), String> {
    unsafe { ptrace::write(pid, addr as ptrace::AddressType, val as *mut std::ffi::c_void).map_err(|e| e.to_string()) }
}

/// `ranges`: runtime address ranges [lo, hi) to record; `stop_at`: runtime address to start stepping from
pub fn trace(prog: &std::path::Path, args: &[String], ranges: &[(u64, u64)], stop_at: u64, max_steps: u64) -> Result<RefTrace, String> {
    let (mut reader, writer) = os_pipe::pipe().map_err(|e| e.to_string())?;
    let cprog = CString::new(prog.to_string_lossy().as_bytes()).unwrap();
    let mut cargs = vec![cprog.clone()];
    for a in args {
        cargs.push(CString::new(a.as_bytes()).unwrap());
    }
    let pid = match unsafe { fork() }.map_err(|e| e.to_string())? {
        ForkResult::Child => {
            use std::os::fd::AsRawFd;
            unsafe {
                libc::dup2(writer.as_raw_fd(), 1);
                libc::dup2(writer.as_raw_fd(), 2);
                libc::personality(libc::ADDR_NO_RANDOMIZE as libc::c_ulong);
            }
            let _ = ptrace::traceme();
            let _ = nix::unistd::execv(&cprog, &cargs);
            unsafe { libc::_exit(127) }
        }
        ForkResult::Parent { child } => child,
    };
    drop(writer);
    let out_thread = std::thread::spawn(move || {
        use std::io::Read;
        let mut v = vec![];
        let _ = reader.read_to_end(&mut v);
        v
    });
    let kill = |pid: Pid| {
        let _ = ptrace::kill(pid);
        let _ = waitpid(pid, None);
    };
    match waitpid(pid, None).map_err(|e| e.to_string())? {
        WaitStatus::Stopped(_, Signal::SIGTRAP) => {}
        other => {
            kill(pid);
            return Err(format!("unexpected first stop {other:?}"));
        }
    }
    // run to stop_at with our own int3
    let orig = peek(pid, stop_at)?;
    poke(pid, stop_at, (orig & !0xff) | 0xcc)?;
    ptrace::cont(pid, None).map_err(|e| e.to_string())?;
    match waitpid(pid, None).map_err(|e| e.to_string())? {
        WaitStatus::Stopped(_, Signal::SIGTRAP) => {}
        other => {
            kill(pid);
            return Err(format!("did not reach the start address: {other:?}"));
        }
    }
    poke(pid, stop_at, orig)?;
    let mut regs = ptrace::getregs(pid).map_err(|e| e.to_string())?;
    regs.rip = stop_at;
    ptrace::setregs(pid, regs).map_err(|e| e.to_string())?;

    let mut steps = vec![];
    let mut total = 0u64;
    let mut exit_code = None;
    let mut truncated = false;
    let inside = |pc: u64| ranges.iter().any(|(lo, hi)| pc >= *lo && pc < *hi);
    let mut pending: Option<Signal> = None;
    loop {
        let regs = match ptrace::getregs(pid) {
            Ok(r) => r,
            Err(_) => break,
        };
        if inside(regs.rip) {
            steps.push((regs.rip, regs.rsp));
        }
        total += 1;
        if total >= max_steps {
            truncated = true;
            kill(pid);
            break;
        }
        if ptrace::step(pid, pending.take()).is_err() {
            break;
        }
        match waitpid(pid, None) {
            Ok(WaitStatus::Stopped(_, Signal::SIGTRAP)) => {}
            Ok(WaitStatus::Stopped(_, sig)) => pending = Some(sig),
            Ok(WaitStatus::Exited(_, code)) => {
                exit_code = Some(code);
                break;
            }
            Ok(WaitStatus::Signaled(_, sig, _)) => {
                exit_code = Some(128 + sig as i32);
                break;
            }
            Ok(_) => {}
            Err(_) => break,
        }
    }
    let stdout = out_thread.join().unwrap_or_default();
    Ok(RefTrace { steps, total_steps: total, exit_code, stdout, truncated })
}

/// native run (no tracing): stdout+stderr and exit status
pub fn native_run(prog: &std::path::Path, args: &[String]) -> (Vec<u8>, Option<i32>) {
    match std::process::Command::new(prog).args(args).output() {
        Ok(o) => {
            let mut v = o.stdout;
            v.extend_from_slice(&o.stderr);
            (v, o.status.code())
        }
        Err(_) => (vec![], None),
    }
}

/// defined function symbols of a binary: (name demangled by nm -C, file address, size)
pub fn symbols(bin: &std::path::Path) -> Vec<(String, u64, u64)> {
    let out = std::process::Command::new("nm").arg("-S").arg("-C").arg("--defined-only").arg(bin).output();
    let Ok(out) = out else { return vec![] };
    String::from_utf8_lossy(&out.stdout)
        .lines()
        .filter_map(|l| {
            let mut it = l.splitn(4, ' ');
            let addr = u64::from_str_radix(it.next()?, 16).ok()?;
            let size = u64::from_str_radix(it.next()?, 16).ok()?;
            let kind = it.next()?;
            let name = it.next()?.to_string();
            if kind == "t" || kind == "T" { Some((name, addr, size)) } else { None }
        })
        .collect()
}
