use crate::e2e;
pub fn run(_: &[String]) -> i32 {
    let bin = std::path::PathBuf::from("/verif/.scratch/tmp/chain");
    let mut s = e2e::launch(&bin, &[]).unwrap();
    s.dbg.set_breakpoint_at_fn("anchor").unwrap();
    s.dbg.start_debugee().unwrap();
    let bt = s.dbg.backtrace(s.pid_now()).unwrap();
    println!("frames: {}", bt.len());
    for (k, f) in bt.iter().enumerate().take(22) {
        println!("frame {k}: {:?} ip={:#x}", f.func_name, f.ip.as_usize());
    }
    0
}
