use crate::e2e;
use bugstalker::debugger::variable::dqe::{Dqe, Selector};
pub fn run(args: &[String]) -> i32 {
    let src = std::fs::read_to_string(&args[0]).unwrap();
    let bin = e2e::compile("/verif/.scratch/tmp", std::path::Path::new(&args[0]).file_stem().unwrap().to_str().unwrap(), &src, &[], None).unwrap();
    let mut s = e2e::launch(&bin, &[]).unwrap();
    let line: u64 = args[1].parse().unwrap();
    s.dbg.set_breakpoint_at_line(&format!("{}", std::path::Path::new(&args[0]).file_name().unwrap().to_string_lossy()), line).unwrap();
    s.dbg.start_debugee().unwrap();
    for name in &args[2..] {
        let r = s.dbg.read_variable(Dqe::Variable(Selector::by_name(name, true))).map(|v| v.iter().map(|r| format!("{:?}", r.value()).chars().take(160).collect::<String>()).collect::<Vec<_>>());
        println!("{name} = {:?}", r.map_err(|e| e.to_string()));
    }
    0
}
