use crate::e2e;
use bugstalker::debugger::address::RelocatedAddress;
use bugstalker::debugger::register::debug::{BreakCondition, BreakSize};
use bugstalker::debugger::variable::dqe::{Dqe, Selector};
pub fn run(_: &[String]) -> i32 {
    let bin = e2e::compile("/verif/.scratch/c14", "wpdebuggee", crate::leg_c14::DEBUGGEE, &[], None).unwrap();
    let mut s = e2e::launch(&bin, &["p,w0,p".to_string()]).unwrap();
    s.dbg.set_breakpoint_at_fn("phase").unwrap();
    let r = s.dbg.start_debugee_with_reason();
    println!("start: {:?}", r.map(|r| format!("{r:?}")));
    s.wait_out("G=", 2000);
    let out = s.stdout();
    let g = out.lines().find_map(|l| l.strip_prefix("G=0x")).and_then(|h| u64::from_str_radix(h.trim(), 16).ok()).unwrap();
    println!("frame -> {:?}", s.dbg.set_frame_into_focus(1));
    let n = std::env::args().nth(2).and_then(|s| s.parse().ok()).unwrap_or(4);
    for i in 0..n {
        let r = s.dbg.set_watchpoint_on_memory(RelocatedAddress::from(g as usize + 8 * i), BreakSize::Bytes8, BreakCondition::DataWrites, false);
        println!("add {i}: {:?}", r.map(|v| v.number));
    }
    let r = s.dbg.set_watchpoint_on_expr("loc", Dqe::Variable(Selector::by_name("loc", true)), BreakCondition::DataWrites);
    println!("watch loc: {:?}", r.map(|v| v.number).map_err(|e| format!("{e:?}")));
    println!("bps: {:?}", s.dbg.breakpoints_snapshot().iter().map(|b| (b.number, format!("{:?}", b.addr))).collect::<Vec<_>>());
    println!("wps: {:?}", s.dbg.watchpoint_list().iter().map(|w| w.number).collect::<Vec<_>>());
    for _ in 0..4 {
        let r = s.dbg.continue_debugee_with_reason();
        println!("cont: {:?} evs {:?}", r.map(|r| format!("{r:?}")), s.events.take());
    }
    0
}
