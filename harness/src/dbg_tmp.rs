//! scratch: `bsv dbg <src.rs> <break line> <cmd>...` with cmd in next|step|finish|stepi|cont|b<line>; prints the place after each
use crate::e2e;
pub fn run(args: &[String]) -> i32 {
    let src = std::fs::read_to_string(&args[0]).unwrap();
    let name = std::path::Path::new(&args[0]).file_name().unwrap().to_string_lossy().to_string();
    let bin = e2e::compile("/verif/.scratch/tmp", std::path::Path::new(&args[0]).file_stem().unwrap().to_str().unwrap(), &src, &[], None).unwrap();
    let mut s = e2e::launch(&bin, &[]).unwrap();
    let line: u64 = args[1].parse().unwrap();
    s.dbg.set_breakpoint_at_line(&name, line).unwrap();
    s.dbg.start_debugee().unwrap();
    let show = |s: &e2e::Session| {
        let pid = s.pid_now();
        let regs = nix::sys::ptrace::getregs(pid).ok();
        let bt = s.dbg.backtrace(pid).ok();
        println!("   pc {:x?} rsp {:x?} fn {:?}", regs.map(|r| r.rip), regs.map(|r| r.rsp), bt.and_then(|b| b.first().and_then(|f| f.func_name.clone())));
    };
    show(&s);
    for c in &args[2..] {
        let r = match c.as_str() {
            "next" => s.dbg.step_over().map_err(|e| e.to_string()),
            "step" => s.dbg.step_into().map_err(|e| e.to_string()),
            "finish" => s.dbg.step_out().map_err(|e| e.to_string()),
            "stepi" => s.dbg.stepi().map_err(|e| e.to_string()),
            "cont" => s.dbg.continue_debugee().map_err(|e| e.to_string()),
            b if b.starts_with("bf") => s.dbg.set_breakpoint_at_fn(&b[2..]).map(|v| println!("   views: {:?}", v.iter().map(|x| format!("{:?}", x.addr)).collect::<Vec<_>>())).map_err(|e| e.to_string()),
            b if b.starts_with('b') => s.dbg.set_breakpoint_at_line(&name, b[1..].parse().unwrap()).map(|_| ()).map_err(|e| e.to_string()),
            _ => Err("?".into()),
        };
        println!("{c}: {r:?} events {:?}", s.events.take());
        show(&s);
    }
    0
}
