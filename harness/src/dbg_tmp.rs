use crate::e2e;
pub fn run(args: &[String]) -> i32 {
    let bin = e2e::compile("/verif/.scratch/c10", "sigdebuggee", crate::leg_c10::DEBUGGEE, &[], None).unwrap();
    let mut s = e2e::launch(&bin, &["2".to_string()]).unwrap();
    s.dbg.set_breakpoint_at_fn("anchor").unwrap();
    s.dbg.start_debugee().unwrap();
    let pid = s.pid_now();
    for a in args { let sig: i32 = a.parse().unwrap(); unsafe { libc::kill(pid.as_raw(), sig) }; }
    for _ in 0..12 {
        let r = s.dbg.continue_debugee_with_reason();
        println!("cont: {:?}", r.as_ref().map(|r| format!("{r:?}")).map_err(|e| e.to_string()));
        if matches!(r, Ok(bugstalker::debugger::StopReason::DebugeeExit(_))) || r.is_err() { break; }
    }
    std::thread::sleep(std::time::Duration::from_millis(50));
    println!("{}", s.stdout());
    0
}
